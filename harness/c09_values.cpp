// C09 — mock parameter values compare by mathematical value, symmetrically.
// Oracle: __int128 value of every stored integer; identity/content rules for the other types;
// libc strcmp/memcmp on the caller's storage at comparison time for by-reference values (strings, memory buffers).
#include "verif.h"
#include <cmath>
#include <cfloat>
#include <climits>
#include <limits>

#include "CppUTest/TestHarness.h"
#include "CppUTest/TestTestingFixture.h"
#include "CppUTestExt/MockNamedValue.h"
#include "CppUTestExt/MockSupport.h"

typedef __int128 i128;

static std::string s128(i128 v) {
    if (v == 0) return "0";
    bool neg = v < 0; unsigned __int128 u = neg ? (unsigned __int128) (-(v + 1)) + 1 : (unsigned __int128) v;
    std::string s; while (u) { s += (char) ('0' + (int) (u % 10)); u /= 10; }
    if (neg) s += '-';
    std::reverse(s.begin(), s.end()); return s;
}

enum IT { T_INT, T_UINT, T_LONG, T_ULONG, T_LL, T_ULL, T_N };
static const char* IT_NAME[] = { "int", "unsigned int", "long int", "unsigned long int", "long long int", "unsigned long long int" };
static i128 tmin(int t) { switch (t) { case T_INT: return INT_MIN; case T_LONG: return LONG_MIN; case T_LL: return LLONG_MIN; default: return 0; } }
static i128 tmax(int t) { switch (t) { case T_INT: return INT_MAX; case T_UINT: return UINT_MAX; case T_LONG: return LONG_MAX; case T_ULONG: return (i128) ULONG_MAX; case T_LL: return LLONG_MAX; default: return (i128) ULLONG_MAX; } }

static std::vector<i128> master_lattice() {
    std::vector<i128> v;
    i128 one = 1;
    i128 pts[] = { -(one << 63), -(one << 32), -(one << 31), 0, (one << 31), (one << 32), (one << 63), (one << 64) };
    for (i128 p : pts) for (int d = -2; d <= 2; d++) v.push_back(p + d);
    v.push_back(-(one << 15)); v.push_back((one << 16)); v.push_back(42);
    std::sort(v.begin(), v.end()); v.erase(std::unique(v.begin(), v.end()), v.end());
    return v;
}
static std::vector<i128> lattice_for(int t) {
    std::vector<i128> o;
    for (i128 x : master_lattice()) if (x >= tmin(t) && x <= tmax(t)) o.push_back(x);
    return o;
}
static std::vector<i128> LAT[T_N];

// A value object may be re-used (setData twice, two andReturnValue calls): what it held before must not shine through.
static void prime(MockNamedValue& v, unsigned how) {
    switch (how % 5) {
    case 1: v.setValue(2.5); break;
    case 2: v.setValue((unsigned long long) ~0ull); break;
    case 3: v.setValue((void*) (uintptr_t) ~(uintptr_t) 0); break;
    case 4: v.setValue((long long) LLONG_MIN); break;
    default: break;
    }
}
static void set_int(MockNamedValue& v, int t, i128 x) {
    switch (t) {
    case T_INT: v.setValue((int) x); break;
    case T_UINT: v.setValue((unsigned int) x); break;
    case T_LONG: v.setValue((long int) x); break;
    case T_ULONG: v.setValue((unsigned long int) x); break;
    case T_LL: v.setValue((long long) x); break;
    default: v.setValue((unsigned long long) x); break;
    }
}

static bool boundary_pair(i128 a, i128 b) {
    i128 one = 1;
    auto big = [&](i128 x) { return x >= (one << 31) || x < -(one << 31); };
    return (a < 0 && b >= (one << 31)) || (b < 0 && a >= (one << 31)) || big(a) || big(b);
}

// ---------------------------------------------------------------- section: integer pairs (complete lattice)
struct PairIdx { int ta, tb; size_t ia, ib; };
static std::vector<uint64_t> pair_prefix;   // cumulative sizes per (ta,tb)
static uint64_t pair_total = 0;
static void init_pairs() {
    for (int t = 0; t < T_N; t++) LAT[t] = lattice_for(t);
    for (int a = 0; a < T_N; a++) for (int b = 0; b < T_N; b++) { pair_prefix.push_back(pair_total); pair_total += LAT[a].size() * LAT[b].size(); }
}
static PairIdx decode_pair(uint64_t i) {
    size_t k = std::upper_bound(pair_prefix.begin(), pair_prefix.end(), i) - pair_prefix.begin() - 1;
    PairIdx p; p.ta = (int) (k / T_N); p.tb = (int) (k % T_N);
    uint64_t r = i - pair_prefix[k];
    p.ia = r / LAT[p.tb].size(); p.ib = r % LAT[p.tb].size();
    return p;
}

static void check_int_pair(vf::Ctx& c, int ta, i128 va, int tb, i128 vb) {
    c.begin([=] { return vf::J().k("ta", IT_NAME[ta]).k("a", s128(va)).k("tb", IT_NAME[tb]).k("b", s128(vb)).str(); });
    MockNamedValue A("p"), B("p");
    prime(A, (unsigned) (c.idx % 7)); prime(B, (unsigned) (c.idx / 7 % 5));
    set_int(A, ta, va); set_int(B, tb, vb);
    bool expect = va == vb;
    bool ab = A.equals(B), ba = B.equals(A);
    std::string tp = std::string(IT_NAME[ta]) + "~" + IT_NAME[tb];
    if (ab != expect) c.violation("equals-wrong:" + tp, "A.equals(B)=" + std::to_string(ab) + " but values " + (expect ? "are equal" : "differ"));
    if (ba != expect) c.violation("equals-wrong:" + std::string(IT_NAME[tb]) + "~" + IT_NAME[ta], "B.equals(A)=" + std::to_string(ba) + " but values " + (expect ? "are equal" : "differ"));
    if (ab != ba) c.violation("asymmetric:" + tp, "A.equals(B) != B.equals(A)");
    c.count(expect ? "int_pairs_equal" : "int_pairs_unequal");
    if (boundary_pair(va, vb)) c.nontrivial(tp + ":" + s128(va) + ":" + s128(vb));
}

static void sec_intpairs(vf::Ctx& c) {
    PairIdx p = decode_pair(c.idx);
    check_int_pair(c, p.ta, LAT[p.ta][p.ia], p.tb, LAT[p.tb][p.ib]);
}

static i128 rand_in_type(vf::Rng& r, int t) {
    // random 64-bit pattern, often close to a power of two, clamped into the type by reinterpretation
    uint64_t raw = r.next();
    switch (r.below(4)) {
    case 0: raw >>= r.below(64); break;
    case 1: raw = (1ull << r.below(64)) + (uint64_t) r.range(-3, 3); break;
    case 2: raw = (uint64_t) (int64_t) r.range(-70000, 70000); break;
    default: break;
    }
    switch (t) {
    case T_INT: return (int) raw; case T_UINT: return (unsigned int) raw; case T_LONG: return (long) raw; case T_ULONG: return (i128) (unsigned long) raw;
    case T_LL: return (long long) raw; default: return (i128) (unsigned long long) raw;
    }
}

static void sec_randpairs(vf::Ctx& c) {
    int ta = (int) c.rng.below(T_N), tb = (int) c.rng.below(T_N);
    i128 va = rand_in_type(c.rng, ta), vb;
    if (c.rng.chance(50) && va >= tmin(tb) && va <= tmax(tb)) vb = va;                 // equal value in the other type
    else if (c.rng.chance(40)) {                                                       // same low bits, different value (wrap candidates)
        uint64_t raw = (uint64_t) va;
        switch (tb) { case T_INT: vb = (int) raw; break; case T_UINT: vb = (unsigned) raw; break; case T_LONG: vb = (long) raw; break; case T_ULONG: vb = (i128) (unsigned long) raw; break; case T_LL: vb = (long long) raw; break; default: vb = (i128) (unsigned long long) raw; }
    } else vb = rand_in_type(c.rng, tb);
    check_int_pair(c, ta, va, tb, vb);
}

// ---------------------------------------------------------------- section: getters inside a fixture
static MockNamedValue* g_val; static int g_getter; static i128 g_result; static bool g_returned;
static void getter_body() {
    g_returned = false;
    switch (g_getter) {
    case T_INT: g_result = g_val->getIntValue(); break;
    case T_UINT: g_result = g_val->getUnsignedIntValue(); break;
    case T_LONG: g_result = g_val->getLongIntValue(); break;
    case T_ULONG: g_result = (i128) g_val->getUnsignedLongIntValue(); break;
    case T_LL: g_result = g_val->getLongLongIntValue(); break;
    default: g_result = (i128) g_val->getUnsignedLongLongIntValue(); break;
    }
    g_returned = true;
}

static void check_getter(vf::Ctx& c, int ts, i128 v, int tg) {
    c.begin([=] { return vf::J().k("stored_type", IT_NAME[ts]).k("value", s128(v)).k("getter", IT_NAME[tg]).str(); });
    MockNamedValue V("p"); prime(V, (unsigned) (c.idx % 5)); set_int(V, ts, v);
    g_val = &V; g_getter = tg; g_result = 0; g_returned = false;
    {
        TestTestingFixture fx;
        fx.setTestFunction(getter_body);
        fx.runAllTests();
        bool failed = fx.getFailureCount() > 0;
        std::string tp = std::string(IT_NAME[ts]) + "->" + IT_NAME[tg];
        if (!failed) {
            if (!g_returned) c.violation("getter-vanished:" + tp, "getter neither returned nor failed the test");
            else if (g_result != v) c.violation("getter-wrong-number:" + tp, "stored " + s128(v) + " read back as " + s128(g_result) + " without failing the test");
            c.count("getter_returned");
        } else {
            c.count("getter_failed_test");
            if (fx.getFailureCount() != 1) c.violation("getter-multi-fail:" + tp, "getter recorded " + std::to_string(fx.getFailureCount()) + " failures");
        }
        // a same-type read must always succeed
        if (ts == tg && failed) c.violation("getter-same-type-fails:" + tp, "reading a value back through its own type failed the test");
    }
    if (v < 0 || v > INT_MAX) c.nontrivial(std::string(IT_NAME[ts]) + ">" + IT_NAME[tg] + ":" + s128(v));
}

static std::vector<uint64_t> get_prefix; static uint64_t get_total = 0;
static void init_getters() { for (int s = 0; s < T_N; s++) { get_prefix.push_back(get_total); get_total += LAT[s].size() * T_N; } }
static void sec_getters(vf::Ctx& c) {
    size_t k = std::upper_bound(get_prefix.begin(), get_prefix.end(), c.idx) - get_prefix.begin() - 1;
    uint64_t r = c.idx - get_prefix[k];
    check_getter(c, (int) k, LAT[k][r / T_N], (int) (r % T_N));
}
static void sec_randgetters(vf::Ctx& c) {
    int ts = (int) c.rng.below(T_N);
    check_getter(c, ts, rand_in_type(c.rng, ts), (int) c.rng.below(T_N));
}

// ---------------------------------------------------------------- section: doubles
static const double DV[] = { 0.0, -0.0, 4.9406564584124654e-324, -4.9406564584124654e-324, DBL_MIN, 1.0, -1.0, 1.0 + DBL_EPSILON, 1.0 - DBL_EPSILON / 2, 1.5, 2.0, 1e-9, 1e9, 1e300, DBL_MAX, -DBL_MAX,
                             std::numeric_limits<double>::infinity(), -std::numeric_limits<double>::infinity(), std::numeric_limits<double>::quiet_NaN() };
static const double TOL[] = { 0.0, 4.9406564584124654e-324, DBL_MIN, DBL_EPSILON, 1e-9, 0.005, 0.5, 1.0, 2.0, 1e300, DBL_MAX, std::numeric_limits<double>::infinity(), std::numeric_limits<double>::quiet_NaN() };
static const size_t NDV = sizeof(DV) / sizeof(DV[0]), NTOL = sizeof(TOL) / sizeof(TOL[0]);

// returns 1 equal, 0 unequal, -1 rounding-ambiguous (oracle's own two evaluations disagree)
static int doubles_oracle(double a, double b, double tol) {
    if (std::isnan(a) || std::isnan(b) || std::isnan(tol)) return 0;
    if (a == b) return 1;                                   // same value incl. same infinity (and +0 == -0)
    long double dl = fabsl((long double) a - (long double) b);
    double dd = fabs(a - b);
    bool rl = dl <= (long double) tol, rd = dd <= tol;
    if (rl != rd) return -1;
    return rl ? 1 : 0;
}

static void sec_doubles(vf::Ctx& c) {
    uint64_t i = c.idx;
    double a = DV[i % NDV]; i /= NDV; double b = DV[i % NDV]; i /= NDV; double tol = TOL[i % NTOL]; i /= NTOL;
    double tolb = TOL[i % 3];
    c.begin([=] { return vf::J().k("a", a).k("b", b).k("tol_a", tol).k("tol_b", tolb).str(); });
    MockNamedValue A("p"), B("p");
    A.setValue(a, tol); B.setValue(b, tolb);
    int exp = doubles_oracle(a, b, tol);
    bool got = A.equals(B);
    if (exp < 0) { c.count("doubles_rounding_ambiguous_skipped"); return; }
    if (got != (exp == 1)) c.violation(std::string("double-equals-wrong:") + (std::isinf(a) && std::isinf(b) ? "inf-inf" : std::isnan(a) || std::isnan(b) || std::isnan(tol) ? "nan" : "finite"), "equals=" + std::to_string(got) + " expected " + std::to_string(exp));
    c.count("double_pairs");
    if (std::isinf(a) || std::isinf(b) || std::isnan(a) || std::isnan(b) || (a != b && fabs(a - b) <= 2 * tol)) { char buf[100]; snprintf(buf, sizeof buf, "%a:%a:%a", a, b, tol); c.nontrivial(buf); }
}

// ---------------------------------------------------------------- section: cross-type table
struct EqCmp : public MockNamedValueComparator {
    static int calls;
    bool isEqual(const void* a, const void* b) { calls++; return *(const int*) a == *(const int*) b; }
    SimpleString valueToString(const void* a) { return StringFrom(*(const int*) a); }
};
int EqCmp::calls = 0;
static void fn1() {} static void fn2() {}
enum K { K_BOOL, K_INT, K_ULONG, K_DOUBLE, K_STR, K_PTR, K_CPTR, K_FPTR, K_MEM, K_OBJ_T1, K_OBJ_T2, K_OBJ_NOCMP, K_COBJ_T1, K_OBJ_ENDPOINT, K_OBJ_WAYPOINT, K_ULONG_ADDR, K_LONG_ADDR, K_N };
static const char* K_NAME[] = { "bool", "int", "unsigned long int", "double", "const char*", "void*", "const void*", "void (*)()", "const unsigned char*", "obj:T1", "obj:T2", "obj:NoCmp", "constobj:T1", "obj:Endpoint", "obj:Waypoint", "unsigned long int holding an object address", "long int holding an object address" };
static int g_objs[3] = { 7, 7, 9 };
static char g_mem[3][4] = { { 1, 2, 3, 4 }, { 1, 2, 3, 4 }, { 1, 2, 9, 4 } };
static char g_s[3][8] = { "abc", "abc", "abd" };

// value index 0/1: equal content at different addresses; 2: different content
static void set_kind(MockNamedValue& v, int k, int vi, size_t memlen) {
    switch (k) {
    case K_BOOL: v.setValue(vi != 2); break;
    case K_INT: v.setValue(vi == 2 ? 0 : 1); break;
    case K_ULONG: v.setValue((unsigned long) (vi == 2 ? 0 : 1)); break;
    case K_DOUBLE: v.setValue(vi == 2 ? 0.0 : 1.0, 0.0); break;
    case K_STR: v.setValue((const char*) g_s[vi]); break;
    case K_PTR: v.setValue((void*) &g_objs[vi == 1 ? 0 : vi]); break;
    case K_CPTR: v.setValue((const void*) &g_objs[vi == 1 ? 0 : vi]); break;
    case K_FPTR: v.setValue(vi == 2 ? fn2 : fn1); break;
    case K_MEM: v.setMemoryBuffer((const unsigned char*) g_mem[vi], memlen); break;
    case K_OBJ_T1: v.setObjectPointer("T1", &g_objs[vi]); break;
    case K_OBJ_T2: v.setObjectPointer("T2", &g_objs[vi]); break;
    case K_OBJ_NOCMP: v.setObjectPointer("NoCmp", &g_objs[vi]); break;
    case K_COBJ_T1: v.setConstObjectPointer("T1", &g_objs[vi]); break;
    // custom type names that END like an integer type name, and integers that hold the very address of such an object
    case K_OBJ_ENDPOINT: v.setObjectPointer("Endpoint", &g_objs[vi == 1 ? 0 : vi]); break;
    case K_OBJ_WAYPOINT: v.setObjectPointer("Waypoint", &g_objs[vi == 1 ? 0 : vi]); break;
    case K_ULONG_ADDR: v.setValue((unsigned long) (uintptr_t) &g_objs[vi == 1 ? 0 : vi]); break;
    case K_LONG_ADDR: v.setValue((long) (uintptr_t) &g_objs[vi == 1 ? 0 : vi]); break;
    }
}
static MockNamedValueComparatorsAndCopiersRepository* g_repo; static EqCmp g_cmp;

static void sec_cross(vf::Ctx& c) {
    uint64_t i = c.idx;
    int ka = (int) (i % K_N); i /= K_N; int kb = (int) (i % K_N); i /= K_N; int va = (int) (i % 3); i /= 3; int vb = (int) (i % 3); i /= 3;
    size_t la = (size_t) (i % 3) + 2; i /= 3; size_t lb = (size_t) (i % 2) + 3;   // buffer lengths 2..4 / 3..4
    c.begin([=] { return vf::J().k("kind_a", K_NAME[ka]).k("kind_b", K_NAME[kb]).k("val_a", va).k("val_b", vb).k("len_a", (unsigned long) la).k("len_b", (unsigned long) lb).str(); });
    MockNamedValue::setDefaultComparatorsAndCopiersRepository(g_repo);
    MockNamedValue A("p"), B("p");
    set_kind(A, ka, va, la); set_kind(B, kb, vb, lb);
    bool same_content = (va == 2) == (vb == 2);
    bool expect;
    bool addr_a = ka == K_ULONG_ADDR || ka == K_LONG_ADDR, addr_b = kb == K_ULONG_ADDR || kb == K_LONG_ADDR;
    bool intlike_a = ka == K_INT || ka == K_ULONG || addr_a, intlike_b = kb == K_INT || kb == K_ULONG || addr_b;
    bool obj1_a = ka == K_OBJ_T1 || ka == K_COBJ_T1, obj1_b = kb == K_OBJ_T1 || kb == K_COBJ_T1;   // both have type name "T1"
    if (addr_a && addr_b) expect = same_content;                       // the same address as an integer: equal numbers
    else if (intlike_a && intlike_b && (addr_a || addr_b)) expect = false;   // an address never equals 0 or 1
    else if (intlike_a && intlike_b) expect = same_content;
    else if (obj1_a && obj1_b) expect = g_objs[va] == g_objs[vb];
    else if (ka != kb) expect = false;
    else if (ka == K_MEM) expect = la == lb && memcmp(g_mem[va], g_mem[vb], la) == 0;
    else if (ka == K_OBJ_T2) expect = g_objs[va] == g_objs[vb];
    else if (ka == K_OBJ_NOCMP) expect = false;                       // no comparator: never equal
    else expect = same_content;
    bool ab = A.equals(B), ba = B.equals(A);
    std::string tp = std::string(K_NAME[ka]) + "~" + K_NAME[kb];
    // custom-type objects of the SAME type name: the statement says nothing about them (comparator semantics) -> executed, not judged
    bool same_object_type = (obj1_a && obj1_b) || (ka == kb && (ka == K_OBJ_T2 || ka == K_OBJ_NOCMP || ka == K_OBJ_ENDPOINT || ka == K_OBJ_WAYPOINT));
    if (same_object_type) { c.count("cross_pairs_same_object_type_unjudged"); return; }
    if (ab != expect) c.violation("cross-equals-wrong:" + tp, "equals=" + std::to_string(ab) + " expected " + std::to_string(expect));
    if (ab != ba) c.violation("cross-asymmetric:" + tp, "A.equals(B) != B.equals(A)");
    c.count("cross_pairs");
    if (ka != kb || ka == K_MEM) c.nontrivial(tp + std::to_string(va) + std::to_string(vb) + std::to_string(la) + std::to_string(lb));
}

// ---------------------------------------------------------------- sections: by-reference values (strings, memory buffers) over storage histories
// A string / memory-buffer value holds only the caller's pointer: "content" is what the pointer designates when equals() runs.
// The storage is rewritten (same bytes, other bytes of the same length, another length, extended behind the old terminator,
// truncated) between setValue()/setMemoryBuffer() and equals(); the two sides may share or overlap their storage; equals() is
// called repeatedly and through copies of the value objects. Oracle: libc strcmp / memcmp on the storage at comparison time.
enum { BR_CAP = 16, BR_MAXLEN = 11, BR_MAXOFF = 3, BR_MAXSIZE = 8 };
enum { OP_WRITE, OP_SET, OP_CMP };
enum { LAY_SEPARATE, LAY_SHARED, LAY_OVERLAP };
static const char* LAY_NAME[] = { "separate", "shared", "overlapping" };
static const char STR_ALPHA[] = { 'a', 'a', 'b', 'c', 'A', ' ', '\x01', '\x80', '\xff' };
static const unsigned char MEM_ALPHA[] = { 0, 0, 1, 'a', 0x80, 0xff };
static const char* HIST_NAME[] = { "fresh", "storage-rewritten-with-the-same-content", "storage-rewritten-with-other-content-of-the-same-length", "storage-rewritten-to-another-length" };
static const char* HIST_COUNTER[] = { "fresh_storage", "storage_rewritten_with_the_same_content", "storage_rewritten_with_other_content_of_the_same_length", "storage_rewritten_to_another_length" };

struct BrOp { int op; int side; std::string bytes; size_t size; int reps; bool copy; unsigned prime; int order; };   // order of the 2 x reps equals() calls: 0 A~B,B~A alternating, 1 all A~B then all B~A, 2 all B~A then all A~B

struct BrStore {
    bool mem; int layout; int bufidx[2]; int off[2];
    unsigned char* base[2];
    size_t size[2];                       // memory buffers: the size given at the last set
    std::string snap[2]; bool written[2]; // content at the last set / storage written since
    unsigned char* p(int s) const { return base[bufidx[s]] + off[s]; }
    size_t width(int s) const { size_t w = (size_t) (BR_CAP - off[s]); return w > 12 ? 12 : w; }
    std::string content(int s) const { return mem ? std::string((const char*) p(s), size[s]) : std::string((const char*) p(s)); }
    void init_fill() { for (int b = 0; b < 2; b++) { memset(base[b], mem ? 0x5a : 'z', BR_CAP); if (!mem) base[b][BR_CAP - 1] = 0; } written[0] = written[1] = false; size[0] = size[1] = 0; }
    void write(int s, const std::string& bytes) {
        memcpy(p(s), bytes.data(), bytes.size());
        for (int t = 0; t < 2; t++) if (bufidx[t] == bufidx[s]) written[t] = true;
    }
    void note_set(int s, size_t sz) { size[s] = sz; snap[s] = content(s); written[s] = false; }
    int hist(int s) const {
        if (!written[s]) return 0;
        std::string now = content(s);
        if (now == snap[s]) return 1;
        return now.size() == snap[s].size() ? 2 : 3;
    }
};

static std::string rand_chars(vf::Rng& r, size_t n) { std::string s; for (size_t i = 0; i < n; i++) s += r.pick(STR_ALPHA); return s; }

static std::string gen_write(vf::Rng& r, const BrStore& st, int side, bool random_content = false) {
    if (!st.mem) {
        std::string self = st.content(side), other = st.content(1 - side), s;
        switch (random_content ? 8 : r.below(9)) {
        case 0: s = self; break;                                                        // the same bytes again
        case 1: s = other; break;                                                       // now equal to the other side
        case 2: s = other.substr(0, r.below(other.size() + 1)); break;                  // a prefix of the other side
        case 3: s = other + rand_chars(r, 1 + r.below(3)); break;                       // the other side is a prefix of this one
        case 4: s = self + rand_chars(r, 1 + r.below(3)); break;                        // extended behind the old terminator
        case 5: s = self.substr(0, r.below(self.size() + 1)); break;                    // truncated
        case 6: s = other; if (s.empty()) s = "a"; else { size_t k = r.below(s.size()); s[k] = (char) (s[k] == 'a' ? 'b' : 'a'); } break;   // same length as the other side, one character differs
        case 7: s = rand_chars(r, self.size()); break;                                  // same length as before, other content
        default: s = rand_chars(r, r.below(BR_MAXLEN + 1)); break;
        }
        if (s.size() > BR_MAXLEN) s.resize(BR_MAXLEN);
        s += '\0';
        return s;
    }
    size_t w = st.width(side), wo = st.width(1 - side);
    std::string self((const char*) st.p(side), w), other((const char*) st.p(1 - side), wo), s = self;
    auto flip = [&](size_t k) { s[k] = (char) (s[k] == 0 ? 1 : 0); };
    switch (random_content ? 6 : r.below(7)) {
    case 0: break;                                                                      // the same bytes again
    case 1: case 2: s.replace(0, std::min(w, wo), other, 0, std::min(w, wo)); if (r.chance(40) && st.size[side]) flip(r.below(st.size[side])); break;   // (nearly) equal to the other side
    case 3: s.replace(0, std::min(w, wo), other, 0, std::min(w, wo)); if (st.size[side] < w) flip(st.size[side] + r.below(w - st.size[side])); break;   // differs only behind the length given
    case 4: if (st.size[side]) flip(r.below(st.size[side])); break;                     // one byte inside the length given
    default: for (size_t i = 0; i < w; i++) s[i] = (char) r.pick(MEM_ALPHA); break;
    }
    return s;
}

static void prime_byref(MockNamedValue& v, unsigned how) {
    static const unsigned char junk[12] = { 9, 9, 9, 9, 9, 9, 9, 9, 9, 9, 9, 9 };
    switch (how % 8) {
    case 5: v.setMemoryBuffer(junk, 7); break;       // an earlier buffer of another size
    case 6: v.setValue("earlier string"); break;
    case 7: v.setMemoryBuffer(junk, 0); v.setValue((const char*) "x"); break;
    default: prime(v, how % 8); break;
    }
}

static std::vector<BrOp> gen_byref_script(vf::Rng& r, BrStore& st, bool with_cmp_rounds) {
    std::vector<BrOp> ops;
    auto W = [&](int side, bool rnd = false) { BrOp o{ OP_WRITE, side, gen_write(r, st, side, rnd), 0, 0, false, 0 }; st.write(side, o.bytes); ops.push_back(o); };
    auto S = [&](int side, size_t sz) { BrOp o{ OP_SET, side, "", sz, 0, false, (unsigned) r.below(8) }; st.note_set(side, sz); ops.push_back(o); };
    st.mem = r.chance(40);
    st.layout = (int) r.pick(std::vector<int>{ LAY_SEPARATE, LAY_SEPARATE, LAY_SEPARATE, LAY_SHARED, LAY_OVERLAP });
    int inner = (int) r.below(2);
    st.bufidx[0] = 0; st.bufidx[1] = st.layout == LAY_SEPARATE ? 1 : 0; st.off[0] = st.off[1] = 0;
    if (st.layout == LAY_OVERLAP) st.off[inner] = r.range(1, BR_MAXOFF);
    st.init_fill();
    size_t sz0 = st.mem ? r.below(BR_MAXSIZE + 1) : 0, sz1 = st.mem ? (r.chance(70) ? sz0 : r.below(BR_MAXSIZE + 1)) : 0;
    st.size[0] = sz0; st.size[1] = sz1;                 // so that the first writes are generated relative to the judged ranges
    int first = (int) r.below(2);
    W(first, true); W(1 - first);
    S(first, first == 0 ? sz0 : sz1);
    if (r.chance(30)) W((int) r.below(2));              // the storage changes between the two sets
    S(1 - first, first == 0 ? sz1 : sz0);
    if (!with_cmp_rounds) return ops;
    int mut = (int) r.below(3);                         // which side's storage is rewritten: both, only A, only B (the other one is a constant)
    int rounds = r.range(1, 4);
    for (int k = 0; k < rounds; k++) {
        int nw = k == 0 ? (int) r.pick(std::vector<int>{ 0, 0, 1, 1, 1, 2 }) : (int) r.pick(std::vector<int>{ 0, 1, 1, 1, 2, 2 });   // first comparison: often on untouched storage
        if (k > 0 && nw == 0 && r.chance(70)) nw = 1;
        for (int i = 0; i < nw; i++) W(mut == 0 ? (int) r.below(2) : mut - 1);
        if (r.chance(15)) { int s = (int) r.below(2); S(s, st.mem ? (r.chance(50) ? st.size[s] : r.below(BR_MAXSIZE + 1)) : 0); }
        ops.push_back(BrOp{ OP_CMP, 0, "", 0, r.range(1, 3), r.chance(20), 0, (int) r.below(3) });
    }
    return ops;
}

static std::string byref_desc(const BrStore& st, const std::vector<BrOp>& ops) {
    std::vector<std::string> items;
    for (const BrOp& o : ops) {
        if (o.op == OP_WRITE) items.push_back(vf::J().k("op", "write").k("side", o.side ? "B" : "A").k("hex", vf::hexbytes(o.bytes.data(), o.bytes.size())).str());
        else if (o.op == OP_SET) items.push_back(vf::J().k("op", "set").k("side", o.side ? "B" : "A").k("size", (unsigned long) o.size).k("primed", o.prime).str());
        else items.push_back(vf::J().k("op", "compare").k("times", o.reps).k("through_copies", o.copy).k("order", o.order == 0 ? "alternating" : o.order == 1 ? "A~B first" : "B~A first").str());
    }
    return vf::J().k("kind", st.mem ? "memory buffer" : "string").k("storage", LAY_NAME[st.layout]).k("offset_a", st.off[0]).k("offset_b", st.off[1]).raw("history", vf::jarr(items)).str();
}

static void set_byref(MockNamedValue& v, const BrStore& st, int side, size_t sz, unsigned how) {
    prime_byref(v, how);
    if (st.mem) v.setMemoryBuffer(st.p(side), sz); else v.setValue((const char*) st.p(side));
}

static std::string byref_class(const BrStore& st) {
    int h = std::max(st.hist(0), st.hist(1));
    return std::string(st.mem ? "const unsigned char*" : "const char*") + ":" + HIST_NAME[h];      // the storage layout goes into the detail, one defect = one key
}
static bool byref_expect(const BrStore& st) {
    return st.mem ? (st.size[0] == st.size[1] && memcmp(st.p(0), st.p(1), st.size[0]) == 0) : strcmp((const char*) st.p(0), (const char*) st.p(1)) == 0;
}
static void byref_count_state(vf::Ctx& c, const BrStore& st, const char* prefix, bool expect) {
    int h = std::max(st.hist(0), st.hist(1));
    std::string pre = prefix;
    c.count(pre + (st.mem ? "_memory_" : "_string_") + HIST_COUNTER[h]);
    if (h == 3) c.count(pre + (expect ? "_content_equal_after_rewrite_to_another_length" : "_content_differs_after_rewrite_to_another_length"));
    if (h == 2 && expect) c.count(pre + "_content_equal_after_rewrite_with_other_content");
    if (st.layout != LAY_SEPARATE) c.count(pre + (st.layout == LAY_SHARED ? "_shared_storage" : "_overlapping_storage"));
    if (!expect && !st.mem) {
        std::string a = st.content(0), b = st.content(1);
        if (a.compare(0, std::min(a.size(), b.size()), b, 0, std::min(a.size(), b.size())) == 0) c.count(pre + "_string_one_side_a_proper_prefix_of_the_other");
    }
    if (st.mem && st.size[0] == st.size[1] && memchr(st.p(0), 0, st.size[0])) c.count(pre + "_memory_same_length_with_zero_bytes");
    if (st.mem && st.size[0] != st.size[1]) c.count(pre + "_memory_lengths_differ");
}

static void sec_byref(vf::Ctx& c) {
    unsigned char simbuf[2][BR_CAP];
    BrStore sim; sim.base[0] = simbuf[0]; sim.base[1] = simbuf[1];
    std::vector<BrOp> ops = gen_byref_script(c.rng, sim, true);
    BrStore st = sim;
    std::string desc = byref_desc(sim, ops);
    c.begin([=] { return desc; });
    st.base[0] = (unsigned char*) ::malloc(BR_CAP); st.base[1] = (unsigned char*) ::malloc(BR_CAP);   // exact size: ASan / memcheck see every read behind the storage
    st.init_fill();
    bool interesting = st.layout != LAY_SEPARATE;
    {
        MockNamedValue A("p"), B("p");
        for (const BrOp& o : ops) {
            if (o.op == OP_WRITE) { st.write(o.side, o.bytes); c.count("byref_storage_writes"); }
            else if (o.op == OP_SET) { set_byref(o.side ? B : A, st, o.side, o.size, o.prime); st.note_set(o.side, o.size); c.count("byref_sets"); }
            else {
                bool expect = byref_expect(st);
                std::string cls = byref_class(st);
                byref_count_state(c, st, "byref_comparisons", expect);
                if (std::max(st.hist(0), st.hist(1)) > 0) interesting = true;
                MockNamedValue CA(A), CB(B);
                const MockNamedValue& X = o.copy ? CA : A; const MockNamedValue& Y = o.copy ? CB : B;
                if (o.copy) c.count("byref_comparisons_through_copied_value_objects");
                if (o.reps > 1) c.count("byref_comparisons_repeated_on_the_same_pair");
                bool flagged = false;
                bool ab = expect, ba = expect;
                for (int k = 0; k < 2 * o.reps; k++) {
                    bool dir_ab = o.order == 0 ? k % 2 == 0 : (o.order == 1) == (k < o.reps);
                    if (dir_ab) ab = X.equals(Y); else ba = Y.equals(X);
                    c.count(expect ? "byref_equals_calls_content_equal" : "byref_equals_calls_content_differs");
                    if (flagged) continue;
                    if (ab != expect || ba != expect) {
                        flagged = true;
                        c.violation("byref-equals-wrong:" + cls, std::string(dir_ab ? "A.equals(B)=" : "B.equals(A)=") + std::to_string(dir_ab ? ab : ba) + " (call " + std::to_string(k + 1) + " of " + std::to_string(2 * o.reps) + ") but the contents " + (expect ? "are equal" : "differ")
                                    + " (" + LAY_NAME[st.layout] + " storage): A=" + vf::hexbytes(st.content(0).data(), st.content(0).size()) + " B=" + vf::hexbytes(st.content(1).data(), st.content(1).size()));
                    }
                }
                if (o.order) c.count("byref_comparisons_with_consecutive_calls_in_one_direction");
            }
        }
    }
    ::free(st.base[0]); ::free(st.base[1]);
    c.count(st.mem ? "byref_memory_cases" : "byref_string_cases");
    if (interesting) c.nontrivial(desc);
}

// The same through the mock: an expectation recorded on storage that is filled in before the actual call arrives.
static BrStore g_mst; static std::vector<BrOp>* g_mops; static int g_mstage; static bool g_mexpect_eq; static int g_mapi;
static unsigned char g_mbuf[2][BR_CAP];
static void mock_byref_body() {
    BrStore& st = g_mst;
    g_mstage = 0;
    for (const BrOp& o : *g_mops) {
        if (o.op == OP_WRITE) st.write(o.side, o.bytes);
        else if (o.op == OP_SET && o.side == 0) {        // side A: the expectation
            MockExpectedCall& e = mock().expectOneCall("f");
            if (st.mem) { if (g_mapi) e.withMemoryBufferParameter("p", st.p(0), o.size); else e.withParameter("p", (const unsigned char*) st.p(0), o.size); }
            else { if (g_mapi) e.withStringParameter("p", (const char*) st.p(0)); else e.withParameter("p", (const char*) st.p(0)); }
            st.note_set(0, o.size);
        } else if (o.op == OP_SET) {                      // side B: the actual call, judged when its parameter is passed
            st.note_set(1, o.size);
            g_mexpect_eq = byref_expect(st);
            g_mstage = 1;
            MockActualCall& a = mock().actualCall("f");
            if (st.mem) a.withParameter("p", (const unsigned char*) st.p(1), o.size); else a.withParameter("p", (const char*) st.p(1));
            g_mstage = 2;
        }
    }
    mock().checkExpectations();
    g_mstage = 3;
}

static void sec_mock_byref(vf::Ctx& c) {
    BrStore& st = g_mst; st.base[0] = g_mbuf[0]; st.base[1] = g_mbuf[1];
    std::vector<BrOp> ops;
    {   // expectation first, 0..2 rewrites of the storage, then the actual call
        vf::Rng& r = c.rng;
        auto W = [&](int side, bool rnd = false) { BrOp o{ OP_WRITE, side, gen_write(r, st, side, rnd), 0, 0, false, 0 }; st.write(side, o.bytes); ops.push_back(o); };
        st.mem = r.chance(35);
        st.layout = (int) r.pick(std::vector<int>{ LAY_SEPARATE, LAY_SEPARATE, LAY_SEPARATE, LAY_SHARED, LAY_OVERLAP });
        st.bufidx[0] = 0; st.bufidx[1] = st.layout == LAY_SEPARATE ? 1 : 0; st.off[0] = st.off[1] = 0;
        if (st.layout == LAY_OVERLAP) st.off[r.below(2)] = r.range(1, BR_MAXOFF);
        st.init_fill();
        size_t sz0 = st.mem ? r.below(BR_MAXSIZE + 1) : 0, sz1 = st.mem ? (r.chance(75) ? sz0 : r.below(BR_MAXSIZE + 1)) : 0;
        st.size[0] = sz0; st.size[1] = sz1;
        W(0, true); W(1);
        ops.push_back(BrOp{ OP_SET, 0, "", sz0, 0, false, 0 }); st.note_set(0, sz0);
        int nw = (int) r.pick(std::vector<int>{ 0, 1, 1, 1, 2, 2 });
        for (int i = 0; i < nw; i++) W(r.chance(70) ? 0 : 1);
        ops.push_back(BrOp{ OP_SET, 1, "", sz1, 0, false, 0 }); st.note_set(1, sz1);
        g_mapi = (int) r.below(2);
    }
    std::string desc = byref_desc(st, ops);
    int api = g_mapi;
    c.begin([=] { return vf::J().k("expectation_api", api ? "named" : "overloaded").raw("scenario", desc).str(); });
    st.init_fill();
    g_mops = &ops; g_mstage = -1; g_mexpect_eq = false;
    mock().clear();
    int failures;
    {
        TestTestingFixture fx;
        fx.setTestFunction(mock_byref_body);
        fx.runAllTests();
        failures = (int) fx.getFailureCount();
    }
    mock().clear();
    g_mops = nullptr;
    std::string cls = byref_class(st);
    if (g_mstage < 1) { c.count("mock_byref_scenarios_left_before_the_actual_call_unjudged"); return; }   // recording the expectation failed the test: not a comparison
    bool expect = g_mexpect_eq;
    byref_count_state(c, st, "mock_byref_calls", expect);
    c.count(expect ? "mock_byref_calls_content_equal" : "mock_byref_calls_content_differs");
    if (expect && (failures != 0 || g_mstage != 3))
        c.violation("mock-byref-verdict-wrong:" + cls, std::string("actual value has the content of the expected one when it is passed (") + LAY_NAME[st.layout] + " storage), but the test " + (failures ? "failed (" + std::to_string(failures) + " failures)" : std::string("left at stage ") + std::to_string(g_mstage)));
    if (!expect && failures == 0)
        c.violation("mock-byref-verdict-wrong:" + cls, std::string("actual value differs from the expected one when it is passed (") + LAY_NAME[st.layout] + " storage), but the test passed (stage " + std::to_string(g_mstage) + ")");
    if (std::max(st.hist(0), st.hist(1)) > 0 || st.layout != LAY_SEPARATE) c.nontrivial(desc + (api ? "n" : "o"));
}

// ---------------------------------------------------------------- section: one value object set several times
// The value an object denotes is the one of its LAST set call (a double set without a tolerance has the default tolerance):
// after any history of earlier set calls the object must be indistinguishable from a fresh object that got only the last one.
static const double HTOL[] = { 0.0, 1e-9, 0.001, 0.005, 0.02, 0.5, 3.0, 1e300 };
static void hist_set(MockNamedValue& v, unsigned kind, vf::Rng& r, std::string& log) {
    switch (kind % 9) {
    case 0: { double t = HTOL[r.below(8)]; v.setValue(r.range(-50, 50) / 4.0, t); log += "D"; log += std::to_string(t); break; }
    case 1: v.setValue(r.range(-50, 50) / 4.0); log += "d"; break;
    case 2: set_int(v, (int) r.below(T_N), (i128) r.range(0, 100)); log += "i"; break;
    case 3: v.setValue((unsigned long long) ~0ull); log += "U"; break;
    case 4: v.setValue(r.chance(50)); log += "b"; break;
    case 5: v.setValue((const char*) g_s[r.below(3)]); log += "s"; break;
    case 6: v.setValue((void*) &g_objs[r.below(3)]); log += "p"; break;
    case 7: v.setMemoryBuffer((const unsigned char*) g_mem[r.below(3)], 4); log += "m"; break;
    default: v.setObjectPointer("T1", &g_objs[r.below(3)]); log += "o"; break;
    }
    log += ",";
}
static void sec_reuse(vf::Ctx& c) {
    vf::Rng& r = c.rng;
    int nhist = (int) r.range(1, 4);
    unsigned kinds[4]; for (int i = 0; i < nhist; i++) kinds[i] = r.chance(45) ? 0u : (unsigned) r.below(9);
    int fin = (int) r.below(4);                       // 0 double without tolerance, 1 double with tolerance, 2 integer, 3 integer after double only
    double a = r.range(-40, 40) / 4.0, tol = HTOL[r.below(8)];
    int it = (int) r.below(T_N); i128 iv = (i128) r.range(0, 1000);
    uint64_t sub = r.next();
    std::string log;
    MockNamedValue V("p"), W("p");
    MockNamedValue::setDefaultComparatorsAndCopiersRepository(g_repo);
    { vf::Rng hr(sub); for (int i = 0; i < nhist; i++) hist_set(V, kinds[i], hr, log); }
    c.begin([=] { return vf::J().k("history", log).k("final", fin == 0 ? "double" : fin == 1 ? "double,tolerance" : "integer").k("a", a).k("tol", tol).k("int_type", IT_NAME[it]).k("int", s128(iv)).str(); });
    bool had_explicit_tol = log.find('D') != std::string::npos;
    if (fin == 0) { V.setValue(a); W.setValue(a); }
    else if (fin == 1) { V.setValue(a, tol); W.setValue(a, tol); }
    else { set_int(V, it, iv); set_int(W, it, iv); }
    std::string fcls = fin == 0 ? "double-without-tolerance" : fin == 1 ? "double-with-tolerance" : "integer";
    if (!(V.getType() == W.getType())) c.violation("reuse:type-differs:" + fcls, std::string("type after history [") + log + "] is " + V.getType().asCharString() + ", fresh object has " + W.getType().asCharString());
    else if (!(V.toString() == W.toString())) c.violation("reuse:tostring-differs:" + fcls, std::string("after history [") + log + "] toString is " + V.toString().asCharString() + ", fresh object gives " + W.toString().asCharString());
    if (fin <= 1) {
        double etol = fin == 0 ? 0.005 : tol;
        double gt = V.getDoubleTolerance(), gv = V.getDoubleValue();
        if (!(gt == etol)) c.violation("reuse:tolerance-of-an-earlier-set-kept:" + fcls, "after history [" + log + "] tolerance is " + std::to_string(gt) + " expected " + std::to_string(etol));
        if (!(gv == a)) c.violation("reuse:value-of-an-earlier-set-kept:" + fcls, "double value " + std::to_string(gv) + " expected " + std::to_string(a));
        // probes at distances around every tolerance of the table (exact binary fractions are avoided as boundaries: strictly inside / outside)
        for (int k = 0; k < 8; k++) {
            for (int side = 0; side < 2; side++) {
                double dist = HTOL[k] * (side ? 1.5 : 0.5);
                if (!(dist < 1e200)) continue;
                double b = a + dist;
                int exp = doubles_oracle(a, b, etol);
                if (exp < 0) { c.count("reuse_probe_rounding_ambiguous_skipped"); continue; }
                MockNamedValue B("p"); B.setValue(b, 0.0);
                bool got = V.equals(B), fresh = W.equals(B);
                if (got != (exp == 1)) c.violation("reuse:double-equals-wrong:" + fcls, "after history [" + log + "] a=" + std::to_string(a) + " b=" + std::to_string(b) + " tolerance " + std::to_string(etol) + ": equals=" + std::to_string(got) + (fresh == (exp == 1) ? " (a fresh object answers correctly)" : ""));
                c.count("reuse_double_probes");
                if (had_explicit_tol) c.count(exp == 1 ? "reuse_double_probes_equal_after_an_earlier_explicit_tolerance" : "reuse_double_probes_unequal_after_an_earlier_explicit_tolerance");
            }
        }
    } else {
        for (int tb = 0; tb < T_N; tb++) for (int d = -1; d <= 1; d++) {
            i128 vb = iv + d; if (vb < 0) continue;
            MockNamedValue B("p"); set_int(B, tb, vb);
            bool exp = d == 0;
            if (V.equals(B) != exp || B.equals(V) != exp) c.violation(std::string("reuse:int-equals-wrong:") + IT_NAME[it] + "~" + IT_NAME[tb], "after history [" + log + "]");
            c.count("reuse_int_probes");
        }
        MockNamedValue D("p"); D.setValue((double) (long long) iv, 1e300);
        if (V.equals(D) || D.equals(V)) c.violation("reuse:int-equals-double", "after history [" + log + "] an integer value equals a double");
    }
    c.count(had_explicit_tol ? "reuse_histories_with_an_earlier_explicit_tolerance" : "reuse_histories_other");
    c.nontrivial(log + fcls + std::to_string(a) + std::to_string(tol) + s128(iv));
}

int main(int argc, char** argv) {
    init_pairs(); init_getters();
    g_repo = new MockNamedValueComparatorsAndCopiersRepository;
    g_repo->installComparator("T1", g_cmp);
    g_repo->installComparator("T2", g_cmp);
    std::vector<vf::Section> S = {
        { "int_pairs_lattice", pair_total, pair_total, sec_intpairs, true },
        { "getters_lattice", get_total, get_total, sec_getters, true },
        { "doubles_lattice", NDV * NDV * NTOL * 3, NDV * NDV * NTOL * 3, sec_doubles, true },
        { "cross_type_table", (uint64_t) K_N * K_N * 3 * 3 * 3 * 2, (uint64_t) K_N * K_N * 3 * 3 * 3 * 2, sec_cross, true },
        { "int_pairs_random", 20000, 2000000, sec_randpairs, false },
        { "getters_random", 3000, 150000, sec_randgetters, false },
        { "by_reference_storage_histories", 8000, 400000, sec_byref, false },
        { "mock_by_reference_storage", 2500, 60000, sec_mock_byref, false },
        { "value_object_set_several_times", 4000, 200000, sec_reuse, false },
    };
    return vf::harness_main(argc, argv, S, nullptr);
}
