// C18 — the string buffer cache never aliases live buffers and gives everything back.
//
// Real code: SimpleStringInternalCache (driven directly and through SimpleStringCacheAllocator) and
// GlobalSimpleStringCache under real SimpleString traffic.
// Monitors:
//   * Rec      — recording underlying TestMemoryAllocator: ptr -> size ledger, exactly-once returns, freed blocks
//                are poisoned and held until the end of the case (addresses are unique inside one case, so a
//                second return of the same pointer is recognised as such and never reaches free()).
//   * Shadow   — independent model of the buffers handed out: interval map of buffers in use (with per-buffer
//                fill patterns), the size-class function of the statement (32/64/96/128/256, else uncached),
//                released-but-still-cached buffers (for the "reused only in its own class" clause).
//   * output   — everything the cache prints (PlatformSpecificFPuts seam outside a test run, the fixture's
//                StringBufferTestOutput inside one): the unknown-release warning must come exactly once per cache.
//   * ASan/UBSan as the backstop for every access of the cache and of the harness (patterns are written over
//                exactly the requested bytes).
//   * small stack — in the long-list histories (10^4 and more buffers on ONE list: a used list, a free list, the
//                uncached list) every operation whose work depends on the list length (clearCache, clearAll,
//                destruction, ~GlobalSimpleStringCache, releases from the interior of the long list) runs on a
//                thread with a 128 KB stack and a guard region below it. Running out of that stack is the crash the
//                statement excludes, scaled down: stack use that grows with the list length needs 10^5..10^6
//                buffers on the default 8 MB stack, 10^4 here. A SIGSEGV/SIGBUS whose address lies in the guard
//                region is recorded as stack-exhausted:<operation>:<list>; any other fault goes back to ASan.
//                The deepest frame seen from the underlying allocator's free callback is recorded as evidence
//                (the unchanged code stays below 16 KB whatever the list length).
//
//   * re-entrancy — sections reentrant_matrix / reentrant_histories: the recording underlying allocator (alloc and free
//                callback) and the output sink that receives the unknown-buffer warning issue ONE nested cache operation
//                (a request, the release of a buffer the script holds, the release of a foreign pointer; depth 1) while the
//                cache is in the middle of alloc / dealloc / printing the warning — what happens when the cache is the global
//                string allocator and the underlying allocator or the test output uses SimpleString itself. The shadow model
//                applies the nested operation at the point where it happens; the same clauses are judged. Blocks and buffers
//                born or returned inside a nested operation carry the position in their violation keys (…nested-in=<outer>).
//                Returned blocks are NOT poisoned in these sections (they are still held until the end of the case): a list
//                that keeps a returned block is then recognised by the ledger (second return, with the position in the key)
//                instead of an anonymous sanitizer abort.
//
// Scoping decisions (see the final report of this check):
//   * a live buffer released with a size of ANOTHER class (or across the 256 boundary, or an uncached buffer with
//     another size) is a caller error the statement does not quantify over: the buffer goes to "limbo" — the
//     harness never touches it again, it is not counted as in use, a warning is allowed but not demanded.
//   * the same holds for a second release of an already released buffer (warning allowed, not demanded).
//   * a foreign pointer (malloc'ed, static, stack, interior of a live buffer) is "a buffer the cache does not
//     know": the first such release must print, later ones must be silent.
//   * destroying a SimpleStringInternalCache WITHOUT clearing it first is observed only (counter), unless
//     C18_DESTROY_STRICT is set in the environment: the destructor cannot return blocks (the allocator may be
//     gone), "destroyed" is judged on GlobalSimpleStringCache and on destruction after clearAll.
#include "verif.h"
#include <string>
#include <vector>
#include <map>
#include <set>
#include <signal.h>
#include <sys/time.h>
#include <sys/mman.h>
#include <pthread.h>

#if defined(__SANITIZE_ADDRESS__)
#include <sanitizer/asan_interface.h>
#define VF_POISON(p, n) ASAN_POISON_MEMORY_REGION((p), (n))
#define VF_UNPOISON(p, n) ASAN_UNPOISON_MEMORY_REGION((p), (n))
#else
#define VF_POISON(p, n) ((void) 0)
#define VF_UNPOISON(p, n) ((void) 0)
#endif

#include "CppUTest/TestHarness.h"
#include "CppUTest/MemoryLeakWarningPlugin.h"
#include "CppUTest/TestTestingFixture.h"
#include "CppUTest/SimpleStringInternalCache.h"
#include "CppUTest/PlatformSpecificFunctions.h"

// ---------------------------------------------------------------- size classes (from the statement)
static const size_t BOUND[5] = { 32, 64, 96, 128, 256 };
static const char* CLS[6] = { "32", "64", "96", "128", "256", "big" };
static int class_of(size_t n) { for (int i = 0; i < 5; i++) if (n <= BOUND[i]) return i; return 5; }
static size_t class_lo(int c) { return c == 0 ? 0 : BOUND[c - 1] + 1; }
static size_t class_hi(int c) { return c < 5 ? BOUND[c] : 1024; }

static inline char pat(uint32_t id, size_t i) { return (char) (1 + (id * 37u + (uint32_t) i * 11u + (uint32_t) (i >> 8) * 3u) % 250u); }

// ---------------------------------------------------------------- output meter
static TestTestingFixture* g_fx = nullptr;
static StringBufferTestOutput* g_hook_out = nullptr;     // re-entrant histories inside a test run: the output of the harness's own runner
static std::string g_cap;
static void nest_hook(char cb);
static void capture_fputs(const char* s, PlatformSpecificFile) { if (s) g_cap.append(s); nest_hook('p'); }
static size_t out_len() { return g_hook_out ? strlen(g_hook_out->getOutput().asCharString()) : g_fx ? strlen(g_fx->getOutput().asCharString()) : g_cap.size(); }
static std::string out_from(size_t pos) {
    std::string all = g_hook_out ? std::string(g_hook_out->getOutput().asCharString()) : g_fx ? std::string(g_fx->getOutput().asCharString()) : g_cap;
    return pos <= all.size() ? all.substr(pos) : std::string();
}
// a test output that can call back into the cache while it prints (the sink of the unknown-buffer warning inside a test run)
struct HookOutput : public StringBufferTestOutput {
    virtual ~HookOutput() {}
    virtual void printBuffer(const char* s) override { StringBufferTestOutput::printBuffer(s); nest_hook('p'); }
};

// ---------------------------------------------------------------- world
enum St { LIVE = 0, LIMBO = 1, RELEASED = 2, GONE = 3 };
struct Buf { char* p; size_t req; size_t usable; int cls; int st; uint32_t id; bool filled; const char* born; };   // born: position of the nested request that produced it (NULL: a top-level request)
struct UBlock { char* p; size_t n; int owner; bool handed; bool reported; const char* tag; const char* freed_tag; };   // tag / freed_tag: obtained / returned inside a nested operation at that position
struct Op;
struct Nest {                  // the one nested operation of the current top-level operation
    bool armed = false;        // waiting for the callback with ordinal `at`
    bool running = false;      // the nested operation is executing right now
    bool fired = false;
    const Op* op = nullptr;
    int seen = 0;              // callbacks (alloc, free, print) seen since the top-level operation started
    const char* tag = "";      // position: what the cache was doing
    int outer_cls = -1;
    int slot = -1;             // script buffer number reserved for a nested request
    size_t out_bytes = 0;      // output produced while the nested operation ran (accounted for by the nested operation itself)
};
enum { OWNER_CACHE = 0, OWNER_FOREIGN = 1 };

struct World;
static World* W = nullptr;

// ---------------------------------------------------------------- small stack (state; code further down)
static const size_t SS_STACK = 128 * 1024;     // usable stack of the thread that runs the list-length dependent operations
static const size_t SS_GUARD = 64 * 1024;      // inaccessible region below it
struct SmallStack {
    char* map = nullptr;                 // SS_GUARD + SS_STACK, mapped once per process
    volatile bool active = false;        // a cache operation is running on the small stack right now
    uintptr_t guard_lo = 0, guard_hi = 0;
    uintptr_t entry = 0;                 // frame address of the thread's entry function
    uintptr_t lowest = 0;                // lowest frame address seen from the underlying allocator's free callback
    uint64_t frees = 0;                  // free callbacks seen on the small stack in the current run
    const char* list = "";               // the list the running operation walks (the longest one when it walks all): names the violation key
    size_t n_list = 0;                   // its length by the model
    struct sigaction old_segv, old_bus;
    void note(uintptr_t frame) { frees++; if (frame < lowest) lowest = frame; }
};
static SmallStack g_ss;

struct Rec : public TestMemoryAllocator {
    std::map<uintptr_t, UBlock> live;
    std::map<uintptr_t, UBlock> dead;
    int owner_now = OWNER_CACHE;
    uint64_t n_alloc = 0, n_free = 0;
    bool poison = true;         // returned blocks are poisoned (not in the re-entrant sections, see the head of the file)
    Rec() : TestMemoryAllocator("C18 recorder", "rec-alloc", "rec-free") {}
    virtual ~Rec() {}
    virtual char* alloc_memory(size_t size, const char*, size_t) override;
    virtual void free_memory(char* memory, size_t size, const char*, size_t) override;
    UBlock* containing(const char* p) {
        auto it = live.upper_bound((uintptr_t) p);
        if (it == live.begin()) return nullptr;
        --it;
        UBlock& b = it->second;
        if (p < b.p + b.n || (b.n == 0 && p == b.p)) return &b;
        return nullptr;
    }
    UBlock* dead_containing(const char* p) {
        auto it = dead.upper_bound((uintptr_t) p);
        if (it == dead.begin()) return nullptr;
        --it;
        UBlock& b = it->second;
        if (p < b.p + b.n || (b.n == 0 && p == b.p)) return &b;
        return nullptr;
    }
    void cleanup() {
        for (auto& kv : live) free(kv.second.p);
        for (auto& kv : dead) { if (poison) VF_UNPOISON(kv.second.p, kv.second.n ? kv.second.n : 1); free(kv.second.p); }
        live.clear(); dead.clear();
    }
};

struct World {
    vf::Ctx* c;
    Rec rec;
    std::vector<Buf> bufs;
    std::map<uintptr_t, int> live_iv;      // start -> buf, LIVE buffers with req > 0
    std::map<uintptr_t, int> by_ptr;       // start -> latest buf that is LIVE / LIMBO / RELEASED
    std::map<uintptr_t, size_t> foreign_iv;   // buffers owned by somebody else (start -> length)
    std::vector<int> used_order[6];        // evidence only: mirror of the used lists, most recently handed out LAST (back = head of the list)
    bool interior_released[6];
    bool nontrivial = false;
    int warnings = 0;                      // warnings observed for the cache object under test
    const char* op = "";
    std::set<std::string> seen_keys;
    uint32_t next_id = 1;
    size_t max_used = 0;
    Nest nest;
    int warning_in_progress = 0;           // a nested operation is running inside the print of the warning

    void viol(const std::string& key, const std::string& detail) {
        std::string k = nest.running && key.find("nested-in=") == std::string::npos ? key + ":nested-in=" + nest.tag : key;
        if (seen_keys.insert(k).second) c->violation(k, nest.running ? detail + " (inside an operation nested in " + nest.tag + ")" : detail);
    }

    explicit World(vf::Ctx* ctx) : c(ctx) { for (int i = 0; i < 6; i++) interior_released[i] = false; bufs.reserve(512); }

    void count(const std::string& n, uint64_t k = 1) { c->count(n, k); }

    void drop_from_used(int idx) {
        std::vector<int>& u = used_order[bufs[idx].cls];
        for (size_t i = u.size(); i-- > 0;) if (u[i] == idx) { u.erase(u.begin() + (long) i); return; }
    }
    // position of a buffer in the mirrored used list: 0 head, >0 interior, -1 absent
    int used_pos(int idx) {
        std::vector<int>& u = used_order[bufs[idx].cls];
        for (size_t i = u.size(); i-- > 0;) if (u[i] == idx) return (int) (u.size() - 1 - i);
        return -1;
    }
    // lengths of the longest lists the cache holds right now, by the model: used list of a cached class, free list of a
    // cached class (released and not re-issued), uncached list
    void list_lengths(size_t& used, size_t& freel, size_t& unc) {
        used = 0; freel = 0;
        size_t nfree[6] = { 0, 0, 0, 0, 0, 0 };
        for (int i = 0; i < 5; i++) if (used_order[i].size() > used) used = used_order[i].size();
        for (auto& kv : by_ptr) { Buf& b = bufs[(size_t) kv.second]; if (b.st == RELEASED && b.cls < 5) nfree[b.cls]++; }
        for (int i = 0; i < 5; i++) if (nfree[i] > freel) freel = nfree[i];
        unc = used_order[5].size();
    }
    void set_gone(int idx) {
        Buf& b = bufs[idx];
        if (b.st == LIVE && b.req > 0) { auto it = live_iv.find((uintptr_t) b.p); if (it != live_iv.end() && it->second == idx) live_iv.erase(it); }
        if (b.st == LIVE || b.st == LIMBO) drop_from_used(idx);
        auto bp = by_ptr.find((uintptr_t) b.p);
        if (bp != by_ptr.end() && bp->second == idx) by_ptr.erase(bp);
        b.st = GONE;
    }
    void forget_all() {
        for (size_t i = 0; i < bufs.size(); i++) bufs[i].st = GONE;
        live_iv.clear(); by_ptr.clear();
        for (int i = 0; i < 6; i++) used_order[i].clear();
    }

    void fill(Buf& b) {
        for (size_t i = 0; i < b.usable; i++) b.p[i] = pat(b.id, i);
        if (b.usable) b.p[b.usable - 1] = 0;        // NUL-terminated: the cache prints unknown buffers with %s
        b.filled = true;
    }
    long verify(const Buf& b) {
        if (!b.filled) return -1;
        for (size_t i = 0; i + 1 < b.usable; i++) if (b.p[i] != pat(b.id, i)) return (long) i;
        if (b.usable && b.p[b.usable - 1] != 0) return (long) b.usable - 1;
        return -1;
    }
    void verify_buf(int idx, const char* when) {
        Buf& b = bufs[idx];
        if (b.st != LIVE) return;
        long bad = verify(b);
        if (bad >= 0) {
            viol(std::string("content-changed:live-buffer:class=") + CLS[b.cls], std::string("buffer #") + std::to_string(b.id) + " (requested " + std::to_string(b.req) + ") changed at offset " + std::to_string(bad) + " while in use, noticed " + when);
            b.filled = false;
        }
    }
    void verify_all(const char* when) { for (auto& kv : by_ptr) if (bufs[kv.second].st == LIVE) verify_buf(kv.second, when); }

    // a buffer has just been handed out
    int on_alloc(char* p, size_t req, bool do_fill) {
        int cls = class_of(req);
        Buf nb; nb.p = p; nb.req = req; nb.usable = req; nb.cls = cls; nb.st = LIVE; nb.id = next_id++; nb.filled = false; nb.born = nest.running ? nest.tag : nullptr;
        if (!p) {
            viol(std::string("handed-out:null:class=") + CLS[cls], "alloc(" + std::to_string(req) + ") returned NULL");
            nb.st = GONE; bufs.push_back(nb); return (int) bufs.size() - 1;
        }
        // (b) at least the requested size
        UBlock* ub = rec.containing(p);
        if (ub) {
            size_t avail = (size_t) (ub->p + ub->n - p);
            if (avail < req) {
                viol(std::string("undersized:request-class=") + CLS[cls] + ":block-class=" + CLS[class_of(ub->n)], "alloc(" + std::to_string(req) + ") returned a pointer with only " + std::to_string(avail) + " bytes left in its " + std::to_string(ub->n) + "-byte block");
                nb.usable = avail;
            }
            if (ub->owner == OWNER_FOREIGN) viol("alias:handed-out-foreign-owned-block", "alloc(" + std::to_string(req) + ") returned memory of a block the cache never obtained");
            ub->handed = true;
        } else if (rec.dead_containing(p)) {
            viol(std::string("handed-out:memory-already-returned-to-allocator:class=") + CLS[cls], "alloc(" + std::to_string(req) + ") returned memory of a block the cache has already given back");
            nb.st = GONE; bufs.push_back(nb); return (int) bufs.size() - 1;
        } else count("handed_out_outside_ledger");
        // (a) no overlap with a buffer in use
        auto bp = by_ptr.find((uintptr_t) p);
        bool reused = false;
        if (bp != by_ptr.end()) {
            int j = bp->second; Buf& o = bufs[j];
            if (o.st == LIVE) {
                viol(std::string("alias:same-pointer-handed-out-twice:class=") + CLS[cls] + "~" + CLS[o.cls], "alloc(" + std::to_string(req) + ") returned the address of buffer #" + std::to_string(o.id) + " (requested " + std::to_string(o.req) + "), which is still in use");
                set_gone(j);
            } else if (o.st == RELEASED) {
                // (c) reuse only within the buffer's own class
                reused = true;
                count(std::string("reuse_hit_class_") + CLS[o.cls]);
                if (o.cls != cls) viol(std::string("reuse-cross-class:from=") + CLS[o.cls] + ":to=" + CLS[cls], "buffer released as a " + std::to_string(o.req) + "-byte request re-issued for alloc(" + std::to_string(req) + ")");
                set_gone(j);
            } else if (o.st == LIMBO) { count("limbo_buffer_reissued"); set_gone(j); }
        }
        if (req > 0) {
            uintptr_t s = (uintptr_t) p, e = s + req;
            for (;;) {
                int hit = -1;
                auto it = live_iv.upper_bound(s);
                if (it != live_iv.end() && it->first < e) hit = it->second;
                else if (it != live_iv.begin()) { --it; Buf& o = bufs[it->second]; if ((uintptr_t) o.p + o.req > s) hit = it->second; }
                if (hit < 0) break;
                Buf& o = bufs[hit];
                viol(std::string("alias:handed-out-overlaps-live:class=") + CLS[cls] + "~" + CLS[o.cls], "alloc(" + std::to_string(req) + ") overlaps buffer #" + std::to_string(o.id) + " (requested " + std::to_string(o.req) + ") by address range");
                set_gone(hit);
            }
            auto fi = foreign_iv.upper_bound(s);
            bool fhit = fi != foreign_iv.end() && fi->first < e;
            if (!fhit && fi != foreign_iv.begin()) { --fi; fhit = fi->first + fi->second > s; }
            if (fhit) {
                viol("alias:handed-out-overlaps-foreign-buffer", "alloc(" + std::to_string(req) + ") returned memory of a buffer the cache was only asked to release and never owned");
                nb.st = GONE; bufs.push_back(nb); return (int) bufs.size() - 1;
            }
        }
        bufs.push_back(nb);
        int idx = (int) bufs.size() - 1;
        by_ptr[(uintptr_t) p] = idx;
        if (req > 0) live_iv[(uintptr_t) p] = idx;
        used_order[cls].push_back(idx);
        if (used_order[cls].size() > max_used) max_used = used_order[cls].size();
        if (interior_released[cls]) nontrivial = true;
        count(reused ? "alloc_reused" : "alloc_fresh");
        if (do_fill) fill(bufs[idx]);
        return idx;
    }

    void on_underlying_free(const UBlock& b) {
        uintptr_t s = (uintptr_t) b.p, e = s + (b.n ? b.n : 1);
        auto it = by_ptr.lower_bound(s);
        std::vector<int> hit;
        for (; it != by_ptr.end() && it->first < e; ++it) hit.push_back(it->second);
        for (int j : hit) {
            Buf& f = bufs[j];
            if (f.st == LIVE) viol(std::string("underlying-free:of-live-buffer:op=") + op + ":class=" + CLS[f.cls], "the block backing buffer #" + std::to_string(f.id) + " (requested " + std::to_string(f.req) + ", still in use) was returned to the allocator");
            set_gone(j);
        }
    }

    // every cache-owned block must be back
    void check_all_returned(const char* what) {
        for (auto& kv : rec.live) {
            UBlock& b = kv.second;
            if (b.owner != OWNER_CACHE || b.reported) continue;
            b.reported = true;
            std::string nested = b.tag ? std::string(":obtained-for-request-nested-in=") + b.tag : std::string();
            if (b.handed) viol(std::string(what) + ":not-returned:buffer-block:class=" + CLS[class_of(b.n)] + nested, "a " + std::to_string(b.n) + "-byte buffer block obtained from the allocator was not returned");
            else viol(std::string(what) + ":not-returned:bookkeeping-block:size=" + std::to_string(b.n) + nested, "a " + std::to_string(b.n) + "-byte bookkeeping block obtained from the allocator was not returned");
        }
    }
    void check_after_clearCache() {
        for (auto& kv : by_ptr) {
            Buf& b = bufs[kv.second];
            if (b.st == RELEASED) viol(std::string("clearCache:released-buffer-not-returned:class=") + CLS[b.cls] + (b.born ? std::string(":buffer-from-request-nested-in=") + b.born : std::string()), "buffer #" + std::to_string(b.id) + " (requested " + std::to_string(b.req) + ") was released earlier and is still held after clearCache");
        }
    }
    size_t cache_owned_blocks() { size_t n = 0; for (auto& kv : rec.live) if (kv.second.owner == OWNER_CACHE) n++; return n; }
};

char* Rec::alloc_memory(size_t size, const char*, size_t) {
    n_alloc++;
    char* p = (char*) malloc(size ? size : 1);
    if (!p) { fprintf(stderr, "harness: out of memory\n"); _exit(2); }
    memset(p, 0xCD, size);
    UBlock b; b.p = p; b.n = size; b.owner = owner_now; b.handed = false; b.reported = false;
    b.tag = W && W->nest.running ? W->nest.tag : nullptr; b.freed_tag = nullptr;
    live[(uintptr_t) p] = b;
    nest_hook('a');
    return p;
}
void Rec::free_memory(char* memory, size_t size, const char*, size_t) {
    n_free++;
    if (g_ss.active) g_ss.note((uintptr_t) __builtin_frame_address(0));
    auto it = live.find((uintptr_t) memory);
    if (it == live.end()) {
        if (!memory) W->viol(std::string("underlying-free:null:op=") + W->op, "free_memory(NULL) reached the underlying allocator");
        else if (dead.count((uintptr_t) memory)) {
            const UBlock& d = dead[(uintptr_t) memory];
            W->viol(std::string("underlying-free:double:op=") + W->op + (d.freed_tag ? std::string(":first-returned-by-release-nested-in=") + d.freed_tag : std::string()), "a block of " + std::to_string(d.n) + " bytes was returned to the underlying allocator a second time");
        }
        else W->viol(std::string("underlying-free:unknown-pointer:op=") + W->op, "a pointer the underlying allocator never handed out (or an interior pointer) was returned to it");
        return;
    }
    UBlock b = it->second;
    if (b.owner == OWNER_CACHE && size != b.n) W->count(size == 0 ? "underlying_free_called_with_size_0" : "underlying_free_called_with_other_size");
    live.erase(it);
    W->on_underlying_free(b);
    b.freed_tag = W->nest.running ? W->nest.tag : nullptr;
    dead[(uintptr_t) b.p] = b;
    if (poison) VF_POISON(b.p, b.n ? b.n : 1);
    nest_hook('f');
}

// ---------------------------------------------------------------- CPU budget per case
// A corrupted (cyclic) list makes the cache spin for ever. A case needs a few milliseconds of CPU; when one has burnt
// CPU_BUDGET_S seconds of *user CPU time* (ITIMER_VIRTUAL: independent of machine load, not a wall-clock verdict) it is
// recorded as non-terminating, with the operation that was running, and the process exits so that the driver resumes
// with the next case.
// A long-list history (tens of thousands of buffers through the shadow model) needs up to a second of CPU, a multiple under
// valgrind: its budget is LONG_BUDGET_S.
static const int CPU_BUDGET_S = 5;
#ifdef VF_MEMCHECK
static const int LONG_BUDGET_S = 900;
#else
static const int LONG_BUDGET_S = 90;
#endif
static int g_budget_s = CPU_BUDGET_S;
static void on_cpu_budget(int) {
    static char buf[1024];
    World* w = W;
    if (w && vf::rt().out) {
        int n = snprintf(buf, sizeof buf, "{\"t\":\"v\",\"case\":%llu,\"section\":\"%s\",\"local\":%llu,\"key\":\"no-termination:cache-spins-in:%s\",\"detail\":\"the case consumed %d s of CPU inside one cache operation (a history needs milliseconds): the cache does not come back, e.g. a cyclic list\",\"desc\":null}\n",
                         (unsigned long long) w->c->global_idx, w->c->section, (unsigned long long) w->c->idx, w->op, g_budget_s);
        if (n > 0) { ssize_t r = write(fileno(vf::rt().out), buf, (size_t) n); (void) r; }
    }
    _exit(98);
}
static void arm_budget(bool on, int seconds = CPU_BUDGET_S) {
    struct itimerval it; memset(&it, 0, sizeof it);
    g_budget_s = seconds;
    it.it_value.tv_sec = on ? seconds : 0;
    setitimer(ITIMER_VIRTUAL, &it, nullptr);
}

// ---------------------------------------------------------------- small stack (code)
// The recorded key names the operation that was running (World::op) and the long list of the case. Faults that are not in
// the guard region are not ours: the previous handlers (ASan's reporter or the default action) are put back and the
// faulting instruction is executed again.
static char g_altstack[64 * 1024];
static void on_stack_fault(int, siginfo_t* si, void*) {
    uintptr_t a = (uintptr_t) si->si_addr;
    if (g_ss.active && a >= g_ss.guard_lo && a < g_ss.guard_hi) {
        static char buf[1024];
        World* w = W;
        if (w && vf::rt().out) {
            int n = snprintf(buf, sizeof buf, "{\"t\":\"v\",\"case\":%llu,\"section\":\"%s\",\"local\":%llu,\"key\":\"stack-exhausted:%s:%s\",\"detail\":\"%s ran out of a %lu KB thread stack with %lu buffers on the %s after %llu blocks had been returned: the operation's stack use grows with the list length, on the default stack it dies the same way with a proportionally longer list\",\"desc\":null}\n",
                             (unsigned long long) w->c->global_idx, w->c->section, (unsigned long long) w->c->idx, w->op, g_ss.list, w->op, (unsigned long) (SS_STACK / 1024), (unsigned long) g_ss.n_list, g_ss.list, (unsigned long long) g_ss.frees);
            if (n > 0) { ssize_t r = write(fileno(vf::rt().out), buf, (size_t) (n < (int) sizeof buf ? n : (int) sizeof buf - 1)); (void) r; }
        }
        _exit(97);
    }
    sigaction(SIGSEGV, &g_ss.old_segv, nullptr);
    sigaction(SIGBUS, &g_ss.old_bus, nullptr);
}
struct SsThunk { std::function<void()>* fn; };
static void* ss_entry(void* arg) {
    // the fault handler needs a stack of its own; ASan gives every thread one and unmaps "the current one" at thread exit,
    // so whatever was installed is put back before returning
    stack_t mine, old;
    memset(&mine, 0, sizeof mine); memset(&old, 0, sizeof old);
    mine.ss_sp = g_altstack; mine.ss_size = sizeof g_altstack; mine.ss_flags = 0;
    bool swapped = sigaltstack(&mine, &old) == 0;
    g_ss.entry = (uintptr_t) __builtin_frame_address(0);
    g_ss.lowest = g_ss.entry;
    g_ss.frees = 0;
    g_ss.active = true;
    (*((SsThunk*) arg)->fn)();
    g_ss.active = false;
    if (swapped) {
        if (old.ss_flags & SS_DISABLE) { stack_t off; memset(&off, 0, sizeof off); off.ss_flags = SS_DISABLE; sigaltstack(&off, nullptr); }
        else { old.ss_flags = 0; sigaltstack(&old, nullptr); }
    }
    return nullptr;
}
// Runs fn on the small stack and waits for it. Returns the stack depth (bytes below the thread's entry frame) of the deepest
// free callback of the underlying allocator, or -1 when no small stack could be set up (fn then ran on the caller's stack).
static long ss_run(std::function<void()> fn) {
    if (!g_ss.map) {
        void* m = mmap(nullptr, SS_GUARD + SS_STACK, PROT_READ | PROT_WRITE, MAP_PRIVATE | MAP_ANONYMOUS, -1, 0);
        if (m != MAP_FAILED && mprotect(m, SS_GUARD, PROT_NONE) == 0) {
            g_ss.map = (char*) m;
            g_ss.guard_lo = (uintptr_t) m; g_ss.guard_hi = g_ss.guard_lo + SS_GUARD;
        } else if (m != MAP_FAILED) munmap(m, SS_GUARD + SS_STACK);
    }
    pthread_attr_t at;
    bool ok = g_ss.map && pthread_attr_init(&at) == 0;
    if (ok && pthread_attr_setstack(&at, g_ss.map + SS_GUARD, SS_STACK) != 0) { pthread_attr_destroy(&at); ok = false; }
    if (!ok) { fn(); return -1; }
    struct sigaction sa; memset(&sa, 0, sizeof sa);
    sa.sa_sigaction = on_stack_fault;
    sa.sa_flags = SA_SIGINFO | SA_ONSTACK;
    sigemptyset(&sa.sa_mask);
    sigaction(SIGSEGV, &sa, &g_ss.old_segv);
    sigaction(SIGBUS, &sa, &g_ss.old_bus);
    SsThunk th; th.fn = &fn;
    pthread_t t;
    long depth = -1;
    if (pthread_create(&t, &at, ss_entry, &th) == 0) {
        pthread_join(t, nullptr);
        depth = (long) (g_ss.entry - g_ss.lowest);
    } else fn();
    pthread_attr_destroy(&at);
    sigaction(SIGSEGV, &g_ss.old_segv, nullptr);
    sigaction(SIGBUS, &g_ss.old_bus, nullptr);
    return depth;
}

// ---------------------------------------------------------------- scripts for the direct sections
struct Op {
    char k; int a; int b; int c;   // kind, operands (R/W: c = 1 -> the release runs on the small stack when the script asks for one)
    // the operation nested in this one (re-entrant sections): issued from callback number `nat` (0, 1: the underlying allocator's
    // alloc / free callbacks and the print of the warning, counted from the start of this operation) — nk: 0 none |
    // 'A' request of na bytes | 'R' release of script buffer #na with its true size | 'F' release of foreign buffer na with size nb
    char nk = 0; int na = 0; int nb = 0; int nat = 0;
};
// A size | R idx | W idx size | X idx size | F fidx size | I idx off size | S idx | C | K | V | Q size
struct Script {
    std::vector<Op> ops;
    int ending = 0;          // 0 release all, clearCache, clearAll, destroy | 1 clearAll, destroy | 2 destroy without clearing
    bool adaptor = false;    // drive through SimpleStringCacheAllocator
    bool fixture = false;    // run inside a TestTestingFixture test (warning goes to its output)
    bool global = false;     // drive the allocator of a GlobalSimpleStringCache (alloc / release only; the ending is its destruction)
    bool small_stack = false;   // clearCache / clearAll / destruction and the releases marked c = 1 run on the small stack
    bool reentrant = false;     // operations carry nested operations; fixture = inside a test run of the harness's own runner (hookable output)
    const char* long_list = ""; // long-list histories: which list is the long one
    std::string summary;     // long-list histories: compact description (text() has tens of thousands of operations)
    std::string text() const {
        std::string s;
        char b[64];
        for (const Op& o : ops) {
            switch (o.k) {
            case 'A': case 'Q': snprintf(b, sizeof b, "%c%d ", o.k, o.a); break;
            case 'R': case 'S': snprintf(b, sizeof b, "%c#%d ", o.k, o.a); break;
            case 'W': case 'X': snprintf(b, sizeof b, "%c#%d:%d ", o.k, o.a, o.b); break;
            case 'F': snprintf(b, sizeof b, "F%d:%d ", o.a, o.b); break;
            case 'I': snprintf(b, sizeof b, "I#%d+%d:%d ", o.a, o.b, o.c); break;
            default: snprintf(b, sizeof b, "%c ", o.k); break;
            }
            if (o.nk) {
                char n[48];
                if (o.nk == 'A') snprintf(n, sizeof n, "[@%d:A%d] ", o.nat, o.na);
                else if (o.nk == 'R') snprintf(n, sizeof n, "[@%d:R#%d] ", o.nat, o.na);
                else snprintf(n, sizeof n, "[@%d:F%d:%d] ", o.nat, o.na, o.nb);
                size_t L = strlen(b); if (L && b[L - 1] == ' ') b[L - 1] = 0;
                s += b; s += n; continue;
            }
            s += b;
        }
        return s;
    }
    std::string json() const {
        return vf::J().k("ops", summary.empty() ? text() : summary).k("n_ops", (unsigned long) ops.size())
            .k("ending", global ? "destroy the GlobalSimpleStringCache" : ending == 0 ? "release-all,clearCache,clearAll,destroy" : ending == 1 ? "clearAll,destroy" : "destroy-without-clear")
            .k("via", global ? "GlobalSimpleStringCache::getAllocator" : adaptor ? "SimpleStringCacheAllocator" : "SimpleStringInternalCache").k("output", fixture ? (reentrant ? "test run with an output that can call back into the cache" : "fixture") : "outside-test-run")
            .k("list_length_dependent_operations_on", small_stack ? "a thread with a 128 KB stack" : "the main stack")
            .k("legend", "A<size> alloc (buffers are numbered #0.. in order of allocation); R#i release with the true size; W#i:s release with another size of the same class; X#i:s release with a size of another class; F<k>:s release foreign buffer k; I#i+off:s release interior pointer; S#i release again; C clearCache; K clearAllIncludingCurrentlyUsedMemory; V verify patterns; Q<size> hasFreeBlocksOfSize"
               "; <op>[@k:<nested op>] the nested operation is issued from inside callback number k (underlying alloc / free callbacks and the print of the warning, counted from 0) of <op>; a nested request is numbered before the request it is nested in").str();
    }
};

static const int LATTICE[] = { 0, 1, 2, 16, 31, 32, 33, 48, 63, 64, 65, 80, 95, 96, 97, 112, 127, 128, 129, 192, 255, 256, 257, 258, 300, 512, 1000, 1023, 1024 };
static const int NLAT = (int) (sizeof(LATTICE) / sizeof(LATTICE[0]));

static int size_in_class(vf::Rng& r, int cls) {
    int lo = (int) class_lo(cls), hi = (int) class_hi(cls);
    switch (r.below(4)) {
    case 0: return lo + (int) r.below(2 < hi - lo + 1 ? 2 : 1);
    case 1: return hi - (int) r.below(2 < hi - lo + 1 ? 2 : 1);
    default: return r.range(lo, hi);
    }
}
static int pick_size(vf::Rng& r, const std::vector<int>& focus) {
    if (!focus.empty() && !r.chance(8)) return size_in_class(r, focus[r.below(focus.size())]);
    if (r.chance(55)) return LATTICE[r.below(NLAT)];
    if (r.chance(50)) return r.range(0, 300);
    return r.range(0, 1024);
}

struct GBuf { int req; int cls; int st; };   // generator's view: 0 live, 1 limbo, 2 released (still cached as far as the caller can tell), 3 gone
static const int N_FOREIGN = 7;

static Script gen_history(vf::Rng& r, bool thorough) {
    Script s;
    s.adaptor = r.chance(30);
    s.fixture = r.chance(40);
    int nops = r.chance(15) ? r.range(10, 40) : r.range(10, 300);
    bool big = thorough && r.chance(8);          // thorough tier: some long histories with long used lists
    if (big) nops = r.range(300, 600);
    std::vector<int> focus;
    if (r.chance(65)) { int k = r.chance(60) ? 1 : 2; for (int i = 0; i < k; i++) focus.push_back((int) r.below(6)); }
    static const int HOST[] = { 0, 0, 0, 3, 8, 20 };
    int hostile = HOST[r.below(6)];
    int max_live = big ? r.range(45, 150) : r.chance(50) ? r.range(3, 12) : r.range(12, 45);
    bool grow = true; int phase_left = r.range(5, 40);
    std::vector<GBuf> g;
    std::vector<int> live, released;
    auto rm = [](std::vector<int>& v, size_t i) { v[i] = v.back(); v.pop_back(); };
    for (int n = 0; n < nops; n++) {
        if (--phase_left <= 0) { grow = !grow; phase_left = r.range(5, 40); }
        int x = (int) r.below(1000);
        int p_clear = 15, p_clearall = 5, p_verify = 25, p_query = 15;
        if (x < p_clear) { s.ops.push_back({ 'C', 0, 0, 0 }); for (int i : released) g[(size_t) i].st = 3; released.clear(); continue; }
        x -= p_clear;
        if (x < p_clearall) { s.ops.push_back({ 'K', 0, 0, 0 }); for (GBuf& b : g) b.st = 3; live.clear(); released.clear(); continue; }
        x -= p_clearall;
        if (x < p_verify) { s.ops.push_back({ 'V', 0, 0, 0 }); continue; }
        x -= p_verify;
        if (x < p_query) { s.ops.push_back({ 'Q', pick_size(r, focus), 0, 0 }); continue; }
        if (hostile && r.chance(hostile)) {
            int kind = (int) r.below(5);
            if (kind == 0 || live.empty()) {                     // foreign pointer
                s.ops.push_back({ 'F', (int) r.below(N_FOREIGN), pick_size(r, focus), 0 });
                continue;
            }
            size_t li = r.below(live.size()); int idx = live[li]; GBuf& b = g[(size_t) idx];
            if (kind == 1 && b.req >= 2) { s.ops.push_back({ 'I', idx, r.range(1, b.req - 1), r.chance(60) ? size_in_class(r, b.cls) : pick_size(r, focus) }); continue; }
            if (kind == 2 && b.req >= 1) {                       // size of another class
                int oc = (int) r.below(6); if (oc == b.cls) oc = (oc + 1) % 6;
                int sz = size_in_class(r, oc); if (oc == 5 && sz == b.req) sz++;
                s.ops.push_back({ 'X', idx, sz, 0 }); b.st = 1; rm(live, li); continue;
            }
            if (kind == 3 && b.cls == 5 && b.req >= 1) {         // uncached, other size
                int sz = r.range(257, 1100); if (sz == b.req) sz++;
                s.ops.push_back({ 'X', idx, sz, 0 }); b.st = 1; rm(live, li); continue;
            }
            if (kind == 4 && !released.empty()) {
                int ri = released[r.below(released.size())];
                if (g[(size_t) ri].req >= 1) { s.ops.push_back({ 'S', ri, 0, 0 }); continue; }
            }
            s.ops.push_back({ 'F', (int) r.below(N_FOREIGN), pick_size(r, focus), 0 });
            continue;
        }
        bool do_alloc = live.empty() || ((int) live.size() < max_live && r.chance(grow ? 72 : 28));
        if (do_alloc) {
            int sz = pick_size(r, focus);
            s.ops.push_back({ 'A', sz, 0, 0 });
            g.push_back({ sz, class_of((size_t) sz), 0 }); live.push_back((int) g.size() - 1);
            continue;
        }
        // release a live buffer: newest / oldest / random position
        size_t li;
        switch (r.below(5)) { case 0: li = live.size() - 1; break; case 1: li = 0; break; default: li = r.below(live.size()); }
        int idx = live[li]; GBuf& b = g[(size_t) idx];
        if (b.cls < 5 && r.chance(25)) {
            int sz = size_in_class(r, b.cls);
            s.ops.push_back({ sz == b.req ? 'R' : 'W', idx, sz, 0 });
        } else s.ops.push_back({ 'R', idx, 0, 0 });
        b.st = 2; released.push_back(idx);
        // keep order of `live` meaningful for "oldest/newest": erase in place
        live.erase(live.begin() + (long) li);
    }
    int e = (int) r.below(100);
    s.ending = e < 45 ? 0 : e < 92 ? 1 : 2;
    return s;
}

// ---------------------------------------------------------------- script execution
static char g_static_foreign[48];

struct Exec {
    World& w; const Script& s;
    SimpleStringInternalCache* cache = nullptr;
    TestMemoryAllocator* adaptor = nullptr;             // the allocator interface the script drives (own adaptor or the global cache's)
    SimpleStringCacheAllocator* own_adaptor = nullptr;
    GlobalSimpleStringCache* global = nullptr;
    TestMemoryAllocator* string_alloc_before = nullptr;
    size_t len_used = 0, len_free = 0, len_unc = 0;     // model's list lengths, measured before a list-length dependent operation
    bool release_on_small_stack = false;
    int reserved_slot = -1;
    std::vector<int> idx_of;            // script buffer number -> index in w.bufs
    char* foreign[N_FOREIGN]; size_t flen[N_FOREIGN];
    char stack_foreign[40];
    Exec(World& w_, const Script& s_) : w(w_), s(s_) {}

    char* do_alloc(size_t n) { return adaptor ? adaptor->alloc_memory(n, "c18", 1) : cache->alloc(n); }
    void do_dealloc(char* p, size_t n) { if (adaptor) adaptor->free_memory(p, n, "c18", 2); else cache->dealloc(p, n); }

    void measure() { if (s.small_stack) w.list_lengths(len_used, len_free, len_unc); }
    // an operation whose work depends on the list lengths: on the small stack when the script asks for it (measure() first)
    // `list` names the list the operation walks (for the violation key); NULL: all of them, the longest one is named
    void heavy(const char* opname, const char* list, std::function<void()> fn) {
        if (!s.small_stack) { fn(); return; }
        vf::Ctx& c = *w.c;
        if (!list) list = len_used >= len_free && len_used >= len_unc ? "used-list" : len_free >= len_unc ? "free-list" : "uncached-list";
        g_ss.list = list;
        g_ss.n_list = !strcmp(list, "used-list") ? len_used : !strcmp(list, "free-list") ? len_free : len_unc;
        long depth = ss_run(fn);
        std::string pre = std::string("small_stack_") + opname;
        c.count(pre + "_runs");
        if (depth < 0) c.count("small_stack_unavailable_ran_on_main_stack");
        else c.count(depth <= 4096 ? "small_stack_peak_depth_le_4k" : depth <= 16384 ? "small_stack_peak_depth_le_16k" : depth <= 65536 ? "small_stack_peak_depth_le_64k" : "small_stack_peak_depth_gt_64k");
        c.count("small_stack_underlying_frees", g_ss.frees);
        if (depth < 0) return;
        if (len_used >= 10000) c.count(pre + "_with_used_list_of_10000_or_more");
        if (len_free >= 10000) c.count(pre + "_with_free_list_of_10000_or_more");
        if (len_unc >= 10000) c.count(pre + "_with_uncached_list_of_10000_or_more");
    }

    void expect_silent(size_t o0, const char* opname) {
        if (out_len() - w.nest.out_bytes != o0) w.viol(std::string("output-during:") + opname, std::string("the cache printed during ") + opname + ": " + out_from(o0).substr(0, 200));
    }

    // kind: 0 known, 1 ambiguous (warning allowed, not demanded), 2 unknown (first must warn, later must not)
    void release(char* p, size_t size, int kind, const char* shape, const std::string& content) {
        size_t o0 = out_len();
        int before = w.warnings + w.warning_in_progress;
        w.op = "dealloc";
        if (release_on_small_stack) { measure(); heavy("release", !strcmp(shape, "uncached") ? "uncached-list" : "used-list", [&] { do_dealloc(p, size); }); }
        else do_dealloc(p, size);
        bool warn = out_len() - (w.nest.running ? 0 : w.nest.out_bytes) > o0;
        if (warn) {
            w.warnings++;
            std::string t = out_from(o0);
            w.count("warnings_printed");
            if (t.find("WARNING: Attempting to deallocate a String buffer that was allocated while not caching") != std::string::npos) w.count("warning_text_is_the_documented_one");
            if (t.find("String we are deallocating: \"" + content + "\"") != std::string::npos) w.count("warning_quotes_the_buffer_content");
        }
        if (kind == 0) {
            if (warn) w.viol(std::string("warning:on-known-release:") + shape, "releasing a buffer the cache handed out (same size class) printed the unknown-buffer warning");
        } else if (kind == 1) {
            if (warn && before >= 1) w.viol(std::string("warning:repeated:") + shape, "a second warning was printed by the same cache");
            w.count(warn ? "ambiguous_release_warned" : "ambiguous_release_silent");
        } else {
            if (!warn && before == 0) w.viol(std::string("warning:missing:") + shape, "first release of a buffer the cache does not know printed nothing");
            if (warn && before >= 1) w.viol(std::string("warning:repeated:") + shape, "a second warning was printed by the same cache");
            w.count(before == 0 ? "unknown_release_first" : "unknown_release_after_warning");
        }
    }

    // release of a buffer in use with a size of its own class (script operations R / W, the release-all ending, nested releases)
    void release_live(int bi, size_t size, bool true_size, bool marks_nontrivial, bool on_small_stack) {
        vf::Ctx& c = *w.c;
        Buf b = w.bufs[(size_t) bi];
        w.verify_buf(bi, "before its release");
        int pos = w.used_pos(bi);
        std::string shape = b.cls == 5 ? (s.reentrant ? (pos == 0 ? "uncached:newest" : "uncached:older") : "uncached") : pos == 0 ? "head-of-used-list" : "interior-of-used-list";
        if (b.born) shape = std::string(b.cls == 5 ? "uncached" : "cached") + ":buffer-from-request-nested-in=" + b.born;
        // the cache owns it from now on
        { auto it = w.live_iv.find((uintptr_t) b.p); if (it != w.live_iv.end() && it->second == bi) w.live_iv.erase(it); }
        w.drop_from_used(bi);
        w.bufs[(size_t) bi].st = RELEASED;
        if (pos > 0) { if (marks_nontrivial) w.interior_released[b.cls] = true; c.count(std::string("release_interior_class_") + CLS[b.cls]); }
        else c.count(std::string("release_head_class_") + CLS[b.cls]);
        c.count(true_size ? "op_release_true_size" : "op_release_other_size_same_class");
        release_on_small_stack = on_small_stack;
        release(b.p, size, 0, shape.c_str(), "");
        release_on_small_stack = false;
    }

    // ------------------------------------------------------------ re-entrancy
    // arm the nested operation of a top-level operation; `tag` names what the cache will be doing when it arrives
    void arm(const Op& o, const char* tag, int outer_cls) {
        w.nest = Nest();
        if (!o.nk) return;
        // tooling only (never set by the check itself): C18_NO_NESTING_IN=<position> leaves out the nested operations at one position, to
        // look at the remaining positions of a tree that is known to fail at that one
        static const char* skip = getenv("C18_NO_NESTING_IN");
        if (skip && !strcmp(skip, tag)) { w.c->count("nested_operation_left_out_by_C18_NO_NESTING_IN"); return; }
        w.nest.armed = true; w.nest.op = &o; w.nest.tag = tag; w.nest.outer_cls = outer_cls;
        w.nest.slot = reserved_slot;
        w.c->count("nested_operations_scripted");
    }
    void disarm() {
        if (w.nest.op && !w.nest.fired) w.c->count(std::string("nested_operation_not_reached_in_") + w.nest.tag);
        w.nest.armed = false; w.nest.running = false;
    }
    // called from the callback: the cache is in the middle of the top-level operation
    void run_nested(const Op& o, char cb) {
        vf::Ctx& c = *w.c;
        const char* saved_op = w.op;
        std::string where = std::string(w.nest.tag) + (cb == 'a' ? ":alloc-callback-" : cb == 'f' ? ":free-callback-" : ":print-callback-") + std::to_string(o.nat);
        c.count("nested_operations_executed");
        c.count(g_hook_out ? "nested_operations_inside_a_test_run" : "nested_operations_outside_a_test_run");
        c.count(adaptor ? "nested_operations_via_adaptor" : "nested_operations_via_cache");
        c.count("nested_in_" + where);
        switch (o.nk) {
        case 'A': {
            size_t o0 = out_len();
            w.op = "alloc";
            char* p = do_alloc((size_t) o.na);
            if (out_len() != o0) w.viol("output-during:alloc", "the cache printed during alloc: " + out_from(o0).substr(0, 200));
            int bi = w.on_alloc(p, (size_t) o.na, true);
            if (w.nest.slot >= 0) idx_of[(size_t) w.nest.slot] = bi;
            c.count(std::string("op_alloc_class_") + CLS[class_of((size_t) o.na)]);
            c.count(std::string(class_of((size_t) o.na) == w.nest.outer_cls ? "nested_request_same_list_in_" : "nested_request_other_list_in_") + w.nest.tag);
            break;
        }
        case 'R': {
            int bi = o.na < (int) idx_of.size() ? idx_of[(size_t) o.na] : -1;
            if (bi < 0 || w.bufs[(size_t) bi].st != LIVE) { c.count("nested_release_skipped_buffer_no_longer_usable"); break; }
            int cls = w.bufs[(size_t) bi].cls;
            const char* which = cls != w.nest.outer_cls ? "nested_release_other_list_in_" : w.used_pos(bi) == 0 ? "nested_release_same_list_newest_in_" : "nested_release_same_list_older_in_";
            c.count(std::string(which) + w.nest.tag);
            release_live(bi, w.bufs[(size_t) bi].req, true, true, false);
            break;
        }
        case 'F': {
            c.count("op_release_foreign");
            c.count(std::string("nested_foreign_release_in_") + w.nest.tag);
            release(foreign[o.na], (size_t) o.nb, 2, o.na < 5 ? "foreign-heap" : o.na == 5 ? "foreign-static" : "foreign-stack", std::string(foreign[o.na]));
            break;
        }
        }
        w.op = saved_op;
    }

    void run() {
        vf::Ctx& c = *w.c;
        // foreign buffers: NUL-terminated memory owned by the harness
        static const size_t FL[5] = { 1, 5, 40, 200, 700 };
        for (int i = 0; i < 5; i++) {
            flen[i] = FL[i]; foreign[i] = (char*) malloc(FL[i]);
            for (size_t k = 0; k + 1 < FL[i]; k++) foreign[i][k] = (char) ('a' + (k + (size_t) i) % 26);
            foreign[i][FL[i] - 1] = 0;
        }
        snprintf(g_static_foreign, sizeof g_static_foreign, "static-buffer-not-from-the-cache"); foreign[5] = g_static_foreign; flen[5] = sizeof g_static_foreign;
        snprintf(stack_foreign, sizeof stack_foreign, "stack-buffer"); foreign[6] = stack_foreign; flen[6] = sizeof stack_foreign;
        for (int i = 0; i < N_FOREIGN; i++) w.foreign_iv[(uintptr_t) foreign[i]] = flen[i];

        if (s.global) {
            // the cache inside a GlobalSimpleStringCache, driven through the allocator it installs for SimpleString
            string_alloc_before = SimpleString::getStringAllocator();
            SimpleString::setStringAllocator(&w.rec);
            w.op = "install";
            global = new GlobalSimpleStringCache;
            adaptor = global->getAllocator();
        } else {
            cache = new SimpleStringInternalCache;
            if (s.adaptor) adaptor = own_adaptor = new SimpleStringCacheAllocator(*cache, &w.rec);
            else cache->setAllocator(&w.rec);
        }

        for (const Op& o : s.ops) {
            w.nest = Nest();
            reserved_slot = -1;
            if (o.nk == 'A') { reserved_slot = (int) idx_of.size(); idx_of.push_back(-1); }   // a nested request is numbered before the operation it is nested in, whether or not it happens
            switch (o.k) {
            case 'A': {
                size_t o0 = out_len();
                w.op = "alloc";
                arm(o, class_of((size_t) o.a) == 5 ? "alloc:uncached" : "alloc:cached", class_of((size_t) o.a));
                char* p = do_alloc((size_t) o.a);
                disarm();
                expect_silent(o0, "alloc");
                idx_of.push_back(w.on_alloc(p, (size_t) o.a, true));
                c.count(std::string("op_alloc_class_") + CLS[class_of((size_t) o.a)]);
                break;
            }
            case 'R': case 'W': {
                int bi = idx_of[(size_t) o.a];
                if (bi < 0) { c.count("op_skipped_nested_request_did_not_happen"); break; }
                Buf b = w.bufs[(size_t) bi];
                if (b.st != LIVE) { c.count("op_skipped_buffer_no_longer_usable"); break; }
                size_t size = o.k == 'R' ? b.req : (size_t) o.b;
                arm(o, b.cls != 5 ? "dealloc:cached" : w.used_pos(bi) == 0 ? "dealloc:uncached:newest" : "dealloc:uncached:older", b.cls);
                release_live(bi, size, o.k == 'R', true, s.small_stack && o.c == 1);
                disarm();
                break;
            }
            case 'X': {
                int bi = idx_of[(size_t) o.a];
                if (bi < 0) { c.count("op_skipped_nested_request_did_not_happen"); break; }
                Buf b = w.bufs[(size_t) bi];
                if (b.st != LIVE || b.usable != b.req || b.req < 1) { c.count("op_skipped_buffer_no_longer_usable"); break; }
                w.verify_buf(bi, "before its release");
                std::string content(b.p);
                { auto it = w.live_iv.find((uintptr_t) b.p); if (it != w.live_iv.end() && it->second == bi) w.live_iv.erase(it); }
                w.bufs[(size_t) bi].st = LIMBO;       // stays in the mirrored used list (evidence only)
                c.count(b.cls == 5 ? "op_release_uncached_with_other_size" : "op_release_size_of_other_class");
                release(b.p, (size_t) o.b, 1, "wrong-class-size", content);
                break;
            }
            case 'F': {
                c.count("op_release_foreign");
                arm(o, "warning-print", -1);
                release(foreign[o.a], (size_t) o.b, 2, o.a < 5 ? "foreign-heap" : o.a == 5 ? "foreign-static" : "foreign-stack", std::string(foreign[o.a]));
                disarm();
                break;
            }
            case 'I': {
                int bi = idx_of[(size_t) o.a];
                if (bi < 0) { c.count("op_skipped_nested_request_did_not_happen"); break; }
                Buf b = w.bufs[(size_t) bi];
                if (b.st != LIVE || b.usable != b.req || (size_t) o.b >= b.req) { c.count("op_skipped_buffer_no_longer_usable"); break; }
                w.verify_buf(bi, "before an interior-pointer release");
                c.count("op_release_interior_pointer");
                release(b.p + o.b, (size_t) o.c, 2, "interior-pointer-of-live-buffer", std::string(b.p + o.b));
                w.verify_buf(bi, "after an interior-pointer release");
                break;
            }
            case 'S': {
                int bi = idx_of[(size_t) o.a];
                if (bi < 0) { c.count("op_skipped_nested_request_did_not_happen"); break; }
                Buf b = w.bufs[(size_t) bi];
                if (b.st != RELEASED || b.usable != b.req || b.req < 1) { c.count("op_skipped_stale_buffer_reissued_or_returned"); break; }
                c.count("op_release_again");
                release(b.p, b.req, 1, "second-release", std::string());
                break;
            }
            case 'C': {
                if (!cache) break;
                size_t o0 = out_len();
                w.op = "clearCache";
                measure();
                heavy("clearCache", "free-list", [&] { cache->clearCache(); });
                expect_silent(o0, "clearCache");
                w.check_after_clearCache();
                c.count("op_clearCache");
                break;
            }
            case 'K': {
                if (!cache) break;
                clear_all("clearAll");
                break;
            }
            case 'V': w.verify_all("at a verification point"); c.count("op_verify_all"); break;
            case 'Q': {
                size_t o0 = out_len();
                if (!cache) break;
                w.op = "hasFreeBlocksOfSize";
                bool has = (size_t) o.a <= 256 ? cache->hasFreeBlocksOfSize((size_t) o.a) : false;
                expect_silent(o0, "hasFreeBlocksOfSize");
                if ((size_t) o.a <= 256) {
                    bool model = false; int cls = class_of((size_t) o.a);
                    for (auto& kv : w.by_ptr) { Buf& b = w.bufs[(size_t) kv.second]; if (b.st == RELEASED && b.cls == cls) model = true; }
                    c.count(has == model ? "hasFreeBlocks_agrees_with_model" : "hasFreeBlocks_differs_from_model");
                }
                break;
            }
            }
        }
        // ending
        w.nest = Nest();
        if (s.global) {
            w.verify_all("before the destruction of the global cache");
            measure();
            w.forget_all();                     // ~GlobalSimpleStringCache clears everything, buffers in use included
            w.op = "global-destroy";
            size_t o0 = out_len();
            heavy("global_destroy", nullptr, [&] { delete global; });
            global = nullptr; adaptor = nullptr;
            expect_silent(o0, "global-destroy");
            if (SimpleString::getStringAllocator() != &w.rec) c.count("global_destructor_did_not_restore_allocator");
            SimpleString::setStringAllocator(string_alloc_before);
            w.check_all_returned("global-destroy");
            c.count("global_cache_lifetimes_driven_through_the_allocator");
            c.count("underlying_alloc_calls", w.rec.n_alloc);
            c.count("underlying_free_calls", w.rec.n_free);
            for (int i = 0; i < 5; i++) free(foreign[i]);
            return;
        }
        if (s.ending == 0) {
            std::vector<int> order;
            for (auto& kv : w.by_ptr) if (w.bufs[(size_t) kv.second].st == LIVE) order.push_back(kv.second);
            // deterministic pseudo-random order derived from buffer ids (addresses are not stable between runs)
            std::sort(order.begin(), order.end(), [&](int a, int b) { return (w.bufs[(size_t) a].id * 2654435761u) % 1009u < (w.bufs[(size_t) b].id * 2654435761u) % 1009u || ((w.bufs[(size_t) a].id * 2654435761u) % 1009u == (w.bufs[(size_t) b].id * 2654435761u) % 1009u && a < b); });
            for (int bi : order) {
                Buf b = w.bufs[(size_t) bi];
                if (b.st != LIVE) continue;
                w.nest = Nest();
                release_live(bi, b.req, true, false, false);
            }
            size_t o0 = out_len();
            w.op = "clearCache";
            measure();
            heavy("clearCache", "free-list", [&] { cache->clearCache(); });
            expect_silent(o0, "clearCache");
            w.check_after_clearCache();
            c.count("op_clearCache");
        }
        if (s.ending != 2) clear_all("clearAll");
        else {
            w.verify_all("before destruction");
            w.forget_all();
        }
        w.op = "destroy";
        size_t o0 = out_len();
        measure();
        heavy("destroy", nullptr, [&] { if (own_adaptor) delete own_adaptor; delete cache; });
        own_adaptor = nullptr; adaptor = nullptr; cache = nullptr;
        expect_silent(o0, "destroy");
        if (s.ending != 2) w.check_all_returned("destroy-after-clearAll");
        else {
            size_t left = w.cache_owned_blocks();
            c.count("destroyed_without_clear");
            if (left) {
                c.count("destroyed_without_clear_blocks_never_returned", left);
                if (getenv("C18_DESTROY_STRICT")) w.viol("destroy-without-clear:blocks-never-returned", std::to_string(left) + " blocks obtained from the allocator were not returned when the cache was destroyed without clearAll");
            }
        }
        c.count("underlying_alloc_calls", w.rec.n_alloc);
        c.count("underlying_free_calls", w.rec.n_free);
        if (w.max_used >= 8) c.count("histories_with_used_list_of_8_or_more");
        for (int i = 0; i < 5; i++) free(foreign[i]);
    }

    void clear_all(const char* what) {
        vf::Ctx& c = *w.c;
        w.verify_all("before clearAll");
        measure();
        w.forget_all();                         // every buffer belongs to the cache from here on
        size_t o0 = out_len();
        w.op = "clearAll";
        heavy("clearAll", nullptr, [&] { cache->clearAllIncludingCurrentlyUsedMemory(); });
        expect_silent(o0, "clearAll");
        w.check_all_returned(what);
        for (int i = 0; i < 6; i++) w.interior_released[i] = false;
        c.count("op_clearAll");
    }
};

static Exec* g_exec = nullptr;
static void fixture_body() { g_exec->run(); }

// called from the underlying allocator's callbacks and from the output sinks: issues the nested operation of the running
// top-level operation when its callback has come
static void nest_hook(char cb) {
    World* w = W;
    if (!w || !w->nest.armed || w->nest.running || !g_exec) return;
    int ord = w->nest.seen++;
    if (ord != w->nest.op->nat) return;
    w->nest.armed = false; w->nest.fired = true; w->nest.running = true;
    if (cb == 'p') { w->warning_in_progress = 1; w->nest.tag = "warning-print"; }    // whatever the top-level operation was: the cache is printing its warning
    size_t o0 = out_len();
    g_exec->run_nested(*w->nest.op, cb);
    w->nest.out_bytes = out_len() - o0;
    w->warning_in_progress = 0;
    w->nest.running = false;
}

static void run_script(vf::Ctx& c, const Script& s, const std::string& sig_prefix) {
    c.begin([&s] { return s.json(); });
    World w(&c); W = &w;
    arm_budget(true, s.small_stack ? LONG_BUDGET_S : CPU_BUDGET_S);
    void (*saved_fputs)(const char*, PlatformSpecificFile) = PlatformSpecificFPuts;
    PlatformSpecificFPuts = capture_fputs;
    g_cap.clear(); g_fx = nullptr;
    {
        Exec ex(w, s); g_exec = &ex;
        w.rec.poison = !s.reentrant;
        if (s.fixture && s.reentrant) {
            // a test run of the harness's own: same as the fixture, but the output can call back into the cache while it prints
            HookOutput out; g_hook_out = &out;
            {
                TestResult res(out);
                TestRegistry reg;
                ExecFunctionTestShell shell;
                ExecFunctionWithoutParameters fn(fixture_body);
                shell.testFunction_ = &fn;
                reg.setCurrentRegistry(&reg);
                reg.addTest(&shell);
                reg.runAllTests(res);
                reg.setCurrentRegistry(NULLPTR);
                if (res.getFailureCount() != 0) w.viol("fixture-test-failed", "the history recorded a test failure: " + std::string(out.getOutput().asCharString()).substr(0, 300));
            }
            if (!g_cap.empty()) c.count("console_output_while_in_fixture");
            g_hook_out = nullptr;
            c.count("histories_inside_a_test_run");
        } else if (s.fixture) {
            TestTestingFixture fx;
            g_fx = &fx;
            fx.setTestFunction(fixture_body);
            fx.runAllTests();
            if (fx.getFailureCount() != 0) w.viol("fixture-test-failed", "the history recorded a test failure: " + std::string(fx.getOutput().asCharString()).substr(0, 300));
            if (!g_cap.empty()) c.count("console_output_while_in_fixture");
            g_fx = nullptr;
            c.count("histories_inside_a_test_run");
        } else {
            ex.run();
            c.count("histories_outside_a_test_run");
        }
        g_exec = nullptr;
    }
    PlatformSpecificFPuts = saved_fputs;
    if (w.nontrivial) c.nontrivial(sig_prefix + (s.summary.empty() ? s.text() : s.summary + "#" + std::to_string(vf::fnv(s.text()))) + (s.global ? "|gl" : s.adaptor ? "|ad" : "|dc") + std::to_string(s.ending));
    c.count(s.global ? "histories_via_global_cache_allocator" : s.adaptor ? "histories_via_adaptor" : "histories_via_cache");
    if (w.warnings) c.count("histories_with_a_warning");
    w.rec.cleanup();
    arm_budget(false);
    W = nullptr;
}

static void sec_histories(vf::Ctx& c) {
    Script s = gen_history(c.rng, c.thorough);
    run_script(c, s, "");
}

// ---------------------------------------------------------------- re-entrant histories
// The cache calls out at these points: alloc on a miss (two alloc callbacks: header, buffer), alloc of an uncached size (two alloc
// callbacks), release of an uncached buffer (two free callbacks: buffer, header), the first release of an unknown buffer (one
// print). (clearCache / clearAll / destruction also call free callbacks; a request that arrives in the middle of a clear is
// neither before nor after "the cache is cleared", the statement gives it no meaning: not generated.) The generator keeps an exact
// model of the free lists (no wrong-class releases here), so it knows which operations reach a callback.
struct RGen {
    vf::Rng& r;
    std::vector<GBuf> g; std::vector<int> live;   // live: in order of allocation
    int freec[5] = { 0, 0, 0, 0, 0 };
    bool warned = false;
    std::vector<int> focus;
    explicit RGen(vf::Rng& r_) : r(r_) {}
    int new_buf(int sz) { g.push_back({ sz, class_of((size_t) sz), 0 }); live.push_back((int) g.size() - 1); return (int) g.size() - 1; }
    bool is_miss(int sz) { int c = class_of((size_t) sz); return c == 5 || freec[c] == 0; }
    void apply_alloc(int sz) { int c = class_of((size_t) sz); if (c < 5 && freec[c] > 0) freec[c]--; new_buf(sz); }
    void apply_release(int idx) {
        GBuf& b = g[(size_t) idx]; b.st = 2; if (b.cls < 5) freec[b.cls]++;
        for (size_t i = 0; i < live.size(); i++) if (live[i] == idx) { live.erase(live.begin() + (long) i); break; }
    }
    void clear_cache() { for (GBuf& b : g) if (b.st == 2) b.st = 3; for (int i = 0; i < 5; i++) freec[i] = 0; }
    void clear_all() { for (GBuf& b : g) b.st = 3; live.clear(); for (int i = 0; i < 5; i++) freec[i] = 0; }
    // the nested operation of a top-level operation that works on list `ocls` (-1: none) and on buffer `self` (-1: none) and reaches
    // `ncb` callbacks; its effect on the model is applied here, i.e. BEFORE the effect of the top-level operation
    void nest(Op& o, int ocls, int self, int ncb) {
        o.nat = ncb > 1 ? (int) r.below(2) : 0;
        std::vector<int> same, other;
        for (int i : live) if (i != self) (g[(size_t) i].cls == ocls ? same : other).push_back(i);
        int x = (int) r.below(100);
        if (x >= 50 && x < 75 && same.empty()) x = 0;
        if (x >= 75 && x < 90 && other.empty()) x = 40;
        if (x < 35 && ocls < 0) x = 40;
        if (x < 35) { o.nk = 'A'; o.na = size_in_class(r, ocls); }
        else if (x < 50) { o.nk = 'A'; o.na = pick_size(r, focus); }
        else if (x < 75) { o.nk = 'R'; size_t k = r.chance(40) ? same.size() - 1 : r.chance(30) ? 0 : r.below(same.size()); o.na = same[k]; }
        else if (x < 90) { o.nk = 'R'; o.na = other[r.below(other.size())]; }
        else { o.nk = 'F'; o.na = (int) r.below(N_FOREIGN); o.nb = pick_size(r, focus); }
        if (o.nk == 'A') apply_alloc(o.na);
        else if (o.nk == 'R') apply_release(o.na);
        else warned = true;
    }
};

static Script gen_reentrant(vf::Rng& r, bool thorough) {
    Script s; s.reentrant = true;
    s.adaptor = r.chance(30);
    s.fixture = r.chance(40);
    RGen G(r);
    int nops = r.chance(30) ? r.range(6, 25) : r.range(20, thorough ? 200 : 120);
    if (r.chance(75)) { int k = r.chance(60) ? 1 : 2; for (int i = 0; i < k; i++) G.focus.push_back(r.chance(45) ? 5 : (int) r.below(5)); }
    int max_live = r.range(3, 14);
    int p_nest = r.chance(20) ? 100 : r.range(30, 80);
    bool grow = true; int phase_left = r.range(4, 25);
    for (int n = 0; n < nops; n++) {
        if (--phase_left <= 0) { grow = !grow; phase_left = r.range(4, 25); }
        int x = (int) r.below(1000);
        if (x < 12) { s.ops.push_back({ 'C', 0, 0, 0 }); G.clear_cache(); continue; }
        if (x < 18) { s.ops.push_back({ 'K', 0, 0, 0 }); G.clear_all(); continue; }
        if (x < 40) { s.ops.push_back({ 'V', 0, 0, 0 }); continue; }
        if (x < 50) { s.ops.push_back({ 'Q', pick_size(r, G.focus), 0, 0 }); continue; }
        if (x < 100) {
            Op o = { 'F', (int) r.below(N_FOREIGN), pick_size(r, G.focus), 0 };
            if (!G.warned && r.chance(75)) G.nest(o, -1, -1, 1);
            G.warned = true;
            s.ops.push_back(o);
            continue;
        }
        bool do_alloc = G.live.empty() || ((int) G.live.size() < max_live && r.chance(grow ? 68 : 32));
        if (do_alloc) {
            int sz = pick_size(r, G.focus);
            Op o = { 'A', sz, 0, 0 };
            if (G.is_miss(sz) && r.chance(p_nest)) { G.nest(o, class_of((size_t) sz), -1, 2); G.new_buf(sz); }
            else G.apply_alloc(sz);
            s.ops.push_back(o);
            continue;
        }
        size_t li;
        switch (r.below(5)) { case 0: case 1: li = G.live.size() - 1; break; case 2: li = 0; break; default: li = r.below(G.live.size()); }
        int idx = G.live[li]; GBuf b = G.g[(size_t) idx];
        Op o = { 'R', idx, 0, 0 };
        if (b.cls < 5 && r.chance(25)) { int sz = size_in_class(r, b.cls); if (sz != b.req) { o.k = 'W'; o.b = sz; } }
        if (b.cls == 5 && r.chance(p_nest)) G.nest(o, 5, idx, 2);
        G.apply_release(idx);
        s.ops.push_back(o);
    }
    int e = (int) r.below(100);
    s.ending = e < 45 ? 0 : e < 92 ? 1 : 2;
    return s;
}
static void sec_reentrant(vf::Ctx& c) {
    Script s = gen_reentrant(c.rng, c.thorough);
    run_script(c, s, "re:");
    c.count("reentrant_histories");
}

// every position x kind of nested operation x interface x output, in a fixed history shape: three buffers on the list the
// top-level operation works on, two on another cached list, two uncached (or cached) ones, one class with a free block; then the
// top-level operation with its nested operation; then the buffers they produced are released, the class is used again, an
// unknown buffer is released, and the usual ending.
static const char* RM_OUTER[9] = { "alloc(miss,class 32)", "alloc(miss,class 64)", "alloc(miss,class 96)", "alloc(miss,class 128)", "alloc(miss,class 256)", "alloc(uncached)", "dealloc(newest uncached)", "dealloc(older uncached)", "dealloc(unknown): print" };
static const char* RM_NESTED[8] = { "request,same list", "request,other class (miss)", "request,uncached", "release,same list,newest", "release,same list,older", "release,other list", "release,unknown buffer", "request,other class (hit)" };
static const uint64_t RM_N = 9 * 2 * 8 * 2 * 2;
static void sec_rmatrix(vf::Ctx& c) {
    uint64_t k = c.idx;
    int nested = (int) (k % 8); k /= 8;
    int outer = (int) (k % 9); k /= 9;
    int nat = (int) (k % 2); k /= 2;
    int via = (int) (k % 2); k /= 2;
    int outp = (int) (k % 2);
    vf::Rng& r = c.rng;
    Script s; s.reentrant = true; s.adaptor = via == 1; s.fixture = outp == 1;
    int cls = outer < 5 ? outer : outer == 8 ? 0 : 5;
    int o1 = cls < 5 ? (cls + 2) % 5 : 1;          // another cached class with buffers in use
    int o2 = cls < 5 ? (cls + 3) % 5 : 3;          // a cached class with one free block
    int nb = 0;
    auto A = [&](int sz) { s.ops.push_back({ 'A', sz, 0, 0 }); return nb++; };
    int same0 = A(size_in_class(r, cls)), same1 = A(size_in_class(r, cls)), same2 = A(size_in_class(r, cls));
    int oth0 = A(size_in_class(r, o1)); A(size_in_class(r, o1));
    int unc0 = A(cls < 5 ? r.range(257, 600) : size_in_class(r, 3)); A(cls < 5 ? r.range(257, 600) : size_in_class(r, 3));
    int fr = A(size_in_class(r, o2)); s.ops.push_back({ 'R', fr, 0, 0 });
    Op o = { 'A', 0, 0, 0 };
    int self = -1;
    if (outer <= 5) o.a = size_in_class(r, cls);
    else if (outer == 6) { o.k = 'R'; o.a = self = same2; }
    else if (outer == 7) { o.k = 'R'; o.a = self = same1; }
    else { o.k = 'F'; o.a = (int) r.below(N_FOREIGN); o.b = r.range(1, 400); }
    o.nat = outer == 8 ? 0 : nat;
    int newest = self == same2 ? same1 : same2, older = self == same1 ? same0 : same1;
    switch (nested) {
    case 0: o.nk = 'A'; o.na = size_in_class(r, cls); break;
    case 1: { int x = 0; while (x == cls || x == o2) x++; o.nk = 'A'; o.na = size_in_class(r, x); break; }
    case 2: o.nk = 'A'; o.na = r.range(257, 1024); break;
    case 3: o.nk = 'R'; o.na = newest; break;
    case 4: o.nk = 'R'; o.na = older; break;
    case 5: o.nk = 'R'; o.na = r.chance(50) ? oth0 : unc0; break;
    case 6: o.nk = 'F'; o.na = (int) r.below(N_FOREIGN); o.nb = r.range(1, 400); break;
    default: o.nk = 'A'; o.na = size_in_class(r, o2); break;
    }
    int born = -1, mine = -1;
    if (o.nk == 'A') born = nb++;
    s.ops.push_back(o);
    if (o.k == 'A') mine = nb++;
    s.ops.push_back({ 'V', 0, 0, 0 });
    if (born >= 0) s.ops.push_back({ 'R', born, 0, 0 });
    if (mine >= 0 && r.chance(50)) s.ops.push_back({ 'R', mine, 0, 0 });
    A(size_in_class(r, cls)); int again = A(size_in_class(r, cls));
    s.ops.push_back({ 'R', again, 0, 0 });
    if (self != same0 && !(o.nk == 'R' && o.na == same0)) s.ops.push_back({ 'R', same0, 0, 0 });
    s.ops.push_back({ 'V', 0, 0, 0 });
    s.ops.push_back({ 'F', (int) r.below(N_FOREIGN), r.range(1, 400), 0 });
    s.ending = (int) ((c.idx / 8) % 2);
    s.summary.clear();
    run_script(c, s, std::string("rm:") + RM_OUTER[outer] + "/" + RM_NESTED[nested] + ":");
    c.count("reentrant_matrix_cases");
}

// ---------------------------------------------------------------- exhaustive: every request size, fixed history shape
static const int SWEEP_EXTRA[] = { 2048, 4096, 65536 };
static const uint64_t SWEEP_N = 1101 + 3;
static const int REPS[] = { 0, 1, 32, 33, 64, 65, 96, 97, 128, 129, 256, 257, 1024 };
static void sec_sweep(vf::Ctx& c) {
    int sz = c.idx <= 1100 ? (int) c.idx : SWEEP_EXTRA[c.idx - 1101];
    Script s; s.adaptor = (c.idx % 3) == 1; s.fixture = false; s.ending = (int) (c.idx % 2);
    // three buffers of this size, release the middle one, allocate again, release the rest, then one request per class
    s.ops.push_back({ 'A', sz, 0, 0 }); s.ops.push_back({ 'A', sz, 0, 0 }); s.ops.push_back({ 'A', sz, 0, 0 });
    s.ops.push_back({ 'R', 1, 0, 0 });
    s.ops.push_back({ 'A', sz, 0, 0 });                 // #3
    s.ops.push_back({ 'V', 0, 0, 0 });
    s.ops.push_back({ 'R', 0, 0, 0 }); s.ops.push_back({ 'R', 2, 0, 0 }); s.ops.push_back({ 'R', 3, 0, 0 });
    for (int r : REPS) s.ops.push_back({ 'A', r, 0, 0 });   // #4..: a released buffer may only come back for its own class
    s.ops.push_back({ 'Q', sz <= 256 ? sz : 256, 0, 0 });
    s.ops.push_back({ 'V', 0, 0, 0 });
    s.ops.push_back({ 'C', 0, 0, 0 });
    s.ops.push_back({ 'A', sz, 0, 0 });
    s.ops.push_back({ 'F', (int) (c.idx % N_FOREIGN), sz, 0 });
    s.ops.push_back({ 'F', (int) ((c.idx + 3) % N_FOREIGN), sz, 0 });
    run_script(c, s, "sweep:");
    c.count("sweep_sizes");
}

// ---------------------------------------------------------------- exhaustive: (true size, release size) inside one cached class
static std::vector<uint64_t> pair_prefix; static uint64_t pair_total = 0;
static void init_pairs() { for (int cl = 0; cl < 5; cl++) { pair_prefix.push_back(pair_total); uint64_t n = class_hi(cl) - class_lo(cl) + 1; pair_total += n * n; } }
static void sec_pairs(vf::Ctx& c) {
    size_t k = (size_t) (std::upper_bound(pair_prefix.begin(), pair_prefix.end(), c.idx) - pair_prefix.begin() - 1);
    uint64_t r = c.idx - pair_prefix[k], n = class_hi((int) k) - class_lo((int) k) + 1;
    int a = (int) (class_lo((int) k) + r / n), b = (int) (class_lo((int) k) + r % n);
    Script s; s.adaptor = false; s.fixture = false; s.ending = (int) (c.idx % 2);
    s.ops.push_back({ 'A', a, 0, 0 }); s.ops.push_back({ 'A', a, 0, 0 }); s.ops.push_back({ 'A', b, 0, 0 });
    s.ops.push_back({ a == b ? 'R' : 'W', 1, b, 0 });   // interior block of the used list, released with another size of its class
    s.ops.push_back({ a == b ? 'R' : 'W', 0, b, 0 });   // tail
    s.ops.push_back({ 'A', b, 0, 0 });                  // #3: must be satisfied without aliasing #2
    s.ops.push_back({ 'A', a, 0, 0 });                  // #4
    s.ops.push_back({ 'V', 0, 0, 0 });
    s.ops.push_back({ a == b ? 'R' : 'W', 2, a, 0 });   // head region, size swapped
    s.ops.push_back({ 'A', a, 0, 0 });
    s.ops.push_back({ 'V', 0, 0, 0 });
    run_script(c, s, "pair:");
    c.count("same_class_size_pairs");
}

// ---------------------------------------------------------------- long lists: 10^4 and more buffers on one list when it is cleared
// The statement quantifies over ALL histories; the random histories keep at most 150 buffers alive. Here one list of the
// cache (the used list of a class, the free list of a class, the uncached list, or all three) is grown to 10000..20000
// (thorough: ..50000) entries before clearCache / clearAll / destruction / ~GlobalSimpleStringCache, with a few releases from
// the interior of the long list, and every operation whose work depends on the list length runs on the small stack.
// idx decides list kind (4) x interface (3) x clearing operation in the middle of the history (3: none, clearCache, clearAll;
// always none for the global cache); sizes, lengths, noise, interior releases and the ending come from the rng.
static const char* LONG_KIND[4] = { "used-list", "free-list", "uncached-list", "used+free+uncached-lists" };
static Script gen_long(vf::Rng& r, uint64_t idx, bool thorough) {
    Script s;
    // every 36 consecutive cases enumerate the 36 combinations; the rotation by 7 per round keeps a strided sample of the index
    // space (memcheck variant: every 40th / 100th case) from always landing on the same list kind
    uint64_t combo = (idx + (idx / 36) * 7) % 36;
    int kind = (int) (combo % 4);
    int via = (int) ((combo / 4) % 3);
    s.adaptor = via == 1; s.global = via == 2; s.fixture = false; s.small_stack = true;
    s.long_list = LONG_KIND[kind];
    int N = r.range(10100, 20000);
    if (thorough && r.chance(20)) N = r.range(20000, 50000);
    int cls = kind == 2 ? 5 : (int) r.below(5);
    int nb = 0;
    auto size_for = [&](int c) { return c == 5 ? r.range(257, 400) : size_in_class(r, c); };
    auto A = [&](int sz) { s.ops.push_back({ 'A', sz, 0, 0 }); return nb++; };
    std::vector<int> none;
    int noise = r.range(0, 6);
    for (int i = 0; i < noise; i++) A(pick_size(r, none));
    std::vector<int> ids; ids.reserve((size_t) N);
    std::vector<char> gone((size_t) N + 8192, 0);
    for (int i = 0; i < N; i++) ids.push_back(A(size_for(cls)));
    // releases from the interior of the long list (old, middle-aged and recent buffers), on the small stack; some are re-issued
    int interior = r.range(0, 5);
    for (int i = 0; i < interior; i++) {
        int k = r.chance(30) ? r.range(0, 20) : r.chance(50) ? r.range(0, N - 2) : N - 2 - r.range(0, 20);
        if (k < 0 || k >= N - 1 || gone[(size_t) k]) continue;
        gone[(size_t) k] = 1;
        s.ops.push_back({ 'R', ids[(size_t) k], 0, 1 });
        if (r.chance(50)) A(size_for(cls));
    }
    int M2 = 0, M3 = 0, cls2 = cls;
    if (kind == 1) {
        // everything is released, newest first (each release is a head hit: linear), so the FREE list is the long one
        for (int i = N; i-- > 0;) if (!gone[(size_t) i]) s.ops.push_back({ 'R', ids[(size_t) i], 0, 0 });
        if (!s.global) s.ops.push_back({ 'Q', size_for(cls), 0, 0 });
    }
    if (kind == 3) {
        // a long used list in cls, plus a free list in another class and an uncached list of a few thousand each
        cls2 = (cls + 1 + (int) r.below(4)) % 5;
        M2 = r.range(1000, 4000); M3 = r.range(1000, 3000);
        std::vector<int> f; for (int i = 0; i < M2; i++) f.push_back(A(size_for(cls2)));
        for (int i = M2; i-- > 0;) s.ops.push_back({ 'R', f[(size_t) i], 0, 0 });
        for (int i = 0; i < M3; i++) A(size_for(5));
    }
    s.ops.push_back({ 'V', 0, 0, 0 });
    // the clearing operation in the middle of the history (direct and adaptor interface), then a little more traffic
    int mid = s.global ? 0 : (int) ((combo / 12) % 3);      // 0 none, 1 clearCache, 2 clearAll
    if (mid) {
        s.ops.push_back({ mid == 1 ? 'C' : 'K', 0, 0, 0 });
        int more = r.range(1, 8);
        for (int i = 0; i < more; i++) A(r.chance(70) ? size_for(cls) : pick_size(r, none));
        if (mid == 1 && kind != 1) { s.ops.push_back({ 'R', nb - 1, 0, 0 }); }
        s.ops.push_back({ 'V', 0, 0, 0 });
    }
    // ending 0 would release every live buffer in a scattered order (quadratic in a long used list): only when the used lists are short
    s.ending = (kind == 1 || mid == 2) && r.chance(50) ? 0 : 1;
    char b[256];
    snprintf(b, sizeof b, "long %s: %d noise allocations, %d allocations of class %s, %d releases from its interior (on the small stack)%s, then %s%s",
             LONG_KIND[kind], noise, N, CLS[cls], interior, kind == 1 ? ", all released newest first" : "",
             mid == 0 ? "the ending" : mid == 1 ? "clearCache, a few more allocations, the ending" : "clearAll, a few more allocations, the ending", "");
    s.summary = b;
    if (kind == 3) { snprintf(b, sizeof b, "; also %d buffers of class %s allocated and released, %d uncached buffers in use", M2, CLS[cls2], M3); s.summary += b; }
    return s;
}
static void sec_long(vf::Ctx& c) {
    Script s = gen_long(c.rng, c.idx, c.thorough);
    run_script(c, s, "long:");
    c.count("long_list_histories");
    c.count(std::string("long_list_histories_") + s.long_list);
}

// ---------------------------------------------------------------- GlobalSimpleStringCache under SimpleString traffic
struct Interposer : public TestMemoryAllocator {
    TestMemoryAllocator* inner; World* w; int depth = 0;
    Interposer(TestMemoryAllocator* in, World* w_) : TestMemoryAllocator("C18 interposer", "ip-alloc", "ip-free"), inner(in), w(w_) {}
    virtual ~Interposer() {}
    virtual char* alloc_memory(size_t size, const char* f, size_t l) override {
        depth++;
        size_t o0 = out_len();
        const char* saved = w->op; w->op = "alloc";
        char* p = inner->alloc_memory(size, f, l);
        w->op = saved;
        if (depth == 1 && out_len() != o0) w->viol("output-during:alloc", "the cache printed during alloc");
        w->on_alloc(p, size, false);
        w->count(std::string("op_alloc_class_") + CLS[class_of(size)]);
        if (depth > 1) w->count("allocations_nested_inside_a_release");
        depth--;
        return p;
    }
    virtual void free_memory(char* p, size_t size, const char* f, size_t l) override {
        depth++;
        int bi = -1;
        auto it = w->by_ptr.find((uintptr_t) p);
        if (it != w->by_ptr.end() && w->bufs[(size_t) it->second].st == LIVE) bi = it->second;
        int before = w->warnings;
        const char* shape = "foreign-string-created-before-the-cache";
        if (bi >= 0) {
            Buf b = w->bufs[(size_t) bi];
            if (b.req != size) w->count("simplestring_released_with_other_size");
            int pos = w->used_pos(bi);
            shape = b.cls == 5 ? "uncached" : pos == 0 ? "head-of-used-list" : "interior-of-used-list";
            { auto li = w->live_iv.find((uintptr_t) b.p); if (li != w->live_iv.end() && li->second == bi) w->live_iv.erase(li); }
            w->drop_from_used(bi);
            w->bufs[(size_t) bi].st = RELEASED;
            if (pos > 0) { w->interior_released[b.cls] = true; w->count(std::string("release_interior_class_") + CLS[b.cls]); }
            else w->count(std::string("release_head_class_") + CLS[b.cls]);
            w->count("op_release_true_size");
        } else w->count("op_release_foreign");
        size_t o0 = out_len();
        const char* saved = w->op; w->op = "dealloc";
        inner->free_memory(p, size, f, l);
        w->op = saved;
        if (depth == 1) {
            bool warn = out_len() > o0;
            if (warn) { w->warnings++; w->count("warnings_printed"); }
            if (bi >= 0) { if (warn) w->viol(std::string("warning:on-known-release:") + shape, "releasing a SimpleString buffer the cache handed out printed the unknown-buffer warning"); }
            else {
                if (!warn && before == 0) w->viol(std::string("warning:missing:") + shape, "first release of a buffer the cache does not know printed nothing");
                if (warn && before >= 1) w->viol(std::string("warning:repeated:") + shape, "a second warning was printed by the same cache");
                w->count(before == 0 ? "unknown_release_first" : "unknown_release_after_warning");
            }
        }
        depth--;
    }
};

struct PStr { SimpleString* s; std::string m; };

static std::string rand_text(vf::Rng& r, size_t len) {
    static const char AL[] = "abcdefgh XYZ012_-";
    std::string t; t.reserve(len);
    for (size_t i = 0; i < len; i++) t += AL[r.below(sizeof(AL) - 1)];
    return t;
}
static size_t traffic_len(vf::Rng& r) {
    if (r.chance(55)) { int v = LATTICE[r.below(NLAT)]; return v > 0 ? (size_t) v - 1 : 0; }     // buffer = length + 1 sits on a boundary
    if (r.chance(70)) return (size_t) r.range(0, 140);
    return (size_t) r.range(0, 700);
}

static void sec_global(vf::Ctx& c) {
    // the whole case is a pure function of the rng: generate the traffic script first
    struct TOp { int k; int a; int b; std::string t; };
    std::vector<TOp> ops;
    vf::Rng& r = c.rng;
    int npre = r.chance(60) ? r.range(1, 4) : 0;
    std::vector<std::string> pre_text;
    for (int i = 0; i < npre; i++) pre_text.push_back("pre" + std::to_string(i) + ":" + rand_text(r, traffic_len(r) % 300));
    int nops = r.range(10, 250);
    int pool = 0;               // generator's count of pool strings
    int pre_alive = npre;
    std::vector<size_t> lens;   // model lengths
    for (int n = 0; n < nops; n++) {
        int x = (int) r.below(100);
        if (pool == 0 || (x < 30 && pool < 40)) { size_t L = traffic_len(r); ops.push_back({ 0, 0, 0, rand_text(r, L) }); lens.push_back(L); pool++; continue; }
        int a = (int) r.below((uint64_t) pool), b = (int) r.below((uint64_t) pool);
        if (x < 40 && pool < 40) { ops.push_back({ 1, a, 0, "" }); lens.push_back(lens[(size_t) a]); pool++; }
        else if (x < 50) { ops.push_back({ 2, a, b, "" }); lens[(size_t) a] = lens[(size_t) b]; }
        else if (x < 62) { if (lens[(size_t) a] + lens[(size_t) b] > 1500) { ops.push_back({ 8, 0, 0, "" }); continue; } ops.push_back({ 3, a, b, "" }); lens[(size_t) a] += lens[(size_t) b]; }
        else if (x < 68) { size_t L = lens[(size_t) a]; if (L < 2) { ops.push_back({ 8, 0, 0, "" }); continue; } int pos = r.range(0, (int) L - 1); int amt = r.range(0, (int) L - pos); ops.push_back({ 4, a, pos, std::to_string(amt) }); lens[(size_t) a] = (size_t) amt; }
        else if (x < 88) { ops.push_back({ 5, a, 0, "" }); lens.erase(lens.begin() + a); pool--; }
        else if (x < 92 && pool < 40) { int v = r.range(-5000, 5000); ops.push_back({ 6, a, v, "" }); lens.push_back(lens[(size_t) a] + 1 + std::to_string(v).size()); pool++; }
        else if (x < 96 && pre_alive > 0) { ops.push_back({ 7, npre - pre_alive, 0, "" }); pre_alive--; }
        else ops.push_back({ 8, 0, 0, "" });
    }
    bool pre_survive = r.chance(50);      // remaining "pre" strings are destroyed after the cache (true) or while it is installed (false)
    std::string sig;
    { char b[48]; for (const TOp& o : ops) { snprintf(b, sizeof b, "%d.%d.%d.%zu ", o.k, o.a, o.b, o.t.size()); sig += b; } }
    c.begin([=] {
        std::vector<std::string> items;
        static const char* KN[] = { "new", "copy", "assign", "append", "substring", "delete", "format", "delete-pre", "verify" };
        for (const TOp& o : ops) items.push_back(vf::J().k("op", KN[o.k]).k("a", o.a).k("b", o.b).k("text", o.t.size() > 40 ? o.t.substr(0, 40) + "..." : o.t).k("len", (unsigned long) o.t.size()).str());
        return vf::J().k("pre_strings", npre).k("pre_survive_cache", pre_survive).raw("traffic", vf::jarr(items)).str();
    });

    World w(&c); W = &w;
    arm_budget(true);
    void (*saved_fputs)(const char*, PlatformSpecificFile) = PlatformSpecificFPuts;
    PlatformSpecificFPuts = capture_fputs;
    g_cap.clear(); g_fx = nullptr;
    TestMemoryAllocator* orig = SimpleString::getStringAllocator();
    SimpleString::setStringAllocator(&w.rec);
    w.rec.owner_now = OWNER_FOREIGN;
    std::vector<SimpleString*> pre;
    for (int i = 0; i < npre; i++) pre.push_back(new SimpleString(pre_text[(size_t) i].c_str()));
    for (auto& kv : w.rec.live) w.foreign_iv[kv.first] = kv.second.n;
    w.rec.owner_now = OWNER_CACHE;
    {
        w.op = "install";
        GlobalSimpleStringCache* g = new GlobalSimpleStringCache;
        if (SimpleString::getStringAllocator() != g->getAllocator()) w.viol("global:allocator-not-installed", "SimpleString does not use the cache allocator after GlobalSimpleStringCache was constructed");
        Interposer ip(g->getAllocator(), &w);
        SimpleString::setStringAllocator(&ip);
        std::vector<PStr> P;
        auto check = [&](size_t i, const char* when) {
            const char* got = P[i].s->asCharString();
            if (P[i].m != got) w.viol("global:string-content-changed", std::string("a live SimpleString no longer holds its text (") + when + "): expected " + std::to_string(P[i].m.size()) + " chars, strlen now " + std::to_string(strlen(got)));
        };
        auto check_all = [&](const char* when) { for (size_t i = 0; i < P.size(); i++) check(i, when); };
        w.op = "traffic";
        for (const TOp& o : ops) {
            switch (o.k) {
            case 0: { PStr p; p.s = new SimpleString(o.t.c_str()); p.m = o.t; P.push_back(p); c.count("traffic_new"); break; }
            case 1: { PStr p; p.s = new SimpleString(*P[(size_t) o.a].s); p.m = P[(size_t) o.a].m; P.push_back(p); c.count("traffic_copy"); break; }
            case 2: { *P[(size_t) o.a].s = *P[(size_t) o.b].s; P[(size_t) o.a].m = P[(size_t) o.b].m; c.count("traffic_assign"); break; }
            case 3: { std::string add = P[(size_t) o.b].m; *P[(size_t) o.a].s += *P[(size_t) o.b].s; P[(size_t) o.a].m += add; c.count("traffic_append"); break; }
            case 4: { size_t amt = (size_t) atol(o.t.c_str()); *P[(size_t) o.a].s = P[(size_t) o.a].s->subString((size_t) o.b, amt); P[(size_t) o.a].m = P[(size_t) o.a].m.substr((size_t) o.b, amt); c.count("traffic_substring"); break; }
            case 5: { check((size_t) o.a, "before delete"); delete P[(size_t) o.a].s; P.erase(P.begin() + o.a); c.count("traffic_delete"); break; }
            case 6: { PStr p; p.s = new SimpleString(StringFromFormat("%s|%d", P[(size_t) o.a].s->asCharString(), o.b)); p.m = P[(size_t) o.a].m + "|" + std::to_string(o.b); P.push_back(p); c.count("traffic_format"); break; }
            case 7: { delete pre[(size_t) o.a]; pre[(size_t) o.a] = nullptr; c.count("traffic_delete_foreign_string"); break; }
            default: check_all("at a verification point"); break;
            }
        }
        check_all("at the end of the traffic");
        while (!P.empty()) { delete P.back().s; P.pop_back(); }
        if (!pre_survive) for (size_t i = 0; i < pre.size(); i++) if (pre[i]) { delete pre[i]; pre[i] = nullptr; c.count("traffic_delete_foreign_string"); }
        // every SimpleString that used the cache is gone: the destructor restores the allocator and clears everything
        size_t o0 = out_len();
        w.forget_all();
        w.op = "global-destroy";
        delete g;
        if (out_len() != o0) w.viol("output-during:global-destroy", "the cache printed during destruction");
        if (SimpleString::getStringAllocator() != &w.rec) c.count("global_destructor_did_not_restore_allocator");
        w.check_all_returned("global-destroy");
    }
    SimpleString::setStringAllocator(&w.rec);
    w.op = "after-cache";
    for (size_t i = 0; i < pre.size(); i++) if (pre[i]) { delete pre[i]; pre[i] = nullptr; }
    SimpleString::setStringAllocator(orig);
    PlatformSpecificFPuts = saved_fputs;
    size_t leaked_foreign = 0;
    for (auto& kv : w.rec.live) if (kv.second.owner == OWNER_FOREIGN) leaked_foreign++;
    if (leaked_foreign) c.count("foreign_strings_ignored_by_the_cache_and_freed_by_the_harness", leaked_foreign);
    if (w.nontrivial) c.nontrivial("global:" + sig);
    if (w.warnings) c.count("histories_with_a_warning");
    c.count("global_cache_lifetimes");
    c.count("underlying_alloc_calls", w.rec.n_alloc);
    c.count("underlying_free_calls", w.rec.n_free);
    w.rec.cleanup();
    arm_budget(false);
    W = nullptr;
}

static void init() {
    UtestShell::getCurrent();    // construct the "outside test runner" shell before any cache is installed
    struct sigaction sa; memset(&sa, 0, sizeof sa);
    sa.sa_handler = on_cpu_budget;
    sigaction(SIGVTALRM, &sa, nullptr);
}

int main(int argc, char** argv) {
    // The harness' own containers (tens of thousands of map nodes in the long-list histories) must not pass through cpputest's
    // leak-detecting operator new (73-bucket table: every delete walks a bucket); the string cache does not depend on it.
    MemoryLeakWarningPlugin::turnOffNewDeleteOverloads();
    init_pairs();
    std::vector<vf::Section> S = {
        { "size_sweep", SWEEP_N, SWEEP_N, sec_sweep, true },
        { "same_class_size_pairs", pair_total, pair_total, sec_pairs, true },
        { "histories", 30000, 400000, sec_histories, false },
        { "global_cache_traffic", 8000, 100000, sec_global, false },
        { "long_lists", 96, 720, sec_long, false },
        { "reentrant_matrix", RM_N, RM_N, sec_rmatrix, true },
        { "reentrant_histories", 10000, 150000, sec_reentrant, false },
    };
    return vf::harness_main(argc, argv, S, init);
}
