// C02 — every selected test runs exactly once per repetition; selection follows filters;
//        reverse / shuffle only permute; group notifications stay balanced.
//
// Oracle: an independent model (std::string) of filter acceptance and of the selection rule, per-test
// execution counters inside scripted shells, the TestResult counters, a recording TestOutput whose
// callback sequence is parsed against the grammar  TestsStarted (GroupStart (TestStart TestEnd)* GroupEnd)* TestsEnded,
// and a walk of the registry's linked list after every relinking operation. Histories: repetitions on one registry, several
// CommandLineTestRunner invocations on one registry, and a registry driven through its own setters (group / name filter lists exchanged
// independently between runs, unDoLastAddTest / addTest between runs). Filter modes are requested once or repeatedly on the same object.
#include "verif.h"
#include <deque>
#include <memory>
#include <climits>

#include "CppUTest/TestHarness.h"
#include "CppUTest/TestRegistry.h"
#include "CppUTest/TestOutput.h"
#include "CppUTest/TestResult.h"
#include "CppUTest/TestFilter.h"
#include "CppUTest/CommandLineTestRunner.h"
#include "CppUTest/PlatformSpecificFunctions.h"

// ---------------------------------------------------------------- case description
struct TestSpec { const char* group; const char* name; bool ignored; bool fails; };
struct FilterSpec {
    const char* text; bool strict; bool invert;
    // how the modes are REQUESTED: strictMatching() is called 1 + s_extra times when strict, invertMatching() 1 + x_extra times when invert;
    // the calls are interleaved by the bits of 'order' (bit set: the next call is invertMatching() while both kinds are left).
    // TestFilter has no call that takes a mode back: a mode is on iff it was requested at least once (see assumptions).
    unsigned char s_extra = 0, x_extra = 0, order = 0;
};
enum OpKind { OP_REVERSE, OP_SHUFFLE };
struct OpSpec { int kind; uint64_t seed; };
struct Phase {                         // one repetition: optional reconfiguration, order operations, then one run
    bool change_filters = false;       // (the first phase always installs its filters)
    std::vector<FilterSpec> gf, nf;
    bool set_run_ignored = false;
    std::vector<OpSpec> ops;
};
struct Case {
    std::vector<TestSpec> tests;       // in registration order
    std::vector<Phase> phases;
    int rand_mode = 0;                 // 0: real srand/rand; >0: scripted PlatformSpecificRand (see stub_rand)
    uint64_t rand_seed = 0;
};
enum MutKind { MU_SET_G, MU_SET_N, MU_NULL_G, MU_NULL_N, MU_SAME_G, MU_SAME_N, MU_MODIFY_G, MU_MODIFY_N, MU_REVERSE, MU_SHUFFLE, MU_UNDO, MU_ADD, MU_RUN_IGNORED };
struct Mut {                           // one operation on a live registry between two runs
    int kind = 0;
    std::vector<FilterSpec> list;      // MU_SET_*: the new (non-empty) list
    uint64_t seed = 0;                 // MU_SHUFFLE
    size_t which = 0;                  // MU_MODIFY_*: which filter of the installed list; MU_ADD: which of the unregistered tests
    int how = 0;                       // MU_MODIFY_*: 0 strictMatching() on that filter, 1 invertMatching() on it, 2 a new filter in front
    FilterSpec extra{ "", false, false };
};
struct SetterCase {                    // a history of runs on ONE registry driven through its own setters
    std::vector<TestSpec> tests;
    size_t held_back = 0;              // the last tests are created but not registered at first (addTest brings them in later)
    std::vector<std::vector<Mut>> phases;   // operations before each run
};
struct Invocation {                    // one CommandLineTestRunner built from one argv
    std::vector<FilterSpec> gf, nf;
    bool run_ignored = false, reverse = false;
    uint64_t shuffle_seed = 0;         // 0: no shuffling
    int repeat = 1;
    std::vector<std::string> argv;
};
struct RunnerCase {                    // a history of invocations on ONE registry
    std::vector<TestSpec> tests;
    std::vector<Invocation> inv;
    bool destroy_runners = true;       // true: every runner (owner of its filter lists) is destroyed before the next invocation, as
                                       // CommandLineTestRunner::RunAllTests does; false: all runners stay alive until the registry is gone
};

// small alphabet: substring / equality / prefix / case relations are frequent
// "AAB" / "AAAB" / "ABABB": an occurrence that starts inside a failed partial match (self-overlapping prefix)
static const char* const K[] = { "A", "B", "AB", "BA", "ABA", "AA", "BB", "ABAB", "BAB", "a", "Ab", "A B", "A.B", "\xC3\x84" "B", "AB\xFF", "", "AAB", "AAAB", "ABB", "ABABB" };
static const size_t NK = sizeof(K) / sizeof(K[0]);
static const char* const K2[] = { "A", "B", "AB", "BA", "ABA", "", "AAB", "AAAB" };
static const size_t NK2 = sizeof(K2) / sizeof(K2[0]);
static const char* const K3[] = { "A", "B", "AB" };
static const size_t NK3 = 3;
// strings that are safe to put on a command line in attached and separated form (non-empty, no leading '-')
static const char* const KR[] = { "A", "B", "AB", "BA", "ABA", "AA", "ABAB", "a", "Ab", "A B", "A.B", "AB\xFF", "AAB", "AAAB", "ABB", "ABABB" };
static const size_t NKR = sizeof(KR) / sizeof(KR[0]);

// Strings with bytes >= 0x80 (UTF-8 sequences as in non-English group / test names, single Latin-1 bytes, 0x7F next to 0x80): the words are
// chosen so that MANY pairs agree up to and including such a byte and differ only after it ("caf\xC3\xA9" / "caf\xC3\xA8" / "caf\xC3",
// "\xE2\x82\xAC" / "\xE2\x82\xAD", "AB\xFF" "A" / "AB\xFF" "B"), or differ only in the top bit of one byte ("\xC3\xA9" / "C)"), next to
// plain prefixes ("caf", "A", "AB"). All words are non-empty and do not start with '-': the same alphabet serves the command-line sections.
static const char* const KH[] = { "caf\xC3\xA9", "caf\xC3\xA8", "caf\xC3", "caf", "\xC3\xA9", "\xC3\xA8", "\xC3", "\xA9", "\xC3\xA9\xC3\xA9", "\xC3\xA9\xC3\xA8",
                                  "A\xC3\xA9" "B", "A\xC3\xA9", "\xE2\x82\xAC", "\xE2\x82\xAD", "\xE2\x82", "\xFF", "\x80", "\xFF\xFE", "\xFF" "A", "\xFF" "B",
                                  "AB\xFF", "AB\xFF" "A", "AB\xFF" "B", "\x7F", "C)", "A", "AB" };
static const size_t NKH = sizeof(KH) / sizeof(KH[0]);
struct Alphabet { const char* const* words; size_t n; bool non_ascii; };

// ---------------------------------------------------------------- the model (independent of cpputest)
static bool m_accept(const FilterSpec& f, const char* s) {
    std::string S(s), F(f.text);
    bool m = f.strict ? (S == F) : (S.find(F) != std::string::npos);
    return f.invert ? !m : m;
}
static bool m_any(const std::vector<FilterSpec>& fs, const char* s) {
    if (fs.empty()) return true;
    for (const FilterSpec& f : fs) if (m_accept(f, s)) return true;
    return false;
}
static bool m_selected(const std::vector<FilterSpec>& gf, const std::vector<FilterSpec>& nf, const TestSpec& t) {
    return m_any(gf, t.group) && m_any(nf, t.name);
}
static std::string shape(const FilterSpec& f) {
    return std::string(f.strict ? "strict" : "substring") + (f.invert ? "+invert" : "");
}
static bool repeated_requests(const FilterSpec& f) { return (f.strict && f.s_extra) || (f.invert && f.x_extra); }
static std::string requests(const FilterSpec& f) {          // human readable, for descriptions and details
    if (!repeated_requests(f)) return "";
    return std::string("|strictMatching()x") + std::to_string(f.strict ? 1 + f.s_extra : 0) + ",invertMatching()x" + std::to_string(f.invert ? 1 + f.x_extra : 0) + ",order=" + std::to_string(f.order);
}
static bool has_high_byte(const char* s) { for (; *s; s++) if ((unsigned char) *s >= 0x80) return true; return false; }
// the pattern does not occur in the target, but at some position of the target the two agree up to and including the pattern's first byte >= 0x80
// (a comparison that is only right for 7-bit characters gets exactly these pairs wrong)
static bool diverges_after_shared_high_byte(const char* pat, const char* tgt) {
    std::string F(pat), S(tgt);
    size_t h = 0;
    while (h < F.size() && (unsigned char) F[h] < 0x80) h++;
    if (h == F.size() || S.find(F) != std::string::npos) return false;
    return S.find(F.substr(0, h + 1)) != std::string::npos;
}
static std::string relation(const FilterSpec& f, const char* s) {
    std::string S(s), F(f.text);
    if (F.empty()) return "pattern-empty";
    if (S == F) return "pattern-equals-target";
    if (S.find(F) != std::string::npos) return "pattern-proper-substring-of-target";
    if (diverges_after_shared_high_byte(f.text, s)) return "pattern-not-in-target:diverges-after-a-shared-non-ascii-byte";
    return "pattern-not-in-target";
}

// ---------------------------------------------------------------- instrumentation
enum EvKind { E_RUNHDR, E_TESTS_START, E_TESTS_END, E_GS, E_GE, E_TS, E_TE, E_SETUP, E_BODY, E_TEARDOWN, E_FAILURE };
struct Ev { int kind; int idx; size_t a, b, c, d; };

// Thrown from TestOutput callbacks only (they are called from TestRegistry::runAllTests, outside every test's try/catch) to leave a run
// that cannot be judged any further: the list is already broken (a cyclic list would never finish) or the run does not stop.
struct AbortRun { int why; };

struct World {
    const std::vector<TestSpec>* specs = nullptr;
    std::vector<UtestShell*> shells;                               // by index (registration order)
    std::vector<std::pair<const UtestShell*, int>> by_addr;         // sorted
    std::vector<int> setup, body, teardown, created;
    std::vector<Ev> log;
    TestRegistry* reg = nullptr;
    bool snapshot_at_start = true;
    size_t log_cap = 0;
    void guard() const { if (log.size() > log_cap) throw AbortRun{ 2 }; }
    std::vector<std::vector<int>> snapshots;                       // list order at every TestsStarted (runner mode)
    std::vector<int> snapshot_status;                               // 0 ok, else walk problem
    int lookup(const UtestShell* p) const {
        auto it = std::lower_bound(by_addr.begin(), by_addr.end(), std::make_pair(p, INT_MIN));
        if (it != by_addr.end() && it->first == p) return it->second;
        return -1;
    }
};
static World* g_w = nullptr;
static void ev(int kind, int idx = -1, size_t a = 0, size_t b = 0, size_t c = 0, size_t d = 0) { g_w->log.push_back(Ev{ kind, idx, a, b, c, d }); }

class CTest : public Utest {
    int i_;
public:
    explicit CTest(int i) : i_(i) {}
    void setup() override { g_w->setup[i_]++; ev(E_SETUP, i_); }
    void testBody() override {
        g_w->body[i_]++; ev(E_BODY, i_);
        if ((*g_w->specs)[i_].fails) FAIL("scripted failure");
    }
    void teardown() override { g_w->teardown[i_]++; ev(E_TEARDOWN, i_); }
};
class NShell : public UtestShell {
    int i_;
public:
    NShell(const char* g, const char* n, int i) : UtestShell(g, n, "c02_scripted.cpp", 1000 + (size_t) i), i_(i) {}
    Utest* createTest() override { g_w->created[i_]++; return new CTest(i_); }
};
class IShell : public IgnoredUtestShell {
    int i_;
public:
    IShell(const char* g, const char* n, int i) : IgnoredUtestShell(g, n, "c02_scripted.cpp", 1000 + (size_t) i), i_(i) {}
    Utest* createTest() override { g_w->created[i_]++; return new CTest(i_); }
};

// walk the registry's list; status 0 ok, 1 foreign node, 2 duplicate, 3 longer than N, 4 shorter than N
static int walk_list(World& w, std::vector<int>& order, size_t expect = (size_t) -1) {
    order.clear();
    size_t n = w.shells.size();
    std::vector<char> seen(n + 1, 0);
    size_t steps = 0;
    if (expect != (size_t) -1) n = expect;                  // (setter histories: only a subset of the shells is registered)
    for (UtestShell* t = w.reg->getFirstTest(); t != nullptr; t = t->getNext()) {
        if (steps == n) return 3;
        int i = w.lookup(t);
        if (i < 0) return 1;
        if (seen[(size_t) i]) return 2;
        seen[(size_t) i] = 1;
        order.push_back(i);
        steps++;
    }
    return steps == n ? 0 : 4;
}
static const char* walk_word(int st) {
    switch (st) { case 1: return "foreign-node-in-list"; case 2: return "test-duplicated"; case 3: return "walk-longer-than-N"; case 4: return "test-lost"; default: return "ok"; }
}

class RecOutput : public TestOutput {
public:
    void printTestsStarted() override {
        ev(E_TESTS_START);
        if (g_w->reg && g_w->snapshot_at_start) {
            std::vector<int> o; int st = walk_list(*g_w, o); g_w->snapshots.push_back(o); g_w->snapshot_status.push_back(st);
            if (st != 0) throw AbortRun{ 1 };
        }
    }
    void printTestsEnded(const TestResult& r) override { ev(E_TESTS_END, -1, r.getTestCount(), r.getRunCount(), r.getIgnoredCount(), r.getFilteredOutCount()); }
    void printCurrentTestStarted(const UtestShell& t) override { ev(E_TS, g_w->lookup(&t)); g_w->guard(); }
    void printCurrentTestEnded(const TestResult&) override { ev(E_TE); g_w->guard(); }
    void printCurrentGroupStarted(const UtestShell& t) override { ev(E_GS, g_w->lookup(&t)); g_w->guard(); }
    void printCurrentGroupEnded(const TestResult&) override { ev(E_GE); g_w->guard(); }
    void printBuffer(const char*) override {}
    void print(const char*) override {}
    void print(long) override {}
    void print(size_t) override {}
    void printDouble(double) override {}
    void printFailure(const TestFailure&) override { ev(E_FAILURE); }
    void printTestRun(size_t number, size_t total) override { ev(E_RUNHDR, -1, number, total); }
    void printVeryVerbose(const char*) override {}
    void flush() override {}
};

// scripted PlatformSpecificRand
static int g_rand_mode = 0; static size_t g_rand_n = 0, g_rand_calls = 0, g_srand_calls = 0; static vf::Rng* g_rand_rng = nullptr;
static void stub_srand(unsigned int) { g_srand_calls++; g_rand_calls = 0; }
static int stub_rand() {
    size_t k = g_rand_calls++;
    long i = (long) g_rand_n - 1 - (long) k;               // Fisher-Yates position this call is (probably) for
    if (i < 0) i = 0;
    long v;
    int mode = g_rand_mode;
    if (mode == 6) mode = 1 + (int) g_rand_rng->below(5);
    switch (mode) {
    case 1: v = 0; break;
    case 2: v = RAND_MAX; break;
    case 3: v = i; break;                                   // j == i
    case 4: v = i + 1; break;                               // j == 0 through the modulo; j == i+1 if the bound is off by one
    default: v = (long) (g_rand_rng->next() % ((uint64_t) RAND_MAX + 1)); break;
    }
    if (v > RAND_MAX) v = RAND_MAX;
    return (int) v;
}

// ---------------------------------------------------------------- per-case checker
struct Checker {
    vf::Ctx& c;
    World& w;
    std::set<std::string> reported;
    Checker(vf::Ctx& cc, World& ww) : c(cc), w(ww) {}
    void viol(const std::string& key, const std::string& detail) { if (reported.insert(key).second) c.violation(key, detail); }
    std::string tname(int i) const {
        if (i < 0) return "<unknown shell>";
        const TestSpec& t = (*w.specs)[(size_t) i];
        return "#" + std::to_string(i) + "(" + t.group + "," + t.name + (t.ignored ? ",ignored" : "") + ")";
    }
    std::string ostr(const std::vector<int>& o) const {
        std::string s = "[";
        for (size_t k = 0; k < o.size() && k < 40; k++) { if (k) s += " "; s += std::to_string(o[k]); }
        if (o.size() > 40) s += " ...";
        return s + "]";
    }
};

struct FilterChain {
    std::deque<TestFilter> store;
    TestFilter* head = nullptr;
    explicit FilterChain(const std::vector<FilterSpec>& fs) {
        for (const FilterSpec& f : fs) push(f);
    }
    static void request_modes(TestFilter& t, const FilterSpec& f) {
        int sc = f.strict ? 1 + f.s_extra : 0, xc = f.invert ? 1 + f.x_extra : 0;
        unsigned o = f.order;
        while (sc || xc) {
            bool pick_x = xc && (!sc || (o & 1u));
            o >>= 1;
            if (pick_x) { t.invertMatching(); xc--; } else { t.strictMatching(); sc--; }
        }
    }
    void push(const FilterSpec& f) {                        // the new filter becomes the head of the list (deque: older elements do not move)
        store.emplace_back(f.text);
        request_modes(store.back(), f);
        head = store.back().add(head);
    }
};

// direct comparison of the real TestFilter::match / UtestShell::shouldRun with the model, for every test
static bool check_selection_functions(Checker& k, const std::vector<FilterSpec>& gf, const std::vector<FilterSpec>& nf, FilterChain& G, FilterChain& N) {
    const std::vector<TestSpec>& T = *k.w.specs;
    bool agrees = true;
    // evidence: what the filters with bytes >= 0x80 were confronted with (counted locally, flushed once per call)
    uint64_t hb_pairs = 0, hb_near = 0, hb_near_sub = 0, hb_accept = 0, hb_targets = 0;
    std::vector<const FilterSpec*> hb[2];
    for (const FilterSpec& f : gf) if (has_high_byte(f.text)) hb[0].push_back(&f);
    for (const FilterSpec& f : nf) if (has_high_byte(f.text)) hb[1].push_back(&f);
    for (size_t i = 0; i < T.size(); i++) {
        if (has_high_byte(T[i].group)) hb_targets++;
        if (has_high_byte(T[i].name)) hb_targets++;
        for (int role = 0; role < 2; role++) for (const FilterSpec* f : hb[role]) {
            const char* target = role ? T[i].name : T[i].group;
            hb_pairs++;
            if (diverges_after_shared_high_byte(f->text, target)) { hb_near++; if (!f->strict) hb_near_sub++; }
            else if (std::string(target).find(f->text) != std::string::npos) hb_accept++;
        }
    }
    if (hb_targets) k.c.count("group_or_name_strings_with_a_byte_above_0x7f_judged", hb_targets);
    if (hb_pairs) k.c.count("non_ascii_filter_x_target_pairs", hb_pairs);
    if (hb_accept) k.c.count("non_ascii_filter_x_target_pairs:filter_text_occurs_in_target", hb_accept);
    if (hb_near) k.c.count("non_ascii_filter_x_target_pairs:diverge_after_a_shared_non_ascii_byte", hb_near);
    if (hb_near_sub) k.c.count("non_ascii_substring_filter_x_target_pairs:diverge_after_a_shared_non_ascii_byte", hb_near_sub);
    if (!hb[0].empty() || !hb[1].empty()) k.c.count("filter_configurations_with_a_non_ascii_filter");
    for (size_t i = 0; i < T.size(); i++) {
        bool real = k.w.shells[i]->shouldRun(G.head, N.head);
        bool model = m_selected(gf, nf, T[i]);
        k.c.count("should_run_compared");
        if (real == model) continue;
        agrees = false;
        bool explained = false;
        for (int role = 0; role < 2 && !explained; role++) {
            const std::vector<FilterSpec>& fs = role ? nf : gf;
            FilterChain& ch = role ? N : G;
            const char* target = role ? T[i].name : T[i].group;
            for (size_t f = 0; f < fs.size() && !explained; f++) {
                bool rm = ch.store[f].match(target), mm = m_accept(fs[f], target);
                if (rm != mm && repeated_requests(fs[f])) {
                    // the same modes requested once each on a fresh filter: if that filter follows the model, the defect is in what a
                    // REPEATED request does to a filter, not in the matching itself
                    TestFilter once(fs[f].text);
                    if (fs[f].strict) once.strictMatching();
                    if (fs[f].invert) once.invertMatching();
                    if (once.match(target) == mm) {
                        k.viol("filter-mode-requested-repeatedly-differs-from-requested-once:" + shape(fs[f]) + ":" +
                                   (fs[f].strict && fs[f].s_extra ? (fs[f].invert && fs[f].x_extra ? "strict-and-invert-repeated" : "strict-repeated") : "invert-repeated"),
                               std::string("TestFilter(\"") + fs[f].text + "\") " + requests(fs[f]) + " match(\"" + target + "\") = " + (rm ? "true" : "false") + ", the same filter with each mode requested once and the model: " + (mm ? "true" : "false"));
                        explained = true;
                        continue;
                    }
                }
                if (rm != mm) {
                    k.viol("filter-match-wrong:" + shape(fs[f]) + ":" + relation(fs[f], target),
                           std::string("TestFilter(\"") + fs[f].text + "\")." + shape(fs[f]) + " match(\"" + target + "\") = " + (rm ? "true" : "false") + ", model " + (mm ? "true" : "false"));
                    explained = true;
                }
            }
            if (explained) break;
            bool rl = role ? k.w.shells[i]->shouldRun(nullptr, ch.head) : k.w.shells[i]->shouldRun(ch.head, nullptr);
            bool ml = m_any(fs, target);
            if (rl != ml) {
                k.viol(std::string("filter-list-wrong:") + (role ? "name" : "group") + (ml ? ":some-filter-accepts-but-list-rejects" : ":no-filter-accepts-but-list-accepts"),
                       "list of " + std::to_string(fs.size()) + " filters on \"" + target + "\": real " + (rl ? "accepts" : "rejects") + ", model " + (ml ? "accepts" : "rejects") + " for test " + k.tname((int) i));
                explained = true;
            }
        }
        if (!explained) {
            bool ga = m_any(gf, T[i].group), na = m_any(nf, T[i].name);
            k.viol(std::string("should-run-wrong:group-") + (ga ? "accepted" : "rejected") + ":name-" + (na ? "accepted" : "rejected"),
                   "shouldRun = " + std::string(real ? "true" : "false") + " for test " + k.tname((int) i) + " although each side agrees with the model");
        }
    }
    return agrees;
}

// judge the events of ONE repetition (log[from,to)) against the model
struct RunExpect {
    const std::vector<int>* order;                 // list order during the run
    const std::vector<FilterSpec>* gf; const std::vector<FilterSpec>* nf;
    bool run_ignored;
    bool shouldrun_agrees;                         // real shouldRun agreed with the model for every test (else selection keys were already raised)
    const char* where;                             // "direct" / "runner"
    // diagnosis only (later invocations of a runner history): the lists that would be in force if a list kind that this invocation
    // does not give were left over from the latest earlier invocation that gave one; null when that is the same as gf/nf
    const std::vector<FilterSpec>* leftover_gf = nullptr; const std::vector<FilterSpec>* leftover_nf = nullptr;
    const char* leftover_kinds = "";
    // setter histories: which shells are registered right now (null: all), and what was done to the filter lists since the previous run
    const std::vector<char>* present = nullptr;
    std::string history_tag;
};
static std::string filters_json(const std::vector<FilterSpec>& F);
static void check_run(Checker& k, const RunExpect& x, size_t from, size_t to, const std::vector<int>& body_before) {
    World& w = k.w; vf::Ctx& c = k.c;
    const std::vector<TestSpec>& T = *w.specs;
    size_t n = T.size();
    std::vector<char> sel(n), present(n, 1);
    if (x.present) present = *x.present;
    size_t n_reg = 0;
    for (size_t i = 0; i < n; i++) { sel[i] = present[i] && m_selected(*x.gf, *x.nf, T[i]); if (present[i]) n_reg++; }

    // ---- grammar
    int state = 0;                                   // 0 before TestsStarted, 1 between groups, 2 in group, 3 in test, 4 after TestsEnded
    int cur_group = -1, cur_test = -1;
    size_t segments = 0;
    std::vector<int> ts_seq, body_seq;
    std::vector<int> ts_cnt(n, 0);
    const Ev* endev = nullptr;
    for (size_t e = from; e < to; e++) {
        const Ev& E = w.log[e];
        switch (E.kind) {
        case E_RUNHDR: break;
        case E_TESTS_START:
            if (state != 0) k.viol("callbacks:tests-started-repeated", "TestsStarted in state " + std::to_string(state));
            state = 1; break;
        case E_TESTS_END:
            if (state == 2 || state == 3) k.viol("callbacks:tests-ended-with-open-group", "TestsEnded while group of " + k.tname(cur_group) + " is still open (group start/end unbalanced)");
            else if (state != 1) k.viol("callbacks:tests-ended-misplaced", "TestsEnded in state " + std::to_string(state));
            state = 4; endev = &E; break;
        case E_GS:
            if (E.idx < 0) k.viol("callbacks:group-start-with-foreign-shell", "GroupStart carries a shell that was never registered");
            if (state == 2 || state == 3) k.viol("callbacks:group-start-while-group-open", "GroupStart(" + k.tname(E.idx) + ") while group of " + k.tname(cur_group) + " is still open");
            else if (state != 1) k.viol("callbacks:group-start-outside-run", "GroupStart in state " + std::to_string(state));
            cur_group = E.idx; state = 2; break;
        case E_GE:
            if (state == 1) k.viol("callbacks:group-end-without-start", "GroupEnd without an open group (after " + std::to_string(segments) + " groups)");
            else if (state == 3) k.viol("callbacks:group-end-inside-test", "GroupEnd while test " + k.tname(cur_test) + " is open");
            else if (state != 2) k.viol("callbacks:group-end-outside-run", "GroupEnd in state " + std::to_string(state));
            segments++; state = 1; break;
        case E_TS:
            if (E.idx < 0) k.viol("callbacks:test-start-with-foreign-shell", "TestStart carries a shell that was never registered");
            if (state == 1 || state == 0 || state == 4) k.viol("callbacks:test-start-outside-group", "TestStart(" + k.tname(E.idx) + ") with no group open");
            else if (state == 3) k.viol("callbacks:test-start-while-test-open", "TestStart(" + k.tname(E.idx) + ") while " + k.tname(cur_test) + " is open");
            else if (E.idx >= 0 && cur_group >= 0 && std::string(T[(size_t) E.idx].group) != T[(size_t) cur_group].group)
                k.viol("callbacks:test-inside-foreign-group", "TestStart(" + k.tname(E.idx) + ") inside the group opened for " + k.tname(cur_group));
            cur_test = E.idx; state = 3;
            if (E.idx >= 0) { ts_seq.push_back(E.idx); ts_cnt[(size_t) E.idx]++; }
            break;
        case E_TE:
            if (state != 3) k.viol("callbacks:test-end-without-start", "TestEnd in state " + std::to_string(state));
            state = (state == 3) ? 2 : state; cur_test = -1; break;
        case E_SETUP: case E_BODY: case E_TEARDOWN:
            if (state != 3 || cur_test != E.idx) k.viol("callbacks:test-code-outside-its-start-end", "code of " + k.tname(E.idx) + " executed while the open test is " + k.tname(cur_test));
            if (E.kind == E_BODY) body_seq.push_back(E.idx);
            break;
        default: break;
        }
    }
    if (state != 4) k.viol("callbacks:tests-ended-missing", "run finished in state " + std::to_string(state));

    // ---- expected start sequence / execution counts
    std::vector<int> exp_ts;
    for (int i : *x.order) if (sel[(size_t) i]) exp_ts.push_back(i);
    size_t exp_run = 0, exp_ign = 0, exp_filt = 0;
    for (size_t i = 0; i < n; i++) {
        if (!present[i]) continue;
        if (!sel[i]) exp_filt++;
        else if (T[i].ignored && !x.run_ignored) exp_ign++;
        else exp_run++;
    }
    bool counts_ok = true;
    // A later invocation on the same registry whose started-set is exactly what the filters of an EARLIER invocation select
    // (and not what its own filters select): one key for the history defect instead of one per symptom.
    bool leftover_explains = false;
    if (x.leftover_gf && x.leftover_nf && x.shouldrun_agrees) {
        bool differs = false, matches = true; int witness = -1; size_t ndiff = 0;
        for (size_t i = 0; i < n; i++) {
            bool s2 = m_selected(*x.leftover_gf, *x.leftover_nf, T[i]);
            if (s2 != (bool) sel[i]) { differs = true; ndiff++; if (witness < 0) witness = (int) i; }
            if (ts_cnt[i] != (s2 ? 1 : 0)) matches = false;
        }
        if (differs) c.count("later_invocation_repetitions_where_leftover_filters_would_change_the_selection");
        if (differs && matches && ndiff >= 2) {                 // (one differing test is too easily a coincidence with some other defect: generic keys then)
            leftover_explains = true; counts_ok = false;
            k.viol(std::string("runner-history:selection-follows-filters-of-an-earlier-invocation:") + x.leftover_kinds,
                   "this invocation gives group filters " + filters_json(*x.gf) + " and name filters " + filters_json(*x.nf) + " but exactly the tests selected by group filters " +
                   filters_json(*x.leftover_gf) + " and name filters " + filters_json(*x.leftover_nf) + " (left over from an earlier invocation on the same registry) were started; e.g. test " +
                   k.tname(witness) + " was started " + std::to_string(ts_cnt[(size_t) witness]) + " time(s)");
        }
    }
    for (size_t i = 0; i < n; i++) {
        if (leftover_explains) break;
        int exp_started = sel[i] ? 1 : 0;
        int exp_body = (sel[i] && (!T[i].ignored || x.run_ignored)) ? 1 : 0;
        int got_body = w.body[i] - body_before[i];
        if (ts_cnt[i] != exp_started) {
            counts_ok = false;
            if (!x.shouldrun_agrees) continue;      // the selection function itself is wrong: reported with a selection key
            if (!present[i]) k.viol("exec:unregistered-test-started", "test " + k.tname((int) i) + " is not in the registry (removed by unDoLastAddTest or never added) but was started " + std::to_string(ts_cnt[i]) + " time(s)");
            else if (!sel[i]) k.viol("exec:rejected-test-started" + x.history_tag, "test " + k.tname((int) i) + " is rejected by the filters (group " + filters_json(*x.gf) + ", name " + filters_json(*x.nf) + ") but was started " + std::to_string(ts_cnt[i]) + " time(s); list order " + k.ostr(*x.order));
            else if (ts_cnt[i] == 0) k.viol("exec:selected-test-never-started" + x.history_tag, "test " + k.tname((int) i) + " is selected (group filters " + filters_json(*x.gf) + ", name filters " + filters_json(*x.nf) + ") but was not started; list order " + k.ostr(*x.order));
            else k.viol("exec:selected-test-started-more-than-once", "test " + k.tname((int) i) + " started " + std::to_string(ts_cnt[i]) + " times in one repetition");
            continue;
        }
        if (got_body != exp_body) {
            counts_ok = false;
            if (!sel[i]) k.viol("exec:rejected-test-body-ran", "body of rejected test " + k.tname((int) i) + " ran " + std::to_string(got_body) + " time(s)");
            else if (T[i].ignored && !x.run_ignored) k.viol("exec:ignored-test-body-ran", "body of ignored test " + k.tname((int) i) + " ran " + std::to_string(got_body) + " time(s) without run-ignored");
            else if (T[i].ignored && got_body == 0) k.viol("exec:run-ignored-test-body-not-run", "run-ignored is on but the body of " + k.tname((int) i) + " did not run");
            else if (got_body == 0) k.viol("exec:started-test-body-not-run", "test " + k.tname((int) i) + " was started but its body did not run");
            else k.viol("exec:test-body-ran-more-than-once", "body of " + k.tname((int) i) + " ran " + std::to_string(got_body) + " times in one repetition");
        }
    }
    if (counts_ok && ts_seq != exp_ts)
        k.viol("run-order:differs-from-list-order", "started " + k.ostr(ts_seq) + " expected " + k.ostr(exp_ts) + " (list order restricted to the selected tests)");

    // ---- counters
    if (endev) {
        size_t tc = endev->a, rc = endev->b, ic = endev->c, fc = endev->d;
        std::string all = "tests=" + std::to_string(tc) + " run=" + std::to_string(rc) + " ignored=" + std::to_string(ic) + " filtered=" + std::to_string(fc) +
                          "; model tests=" + std::to_string(n_reg) + " run=" + std::to_string(exp_run) + " ignored=" + std::to_string(exp_ign) + " filtered=" + std::to_string(exp_filt);
        if (rc + ic + fc != tc) k.viol("counter-identity:run+ignored+filtered!=tests", all);
        if (tc != n_reg) k.viol("counter:test-count", all);
        if (x.shouldrun_agrees && counts_ok) {        // (when the execution itself deviates, that is the finding; the counters follow it)
            if (rc != exp_run) k.viol(std::string("counter:run-count:") + (rc > exp_run ? "too-high" : "too-low"), all);
            if (ic != exp_ign) k.viol(std::string("counter:ignored-count:") + (ic > exp_ign ? "too-high" : "too-low"), all);
            if (fc != exp_filt) k.viol(std::string("counter:filtered-out-count:") + (fc > exp_filt ? "too-high" : "too-low"), all);
        }
    }

    // ---- evidence
    size_t runs = 0;
    for (size_t p = 0; p < x.order->size(); p++) if (p == 0 || std::string(T[(size_t) (*x.order)[p]].group) != T[(size_t) (*x.order)[p - 1]].group) runs++;
    c.count(segments == runs ? "group_segments_equal_maximal_runs_of_group_names" : "group_segments_differ_from_maximal_runs");
    c.count("repetitions_judged");
    c.count("tests_registered_in_judged_repetitions", n_reg);
    c.count("tests_run", exp_run); c.count("tests_ignored", exp_ign); c.count("tests_filtered_out", exp_filt);
    c.count("group_segments", segments);
    if (exp_run + exp_ign == 0 && n_reg > 0) c.count("repetitions_selecting_nothing");
    if (x.run_ignored) c.count("repetitions_with_run_ignored");
    for (int i : body_seq) if (i >= 0 && T[(size_t) i].fails) c.count("failing_tests_run");
}

static void check_walk(Checker& k, int st, const char* after, const std::vector<int>& got) {
    if (st != 0) k.viol(std::string("list-walk:after-") + after + ":" + walk_word(st), "walk from getFirstTest() over " + std::to_string(k.w.shells.size()) + " registered tests: " + walk_word(st) + " after " + std::to_string(got.size()) + " steps " + k.ostr(got));
}

static void build_world(World& w, const std::vector<TestSpec>& tests, TestRegistry* reg, size_t n_register = (size_t) -1) {
    size_t n = tests.size();
    w.specs = &tests; w.reg = reg;
    w.shells.reserve(n); w.by_addr.reserve(n);
    w.setup.assign(n, 0); w.body.assign(n, 0); w.teardown.assign(n, 0); w.created.assign(n, 0);
    w.log.reserve(16 + n * 16);
    w.log_cap = 1024 + 16 * (n + 1) * 64;                  // far beyond what 64 repetitions could produce
    for (size_t i = 0; i < n; i++) {
        UtestShell* s = tests[i].ignored ? (UtestShell*) new IShell(tests[i].group, tests[i].name, (int) i) : (UtestShell*) new NShell(tests[i].group, tests[i].name, (int) i);
        w.shells.push_back(s);
        w.by_addr.push_back(std::make_pair((const UtestShell*) s, (int) i));
    }
    std::sort(w.by_addr.begin(), w.by_addr.end());
    for (size_t i = 0; i < n && i < n_register; i++) reg->addTest(w.shells[i]);
}
static void destroy_world(World& w) {
    for (UtestShell* s : w.shells) delete s;
    w.shells.clear();
}

static std::string tests_json(const std::vector<TestSpec>& T) {
    std::vector<std::string> v;
    for (const TestSpec& t : T) v.push_back(vf::jstr(std::string(t.group) + "|" + t.name + (t.ignored ? "|ignored" : "") + (t.fails ? "|fails" : "")));
    return vf::jarr(v);
}
static std::string filters_json(const std::vector<FilterSpec>& F) {
    std::vector<std::string> v;
    for (const FilterSpec& f : F) v.push_back(vf::jstr(std::string(f.text) + "|" + shape(f) + requests(f)));
    return vf::jarr(v);
}
static std::string filters_sig(const std::vector<FilterSpec>& F) {
    std::vector<std::string> v;
    for (const FilterSpec& f : F) v.push_back(std::string(f.text) + "\1" + shape(f) + requests(f));
    std::sort(v.begin(), v.end());
    std::string s;
    for (auto& x : v) { s += x; s += "\2"; }
    return s;
}
// a filter that accepts some and rejects some tests of this registry
static bool discriminating(const std::vector<FilterSpec>& F, const std::vector<TestSpec>& T, bool name_role) {
    for (const FilterSpec& f : F) {
        bool acc = false, rej = false;
        for (const TestSpec& t : T) { if (m_accept(f, name_role ? t.name : t.group)) acc = true; else rej = true; }
        if (acc && rej) return true;
    }
    return false;
}
static void count_filter_shapes(vf::Ctx& c, const std::vector<FilterSpec>& F, const char* role) {
    for (const FilterSpec& f : F) {
        c.count(std::string("filters_") + role + "_" + shape(f));
        if (repeated_requests(f)) c.count("filters_with_a_mode_requested_more_than_once");
        if (f.invert && f.x_extra) c.count((f.x_extra & 1) ? "filters_with_invertMatching_requested_an_even_number_of_times" : "filters_with_invertMatching_requested_an_odd_number_of_times_above_1");
        if (f.strict && f.s_extra) c.count("filters_with_strictMatching_requested_more_than_once");
    }
    c.count(std::string("filter_lists_") + role + "_of_" + std::to_string(F.size()));
}

// ---------------------------------------------------------------- executor: registry driven directly
static void exec_direct(vf::Ctx& c, std::shared_ptr<Case> cs, bool table_cell = false) {
    c.begin([cs] {
        std::vector<std::string> ph;
        for (const Phase& p : cs->phases) {
            std::vector<std::string> ops;
            for (const OpSpec& o : p.ops) ops.push_back(o.kind == OP_REVERSE ? vf::jstr("reverse") : vf::jstr("shuffle:" + std::to_string(o.seed)));
            ph.push_back(vf::J().k("change_filters", p.change_filters).raw("group_filters", filters_json(p.gf)).raw("name_filters", filters_json(p.nf)).k("set_run_ignored", p.set_run_ignored).raw("ops", vf::jarr(ops)).str());
        }
        return vf::J().raw("tests_in_registration_order", tests_json(cs->tests)).raw("repetitions", vf::jarr(ph)).k("rand_mode", cs->rand_mode).str();
    });
    const std::vector<TestSpec>& T = cs->tests;
    size_t n = T.size();
    World w; g_w = &w;
    Checker k(c, w);
    void (*saved_srand)(unsigned int) = PlatformSpecificSrand;
    int (*saved_rand)(void) = PlatformSpecificRand;
    vf::Rng stubrng(cs->rand_seed, 77, 0);
    if (cs->rand_mode) { g_rand_mode = cs->rand_mode; g_rand_n = n; g_rand_calls = 0; g_srand_calls = 0; g_rand_rng = &stubrng; PlatformSpecificSrand = stub_srand; PlatformSpecificRand = stub_rand; }
    {
        TestRegistry reg;
        build_world(w, T, &reg);
        w.snapshot_at_start = false;                        // the list is walked explicitly here; snapshots are for runner mode
        RecOutput out;
        std::vector<int> order, prev;
        int st = walk_list(w, order);
        check_walk(k, st, "registration", order);
        bool list_ok = st == 0;
        if (list_ok && reg.countTests() != n) k.viol("count-tests:after-registration", "countTests() = " + std::to_string(reg.countTests()) + " for " + std::to_string(n) + " registered tests");

        std::vector<std::unique_ptr<FilterChain>> chains;   // keep every chain alive until the registry is gone
        const std::vector<FilterSpec>* gf = nullptr; const std::vector<FilterSpec>* nf = nullptr;
        FilterChain* G = nullptr; FilterChain* N = nullptr;
        bool run_ignored = false, shouldrun_agrees = true;
        bool nontrivial = false;
        std::string sig = std::to_string(n) + "|";

        for (size_t pi = 0; pi < cs->phases.size() && list_ok; pi++) {
            const Phase& p = cs->phases[pi];
            if (pi == 0 || p.change_filters) {
                gf = &p.gf; nf = &p.nf;
                chains.emplace_back(new FilterChain(p.gf)); G = chains.back().get();
                chains.emplace_back(new FilterChain(p.nf)); N = chains.back().get();
                reg.setGroupFilters(G->head); reg.setNameFilters(N->head);
                shouldrun_agrees = check_selection_functions(k, *gf, *nf, *G, *N);
                count_filter_shapes(c, *gf, "group"); count_filter_shapes(c, *nf, "name");
                if (discriminating(*gf, T, false) || discriminating(*nf, T, true)) { nontrivial = true; c.count("configurations_with_discriminating_filter"); }
                sig += "F" + filters_sig(*gf) + "/" + filters_sig(*nf) + "|";
            }
            if (p.set_run_ignored) { reg.setRunIgnored(); run_ignored = true; sig += "RI|"; }
            for (const OpSpec& o : p.ops) {
                prev = order;
                if (o.kind == OP_REVERSE) { reg.reverseTests(); c.count("ops_reverse"); sig += "rev|"; }
                else { g_rand_calls = 0; reg.shuffleTests((size_t) o.seed); c.count("ops_shuffle"); sig += "shuf|"; }
                st = walk_list(w, order);
                check_walk(k, st, o.kind == OP_REVERSE ? "reverse" : "shuffle", order);
                if (st != 0) { list_ok = false; break; }
                if (reg.countTests() != n) k.viol(std::string("count-tests:after-") + (o.kind == OP_REVERSE ? "reverse" : "shuffle"), "countTests() = " + std::to_string(reg.countTests()) + " for " + std::to_string(n) + " registered tests");
                if (o.kind == OP_REVERSE) {
                    std::vector<int> r(prev.rbegin(), prev.rend());
                    if (order != r) k.viol("reverse:not-the-exact-reverse", "before " + k.ostr(prev) + " after " + k.ostr(order));
                } else {
                    if (order != prev) c.count("shuffles_that_changed_the_order"); else c.count("shuffles_that_kept_the_order");
                    if (n >= 2 && order[0] != prev[0]) c.count("shuffles_that_moved_the_first_test");
                    if (cs->rand_mode) c.count("stubbed_rand_calls", g_rand_calls);
                }
                if (n >= 3) { nontrivial = true; }
            }
            if (!list_ok) break;
            // ---- one repetition
            std::vector<int> body_before = w.body;
            size_t from = w.log.size();
            {
                TestResult res(out);
                try { reg.runAllTests(res); }
                catch (const AbortRun&) { k.viol("run-does-not-terminate:direct", "runAllTests produced more than " + std::to_string(w.log_cap) + " callbacks for " + std::to_string(n) + " tests"); list_ok = false; }
                size_t to = w.log.size();
                RunExpect x{ &order, gf, nf, run_ignored, shouldrun_agrees, "direct" };
                check_run(k, x, from, to, body_before);
                // the TestResult object itself (not only what the output saw)
                if (res.getRunCount() + res.getIgnoredCount() + res.getFilteredOutCount() != res.getTestCount())
                    k.viol("counter-identity:run+ignored+filtered!=tests", "TestResult getters after the run: tests=" + std::to_string(res.getTestCount()) + " run=" + std::to_string(res.getRunCount()) + " ignored=" + std::to_string(res.getIgnoredCount()) + " filtered=" + std::to_string(res.getFilteredOutCount()));
            }
            std::vector<int> after;
            st = walk_list(w, after);
            check_walk(k, st, "run", after);
            if (st != 0) { list_ok = false; break; }
        }
        // totals over the whole history: created Utest objects == bodies == setups == teardowns for non-failing tests
        for (size_t i = 0; i < n; i++) {
            if (w.created[i] != w.body[i] || w.setup[i] != w.body[i] || (!T[i].fails && w.teardown[i] != w.body[i]))
                k.viol("exec:phases-of-one-test-unequal", "test " + k.tname((int) i) + ": created=" + std::to_string(w.created[i]) + " setup=" + std::to_string(w.setup[i]) + " body=" + std::to_string(w.body[i]) + " teardown=" + std::to_string(w.teardown[i]));
        }
        if (table_cell) c.nontrivial("cell|" + std::to_string(c.idx));       // every cell of an exhaustively enumerated table counts once
        else if (nontrivial) c.nontrivial(sig);
        c.count("registries"); c.count("registry_size_" + std::string(n == 0 ? "0" : n <= 2 ? "1-2" : n <= 10 ? "3-10" : n <= 60 ? "11-60" : "61+"));
        reg.setGroupFilters(nullptr); reg.setNameFilters(nullptr);
        w.reg = nullptr;
        destroy_world(w);
    }
    PlatformSpecificSrand = saved_srand; PlatformSpecificRand = saved_rand;
    g_rand_mode = 0; g_rand_rng = nullptr;
    g_w = nullptr;
}

// ---------------------------------------------------------------- executor: through CommandLineTestRunner
class RecRunner : public CommandLineTestRunner {
public:
    RecRunner(int ac, const char* const* av, TestRegistry* r) : CommandLineTestRunner(ac, av, r) {}
protected:
    TestOutput* createConsoleOutput() override { return new RecOutput; }
};

static std::string invocation_sig(const Invocation& iv) {
    return "F" + filters_sig(iv.gf) + "/" + filters_sig(iv.nf) + (iv.run_ignored ? "|RI" : "") + (iv.reverse ? "|rev" : "") + (iv.shuffle_seed ? "|shuf" : "") + "|r" + std::to_string(iv.repeat);
}

// One registry, one or more invocations of a CommandLineTestRunner on it. Every repetition of every invocation is judged against
// the filters given on THAT invocation's command line; the list order is carried over from invocation to invocation (the registry
// keeps it); run-ignored is sticky (TestRegistry has no way to switch it off again — see assumptions).
static void exec_runner(vf::Ctx& c, std::shared_ptr<RunnerCase> rc) {
    c.begin([rc] {
        std::vector<std::string> invs;
        for (const Invocation& iv : rc->inv) {
            std::vector<std::string> av;
            for (const std::string& a : iv.argv) av.push_back(vf::jstr(a));
            invs.push_back(vf::jarr(av));
        }
        return vf::J().raw("tests_in_registration_order", tests_json(rc->tests)).raw("argv_of_each_invocation_on_the_same_registry", vf::jarr(invs))
                      .k("runner_destroyed_before_next_invocation", rc->destroy_runners).str();
    });
    const std::vector<TestSpec>& T = rc->tests;
    size_t n = T.size();
    const bool history = rc->inv.size() > 1;
    World w; g_w = &w;
    Checker k(c, w);
    {
        TestRegistry reg;
        build_world(w, T, &reg);
        std::vector<int> order0;
        int st = walk_list(w, order0);
        check_walk(k, st, "registration", order0);
        if (st == 0) {
            std::vector<std::unique_ptr<RecRunner>> alive;       // runners kept alive (they own the filter lists the registry points to)
            w.snapshots.reserve(8 * rc->inv.size()); w.snapshot_status.reserve(8 * rc->inv.size());
            std::vector<int> body_acc(n, 0);
            std::vector<int> prev = order0;
            bool run_ignored = false, usable = true, nontrivial = false, any_rep = false;
            const std::vector<FilterSpec>* last_gf = nullptr; const std::vector<FilterSpec>* last_nf = nullptr;   // latest earlier NON-EMPTY lists
            const std::vector<FilterSpec> none;
            std::vector<char> prev_sel;
            std::string sig = std::to_string(n) + (history ? (rc->destroy_runners ? "|H-destroyed" : "|H-alive") : "");
            for (size_t vi = 0; vi < rc->inv.size() && usable; vi++) {
                const Invocation& iv = rc->inv[vi];
                // real selection functions against the model, with chains of our own (the runner builds its own from argv)
                FilterChain G(iv.gf), N(iv.nf);
                bool shouldrun_agrees = check_selection_functions(k, iv.gf, iv.nf, G, N);
                std::vector<const char*> av;
                for (const std::string& a : iv.argv) av.push_back(a.c_str());
                size_t log0 = w.log.size(), snap0 = w.snapshots.size();
                {
                    std::unique_ptr<RecRunner> runner(new RecRunner((int) av.size(), av.data(), &reg));
                    try { (void) runner->runAllTestsMain(); }
                    catch (const AbortRun& a) {
                        if (a.why == 2) k.viol("run-does-not-terminate:runner", "the runner produced more than " + std::to_string(w.log_cap) + " callbacks for " + std::to_string(n) + " tests");
                        c.count("runner_runs_abandoned_on_broken_list");
                        usable = false;                          // (the runner's stack plugin is still installed: no further invocation on this registry)
                    }
                    if (rc->destroy_runners) runner.reset(); else alive.push_back(std::move(runner));
                }
                UtestShell::setRethrowExceptions(false);
                UtestShell::restoreDefaultTestTerminator();
                if (iv.run_ignored) run_ignored = true;
                // ---- what this history exercises
                if (vi > 0) {
                    c.count("runner_history_later_invocations");
                    if (iv.gf.empty() && last_gf) c.count("later_invocations_without_group_filters_after_one_with");
                    if (iv.nf.empty() && last_nf) c.count("later_invocations_without_name_filters_after_one_with");
                    if (!iv.run_ignored && run_ignored) c.count("later_invocations_without_-ri_after_one_with");
                }
                std::vector<char> sel(n);
                for (size_t i = 0; i < n; i++) sel[i] = m_selected(iv.gf, iv.nf, T[i]);
                if (vi > 0 && sel != prev_sel) c.count("later_invocations_selecting_a_different_set_than_the_previous_one");
                prev_sel = sel;
                const std::vector<FilterSpec>* lo_g = (iv.gf.empty() && last_gf) ? last_gf : &iv.gf;
                const std::vector<FilterSpec>* lo_n = (iv.nf.empty() && last_nf) ? last_nf : &iv.nf;
                bool lo = lo_g != &iv.gf || lo_n != &iv.nf;
                const char* lo_kinds = (lo_g != &iv.gf && lo_n != &iv.nf) ? "group+name" : lo_g != &iv.gf ? "group" : "name";
                // ---- split this invocation's part of the log into repetitions
                std::vector<std::pair<size_t, size_t>> reps;
                size_t start = log0; bool open = false;
                for (size_t e = log0; e < w.log.size(); e++) {
                    if (w.log[e].kind == E_RUNHDR) { if (open) { reps.push_back({ start, e }); } start = e; open = true; }
                }
                if (open) reps.push_back({ start, w.log.size() });
                if (reps.empty()) c.count("runner_performed_no_run");
                if ((int) reps.size() != iv.repeat) c.count("runner_repetitions_differ_from_-r");
                bool snapshots_ok = true;
                for (size_t r = 0; r < reps.size(); r++) {
                    if (snap0 + r >= w.snapshots.size()) { k.viol("callbacks:tests-started-missing", "repetition " + std::to_string(r + 1) + " has a run header but no TestsStarted"); break; }
                    const std::vector<int>& ord = w.snapshots[snap0 + r];
                    int sst = w.snapshot_status[snap0 + r];
                    const char* after = (iv.shuffle_seed && iv.reverse && r == 0) ? "reverse+shuffle" : iv.shuffle_seed ? "shuffle" : (iv.reverse && r == 0) ? "reverse" : "run";
                    check_walk(k, sst, after, ord);
                    if (sst != 0) { snapshots_ok = false; break; }
                    if (iv.reverse && !iv.shuffle_seed && r == 0) {
                        std::vector<int> rv(prev.rbegin(), prev.rend());
                        if (ord != rv) k.viol("reverse:not-the-exact-reverse", "before " + k.ostr(prev) + " after " + k.ostr(ord));
                        c.count("ops_reverse");
                    }
                    if (iv.shuffle_seed) { c.count("ops_shuffle"); if (ord != prev) c.count("shuffles_that_changed_the_order"); else c.count("shuffles_that_kept_the_order"); }
                    // body counters per repetition: replay the log
                    std::vector<int> body_before = body_acc;
                    for (size_t e = reps[r].first; e < reps[r].second; e++) if (w.log[e].kind == E_BODY && w.log[e].idx >= 0) body_acc[(size_t) w.log[e].idx]++;
                    std::vector<int> saved = w.body; w.body = body_acc;
                    RunExpect x{ &ord, &iv.gf, &iv.nf, run_ignored, shouldrun_agrees, "runner" };
                    if (lo) { x.leftover_gf = lo_g; x.leftover_nf = lo_n; x.leftover_kinds = lo_kinds; }
                    check_run(k, x, reps[r].first, reps[r].second, body_before);
                    w.body = saved;
                    prev = ord;
                    any_rep = true;
                }
                for (size_t s2 = snap0; s2 < w.snapshot_status.size(); s2++) if (w.snapshot_status[s2] != 0) snapshots_ok = false;
                if (!snapshots_ok) usable = false;
                if (usable) {                                        // otherwise the broken list was already reported with the operation that broke it
                    std::vector<int> after;
                    st = walk_list(w, after);
                    check_walk(k, st, (iv.reverse || iv.shuffle_seed) && reps.empty() ? "reverse-or-shuffle" : "run", after);
                    if (st != 0) usable = false;
                }
                bool disc = discriminating(iv.gf, T, false) || discriminating(iv.nf, T, true);
                if (disc) { nontrivial = true; c.count("configurations_with_discriminating_filter"); }
                if ((iv.reverse || iv.shuffle_seed) && n >= 3) nontrivial = true;
                count_filter_shapes(c, iv.gf, "group"); count_filter_shapes(c, iv.nf, "name");
                sig += "|" + invocation_sig(iv);
                c.count("runner_invocations");
                if (!iv.gf.empty()) last_gf = &iv.gf;
                if (!iv.nf.empty()) last_nf = &iv.nf;
            }
            if (history) {
                c.count("runner_histories");
                c.count(rc->destroy_runners ? "runner_histories_with_each_runner_destroyed_before_the_next" : "runner_histories_with_all_runners_kept_alive");
                c.count("runner_histories_of_" + std::to_string(rc->inv.size()) + "_invocations");
            }
            if (nontrivial && any_rep) c.nontrivial(sig);
            alive.clear();
        }
        w.reg = nullptr;
        destroy_world(w);
    }
    g_w = nullptr;
}

// ---------------------------------------------------------------- generators
static uint64_t gen_seed(vf::Rng& r) {
    static const uint64_t LAT[] = { 0, 1, 2, 3, 4, 5, 7, 8, 16, 42, 255, 256, 65535, 65536, 0x7FFFFFFEull, 0x7FFFFFFFull, 0x80000000ull, 0x80000001ull, 0xFFFFFFFEull, 0xFFFFFFFFull,
                                    0x100000000ull, 0x100000001ull, 0x7FFFFFFFFFFFFFFFull, 0x8000000000000000ull, 0xFFFFFFFFFFFFFFFEull, 0xFFFFFFFFFFFFFFFFull };
    switch (r.below(4)) {
    case 0: return LAT[r.below(sizeof(LAT) / sizeof(LAT[0]))];
    case 1: return r.below(1000) + 1;
    case 2: return r.next() & 0xFFFFFFFFull;
    default: return r.next();
    }
}

static size_t gen_size(vf::Ctx& c) {
    vf::Rng& r = c.rng;
    int p = (int) r.below(100);
    if (p < 8) return r.below(3);
    if (p < 35) return 3 + r.below(8);
    if (c.thorough && p >= 90) return 61 + r.below(340);
    return r.below(61);
}

struct Pools { std::vector<const char*> groups, names; };
static Pools gen_pools(vf::Rng& r, const char* const* alphabet, size_t na) {
    Pools p;
    size_t ng = 1 + r.below(4), nn = 1 + r.below(6);
    for (size_t i = 0; i < ng; i++) p.groups.push_back(alphabet[r.below(na)]);
    for (size_t i = 0; i < nn; i++) p.names.push_back(alphabet[r.below(na)]);
    return p;
}
static void gen_tests(vf::Rng& r, size_t n, const Pools& p, std::vector<TestSpec>& T) {
    static const int PIGN[] = { 0, 10, 30, 60, 100 };
    static const int PFAIL[] = { 0, 0, 0, 10, 30 };
    int pign = PIGN[r.below(5)], pfail = PFAIL[r.below(5)];
    int sticky = (int) r.below(4) * 30;                      // 0, 30, 60, 90 % chance to stay in the previous group
    const char* g = r.pick(p.groups);
    for (size_t i = 0; i < n; i++) {
        if (i == 0 || !r.chance(sticky)) g = r.pick(p.groups);
        T.push_back(TestSpec{ g, r.pick(p.names), r.chance(pign), r.chance(pfail) });
    }
}
// repeats: a quarter of the filters gets its mode setters called more than once (1..3 calls each, interleaved at random), the way layered
// list-building code does (a per-filter flag plus a list-wide switch); never for the runner sections (an argv requests every mode once)
static FilterSpec gen_filter(vf::Rng& r, const std::vector<const char*>& pool, const char* const* alphabet, size_t na, bool repeats) {
    const char* t = r.chance(70) ? r.pick(pool) : alphabet[r.below(na)];
    FilterSpec f{ t, r.chance(35), r.chance(35) };
    if (repeats && r.chance(25)) { f.s_extra = (unsigned char) r.below(3); f.x_extra = (unsigned char) r.below(3); f.order = (unsigned char) r.below(256); }
    return f;
}
static std::vector<FilterSpec> gen_filters(vf::Rng& r, const std::vector<const char*>& pool, const char* const* alphabet, size_t na, bool repeats = true, bool non_empty = false) {
    std::vector<FilterSpec> F;
    int p = (int) r.below(100);
    size_t k = p < 35 ? 0 : p < 70 ? 1 : p < 90 ? 2 : 3;
    if (non_empty && k == 0) k = 1;
    for (size_t i = 0; i < k; i++) F.push_back(gen_filter(r, pool, alphabet, na, repeats));
    return F;
}
static std::vector<OpSpec> gen_ops(vf::Rng& r) {
    std::vector<OpSpec> O;
    int p = (int) r.below(100);
    size_t k = p < 40 ? 0 : p < 85 ? 1 : 2;
    for (size_t i = 0; i < k; i++) {
        if (r.chance(35)) O.push_back(OpSpec{ OP_REVERSE, 0 });
        else O.push_back(OpSpec{ OP_SHUFFLE, gen_seed(r) });
    }
    return O;
}

// the alphabet is a dimension of every random filter section: a quarter of the cases draws all of its group / name / filter strings from the
// non-ASCII alphabet (the quantifier says "arbitrary group/name strings")
static Alphabet pick_alphabet(vf::Ctx& c, bool command_line) {
    if (c.rng.chance(25)) { c.count("cases_drawing_strings_from_the_non_ascii_alphabet"); return Alphabet{ KH, NKH, true }; }
    return command_line ? Alphabet{ KR, NKR, false } : Alphabet{ K, NK, false };
}

static void sec_registry(vf::Ctx& c) {
    vf::Rng& r = c.rng;
    auto cs = std::make_shared<Case>();
    const Alphabet A = pick_alphabet(c, false);
    const char* const* K = A.words; const size_t NK = A.n;      // (shadows the ASCII alphabet inside this function)
    Pools p = gen_pools(r, K, NK);
    gen_tests(r, gen_size(c), p, cs->tests);
    size_t reps = 1 + r.below(3);
    for (size_t i = 0; i < reps; i++) {
        Phase ph;
        if (i == 0 || r.chance(20)) { ph.change_filters = true; ph.gf = gen_filters(r, p.groups, K, NK); ph.nf = gen_filters(r, p.names, K, NK); }
        ph.set_run_ignored = r.chance(i == 0 ? 30 : 12);
        ph.ops = gen_ops(r);
        cs->phases.push_back(ph);
    }
    exec_direct(c, cs);
}

// order operations in depth: several shuffles / reversals between repetitions, no or few filters
static void sec_order(vf::Ctx& c) {
    vf::Rng& r = c.rng;
    auto cs = std::make_shared<Case>();
    Pools p = gen_pools(r, K, NK);
    gen_tests(r, gen_size(c), p, cs->tests);
    size_t reps = 1 + r.below(3);
    for (size_t i = 0; i < reps; i++) {
        Phase ph;
        if (i == 0 && r.chance(30)) { ph.gf = gen_filters(r, p.groups, K, NK); ph.nf = gen_filters(r, p.names, K, NK); }
        size_t k = 1 + r.below(4);
        for (size_t j = 0; j < k; j++) {
            if (r.chance(30)) ph.ops.push_back(OpSpec{ OP_REVERSE, 0 }); else ph.ops.push_back(OpSpec{ OP_SHUFFLE, gen_seed(r) });
        }
        cs->phases.push_back(ph);
    }
    exec_direct(c, cs);
}

// Fisher-Yates with hostile rand() values through the PlatformSpecificRand seam (values stay inside 0..RAND_MAX)
static void sec_order_stubbed(vf::Ctx& c) {
    vf::Rng& r = c.rng;
    auto cs = std::make_shared<Case>();
    Pools p = gen_pools(r, K, NK);
    size_t n = r.chance(50) ? r.below(9) : gen_size(c);
    gen_tests(r, n, p, cs->tests);
    cs->rand_mode = 1 + (int) r.below(6);
    cs->rand_seed = r.next();
    size_t reps = 1 + r.below(2);
    for (size_t i = 0; i < reps; i++) {
        Phase ph;
        size_t k = 1 + r.below(3);
        for (size_t j = 0; j < k; j++) ph.ops.push_back(r.chance(15) ? OpSpec{ OP_REVERSE, 0 } : OpSpec{ OP_SHUFFLE, gen_seed(r) });
        cs->phases.push_back(ph);
    }
    exec_direct(c, cs);
}

// exhaustive: one filter x one target over the whole alphabet, as group filter and as name filter; the test is ignored or not
static const uint64_t N_SINGLE = (uint64_t) NK * NK * 4 * 2 * 2;
static void sec_filter_single(vf::Ctx& c) {
    uint64_t i = c.idx;
    const char* pat = K[i % NK]; i /= NK; const char* tgt = K[i % NK]; i /= NK;
    bool strict = i & 1, invert = i & 2; i /= 4; bool name_role = i & 1; i /= 2; bool ignored = i & 1;
    auto cs = std::make_shared<Case>();
    cs->tests.push_back(TestSpec{ name_role ? "G" : tgt, name_role ? tgt : "N", ignored, false });
    Phase ph; (name_role ? ph.nf : ph.gf).push_back(FilterSpec{ pat, strict, invert });
    cs->phases.push_back(ph);
    exec_direct(c, cs, true);
}
// exhaustive: two filters in one list (all flag combinations) x one target
static const uint64_t N_PAIR = (uint64_t) NK2 * NK2 * 16 * NK2 * 2;
static void sec_filter_pair(vf::Ctx& c) {
    uint64_t i = c.idx;
    const char* p1 = K2[i % NK2]; i /= NK2; const char* p2 = K2[i % NK2]; i /= NK2;
    unsigned fl = (unsigned) (i % 16); i /= 16; const char* tgt = K2[i % NK2]; i /= NK2; bool name_role = i & 1;
    auto cs = std::make_shared<Case>();
    cs->tests.push_back(TestSpec{ name_role ? "G" : tgt, name_role ? tgt : "N", false, false });
    cs->tests.push_back(TestSpec{ "G", "N", false, false });
    Phase ph;
    std::vector<FilterSpec>& F = name_role ? ph.nf : ph.gf;
    F.push_back(FilterSpec{ p1, (fl & 1) != 0, (fl & 2) != 0 }); F.push_back(FilterSpec{ p2, (fl & 4) != 0, (fl & 8) != 0 });
    cs->phases.push_back(ph);
    exec_direct(c, cs, true);
}
// exhaustive: one filter x one target over the whole non-ASCII alphabet (every pair of words: equal, contained, agreeing through a byte
// >= 0x80 and differing after it, differing in the top bit only, ...), four mode combinations, as group filter and as name filter
static const uint64_t N_SINGLE_H = (uint64_t) NKH * NKH * 4 * 2;
static void sec_filter_single_non_ascii(vf::Ctx& c) {
    uint64_t i = c.idx;
    const char* pat = KH[i % NKH]; i /= NKH; const char* tgt = KH[i % NKH]; i /= NKH;
    bool strict = i & 1, invert = i & 2; i /= 4; bool name_role = i & 1;
    auto cs = std::make_shared<Case>();
    cs->tests.push_back(TestSpec{ name_role ? "G" : tgt, name_role ? tgt : "N", false, false });
    cs->tests.push_back(TestSpec{ name_role ? "G" : pat, name_role ? pat : "N", false, false });       // (the test the filter is named after)
    Phase ph; (name_role ? ph.nf : ph.gf).push_back(FilterSpec{ pat, strict, invert });
    cs->phases.push_back(ph);
    exec_direct(c, cs, true);
}
// exhaustive: two substring / strict filters in one list x one target over the UTF-8 core of the non-ASCII alphabet
static const char* const KH2[] = { "caf\xC3\xA9", "caf\xC3\xA8", "caf\xC3", "\xC3\xA9", "\xC3\xA8", "\xC3", "\xFF", "\xFF" "A" };
static const size_t NKH2 = sizeof(KH2) / sizeof(KH2[0]);
static const uint64_t N_PAIR_H = (uint64_t) NKH2 * NKH2 * 16 * NKH2 * 2;
static void sec_filter_pair_non_ascii(vf::Ctx& c) {
    uint64_t i = c.idx;
    const char* p1 = KH2[i % NKH2]; i /= NKH2; const char* p2 = KH2[i % NKH2]; i /= NKH2;
    unsigned fl = (unsigned) (i % 16); i /= 16; const char* tgt = KH2[i % NKH2]; i /= NKH2; bool name_role = i & 1;
    auto cs = std::make_shared<Case>();
    cs->tests.push_back(TestSpec{ name_role ? "G" : tgt, name_role ? tgt : "N", false, false });
    cs->tests.push_back(TestSpec{ "G", "N", false, false });
    Phase ph;
    std::vector<FilterSpec>& F = name_role ? ph.nf : ph.gf;
    F.push_back(FilterSpec{ p1, (fl & 1) != 0, (fl & 2) != 0 }); F.push_back(FilterSpec{ p2, (fl & 4) != 0, (fl & 8) != 0 });
    cs->phases.push_back(ph);
    exec_direct(c, cs, true);
}
// exhaustive: one group filter AND one name filter x (group, name)
static const uint64_t N_CROSS = (uint64_t) NK3 * 4 * NK3 * 4 * NK3 * NK3;
static void sec_filter_cross(vf::Ctx& c) {
    uint64_t i = c.idx;
    const char* gp = K3[i % NK3]; i /= NK3; unsigned gfl = (unsigned) (i % 4); i /= 4;
    const char* np = K3[i % NK3]; i /= NK3; unsigned nfl = (unsigned) (i % 4); i /= 4;
    const char* g = K3[i % NK3]; i /= NK3; const char* nm = K3[i % NK3];
    auto cs = std::make_shared<Case>();
    cs->tests.push_back(TestSpec{ g, nm, false, false });
    cs->tests.push_back(TestSpec{ "AB", "A", true, false });
    cs->tests.push_back(TestSpec{ "B", "AB", false, false });
    Phase ph;
    ph.gf.push_back(FilterSpec{ gp, (gfl & 1) != 0, (gfl & 2) != 0 });
    ph.nf.push_back(FilterSpec{ np, (nfl & 1) != 0, (nfl & 2) != 0 });
    cs->phases.push_back(ph);
    exec_direct(c, cs, true);
}

// exhaustive: one filter x one target, strictMatching() requested 0..3 times and invertMatching() requested 0..3 times on the SAME filter
// object, four interleavings of the calls; as group filter and as name filter
static const unsigned char ORDERS[] = { 0x00, 0xFF, 0xAA, 0x55 };
static const uint64_t N_REQ = (uint64_t) NK2 * NK2 * 4 * 4 * 4 * 2;
static void sec_filter_requests(vf::Ctx& c) {
    uint64_t i = c.idx;
    const char* pat = K2[i % NK2]; i /= NK2; const char* tgt = K2[i % NK2]; i /= NK2;
    unsigned sc = (unsigned) (i % 4); i /= 4; unsigned xc = (unsigned) (i % 4); i /= 4; unsigned char ord = ORDERS[i % 4]; i /= 4; bool name_role = i & 1;
    auto cs = std::make_shared<Case>();
    cs->tests.push_back(TestSpec{ name_role ? "G" : tgt, name_role ? tgt : "N", false, false });
    cs->tests.push_back(TestSpec{ "G", "N", false, false });
    FilterSpec f{ pat, sc > 0, xc > 0 };
    f.s_extra = (unsigned char) (sc ? sc - 1 : 0); f.x_extra = (unsigned char) (xc ? xc - 1 : 0); f.order = ord;
    Phase ph; (name_role ? ph.nf : ph.gf).push_back(f);
    cs->phases.push_back(ph);
    exec_direct(c, cs, true);
}

// histories on ONE live registry driven through its own setters: between two runs the group filter list and the name filter list are
// exchanged INDEPENDENTLY of each other (a new list, NULL, the same list object again, the installed list extended / a mode requested on
// one of its filters and the list installed again), tests are removed (unDoLastAddTest) and added, the order is changed, run-ignored is
// switched on. Every run is judged against the lists installed at that moment and the tests registered at that moment.
static const char* const MUT_NAME[] = { "setGroupFilters(new list)", "setNameFilters(new list)", "setGroupFilters(NULL)", "setNameFilters(NULL)", "setGroupFilters(same list again)",
                                        "setNameFilters(same list again)", "group list modified + setGroupFilters", "name list modified + setNameFilters", "reverseTests", "shuffleTests",
                                        "unDoLastAddTest", "addTest", "setRunIgnored" };
static std::string mut_json(const Mut& m) {
    vf::J j; j.k("op", std::string(MUT_NAME[m.kind]));
    if (m.kind == MU_SET_G || m.kind == MU_SET_N) j.raw("list", filters_json(m.list));
    if (m.kind == MU_MODIFY_G || m.kind == MU_MODIFY_N) { j.k("how", std::string(m.how == 0 ? "strictMatching() on one filter" : m.how == 1 ? "invertMatching() on one filter" : "new filter in front")); j.k("which", (uint64_t) m.which); if (m.how == 2) j.raw("filter", filters_json(std::vector<FilterSpec>{ m.extra })); }
    if (m.kind == MU_SHUFFLE) j.k("seed", std::to_string(m.seed));
    if (m.kind == MU_ADD) j.k("which_of_the_unregistered", (uint64_t) m.which);
    return j.str();
}
struct LiveList { std::vector<FilterSpec> spec; FilterChain chain; explicit LiveList(const std::vector<FilterSpec>& s) : spec(s), chain(s) {} };

static void exec_setters(vf::Ctx& c, std::shared_ptr<SetterCase> sc) {
    c.begin([sc] {
        std::vector<std::string> ph;
        for (const std::vector<Mut>& ms : sc->phases) { std::vector<std::string> v; for (const Mut& m : ms) v.push_back(mut_json(m)); ph.push_back(vf::jarr(v)); }
        return vf::J().raw("tests_in_registration_order", tests_json(sc->tests)).k("last_tests_not_registered_at_first", (uint64_t) sc->held_back)
                      .raw("operations_before_each_run_on_the_same_registry", vf::jarr(ph)).str();
    });
    const std::vector<TestSpec>& T = sc->tests;
    size_t n = T.size();
    World w; g_w = &w;
    Checker k(c, w);
    {
        TestRegistry reg;
        size_t n_reg = n - sc->held_back;
        build_world(w, T, &reg, n_reg);
        w.snapshot_at_start = false;
        RecOutput out;
        std::vector<char> present(n, 0);
        for (size_t i = 0; i < n_reg; i++) present[i] = 1;
        std::vector<int> order, prev;
        int st = walk_list(w, order, n_reg);
        check_walk(k, st, "registration", order);
        bool list_ok = st == 0;
        if (list_ok && reg.countTests() != n_reg) k.viol("count-tests:after-registration", "countTests() = " + std::to_string(reg.countTests()) + " for " + std::to_string(n_reg) + " registered tests");

        std::vector<std::unique_ptr<LiveList>> lists;         // every list stays alive until the registry is gone
        const std::vector<FilterSpec> none;
        LiveList empty_list(none);
        LiveList* cur[2] = { nullptr, nullptr };              // [0] group, [1] name; null: NULL is installed
        std::vector<FilterSpec> prev_spec[2];                 // what was in force in the previous run
        bool have_prev_run = false, run_ignored = false, nontrivial = false;
        std::string sig = std::to_string(n) + "-" + std::to_string(sc->held_back) + "|";
        auto spec_of = [&](int role) -> const std::vector<FilterSpec>& { return cur[role] ? cur[role]->spec : none; };
        auto install = [&](int role, LiveList* l) {
            cur[role] = l;
            const TestFilter* head = l ? l->chain.head : nullptr;
            if (role == 0) reg.setGroupFilters(head); else reg.setNameFilters(head);
        };

        for (size_t pi = 0; pi < sc->phases.size() && list_ok; pi++) {
            bool set_called[2] = { false, false };
            for (const Mut& m : sc->phases[pi]) {
                int role = (m.kind == MU_SET_N || m.kind == MU_NULL_N || m.kind == MU_SAME_N || m.kind == MU_MODIFY_N) ? 1 : 0;
                const char* rn = role ? "name" : "group";
                switch (m.kind) {
                case MU_SET_G: case MU_SET_N:
                    lists.emplace_back(new LiveList(m.list));
                    c.count(std::string("setter_") + rn + (cur[role] ? "_list_replaced_by_another_list" : "_list_installed_where_NULL_was"));
                    install(role, lists.back().get()); set_called[role] = true;
                    sig += std::string(role ? "N" : "G") + filters_sig(m.list) + "|";
                    break;
                case MU_NULL_G: case MU_NULL_N:
                    c.count(std::string("setter_") + rn + (cur[role] ? "_list_replaced_by_NULL" : "_NULL_set_again"));
                    install(role, nullptr); set_called[role] = true;
                    sig += role ? "N0|" : "G0|";
                    break;
                case MU_SAME_G: case MU_SAME_N:
                    c.count(std::string("setter_") + rn + (cur[role] ? "_same_list_object_set_again" : "_NULL_set_again"));
                    install(role, cur[role]); set_called[role] = true;
                    sig += role ? "N=|" : "G=|";
                    break;
                case MU_MODIFY_G: case MU_MODIFY_N: {
                    if (!cur[role]) { lists.emplace_back(new LiveList(none)); cur[role] = lists.back().get(); }
                    LiveList& L = *cur[role];
                    int how = L.spec.empty() ? 2 : m.how;
                    if (how == 2) { L.spec.push_back(m.extra); L.chain.push(m.extra); c.count("installed_list_extended_by_a_filter_and_set_again"); }
                    else {
                        size_t f = m.which % L.spec.size();
                        FilterSpec& fs = L.spec[f];
                        if (how == 0) { L.chain.store[f].strictMatching(); if (fs.strict) fs.s_extra++; else fs.strict = true; }
                        else { L.chain.store[f].invertMatching(); if (fs.invert) fs.x_extra++; else fs.invert = true; }
                        c.count("mode_requested_on_a_filter_of_the_installed_list_and_list_set_again");
                    }
                    install(role, &L); set_called[role] = true;
                    sig += std::string(role ? "N~" : "G~") + filters_sig(L.spec) + "|";
                    break; }
                case MU_REVERSE: case MU_SHUFFLE: {
                    prev = order;
                    if (m.kind == MU_REVERSE) { reg.reverseTests(); c.count("ops_reverse"); sig += "rev|"; }
                    else { reg.shuffleTests((size_t) m.seed); c.count("ops_shuffle"); sig += "shuf|"; }
                    st = walk_list(w, order, n_reg);
                    check_walk(k, st, m.kind == MU_REVERSE ? "reverse" : "shuffle", order);
                    if (st != 0) { list_ok = false; break; }
                    if (m.kind == MU_REVERSE) {
                        std::vector<int> rv(prev.rbegin(), prev.rend());
                        if (order != rv) k.viol("reverse:not-the-exact-reverse", "before " + k.ostr(prev) + " after " + k.ostr(order));
                    } else {
                        if (order != prev) c.count("shuffles_that_changed_the_order"); else c.count("shuffles_that_kept_the_order");
                    }
                    for (int i : order) if (!present[(size_t) i]) { k.viol(std::string("list-walk:after-") + (m.kind == MU_REVERSE ? "reverse" : "shuffle") + ":unregistered-test-in-list", "test " + k.tname(i) + " is in the list " + k.ostr(order)); list_ok = false; }
                    if (n_reg >= 3) nontrivial = true;
                    break; }
                case MU_UNDO: {
                    if (n_reg == 0) { reg.unDoLastAddTest(); c.count("undo_last_add_on_an_empty_registry"); st = walk_list(w, order, 0); check_walk(k, st, "undo-last-add", order); if (st != 0) list_ok = false; sig += "undo0|"; break; }
                    prev = order;
                    reg.unDoLastAddTest();
                    n_reg--;
                    st = walk_list(w, order, n_reg);
                    check_walk(k, st, "undo-last-add", order);
                    if (st != 0) { list_ok = false; break; }
                    // exactly one of the registered tests is gone, nothing else joined (WHICH one left is not the property's business)
                    std::vector<char> now(n, 0);
                    for (int i : order) now[(size_t) i] = 1;
                    for (size_t i = 0; i < n; i++) if (now[i] && !present[i]) { k.viol("list-walk:after-undo-last-add:unregistered-test-in-list", "test " + k.tname((int) i) + " appeared in the list " + k.ostr(order)); list_ok = false; }
                    present = now;
                    c.count(have_prev_run ? "undo_last_add_between_runs" : "undo_last_add_before_the_first_run");
                    sig += "undo|";
                    break; }
                case MU_ADD: {
                    std::vector<int> out_of_list;
                    for (size_t i = 0; i < n; i++) if (!present[i]) out_of_list.push_back((int) i);
                    if (out_of_list.empty()) { c.count("add_test_skipped_all_tests_registered"); break; }
                    int t = out_of_list[m.which % out_of_list.size()];
                    reg.addTest(w.shells[(size_t) t]);
                    n_reg++; present[(size_t) t] = 1;
                    st = walk_list(w, order, n_reg);
                    check_walk(k, st, "add-test", order);
                    if (st != 0) { list_ok = false; break; }
                    for (int i : order) if (!present[(size_t) i]) { k.viol("list-walk:after-add-test:unregistered-test-in-list", "test " + k.tname(i) + " is in the list " + k.ostr(order)); list_ok = false; }
                    c.count(have_prev_run ? "add_test_between_runs" : "add_test_before_the_first_run");
                    sig += "add|";
                    break; }
                case MU_RUN_IGNORED: reg.setRunIgnored(); run_ignored = true; sig += "RI|"; break;
                default: break;
                }
                if (!list_ok) break;
                if (reg.countTests() != n_reg) k.viol(std::string("count-tests:after-") + (m.kind == MU_UNDO ? "undo-last-add" : m.kind == MU_ADD ? "add-test" : m.kind == MU_REVERSE ? "reverse" : m.kind == MU_SHUFFLE ? "shuffle" : "filter-setter"),
                                                       "countTests() = " + std::to_string(reg.countTests()) + " for " + std::to_string(n_reg) + " registered tests");
            }
            if (!list_ok) break;
            // ---- one run, judged against what is installed NOW
            const std::vector<FilterSpec>& gf = spec_of(0); const std::vector<FilterSpec>& nf = spec_of(1);
            bool shouldrun_agrees = check_selection_functions(k, gf, nf, cur[0] ? cur[0]->chain : empty_list.chain, cur[1] ? cur[1]->chain : empty_list.chain);
            count_filter_shapes(c, gf, "group"); count_filter_shapes(c, nf, "name");
            if (discriminating(gf, T, false) || discriminating(nf, T, true)) { nontrivial = true; c.count("configurations_with_discriminating_filter"); }
            RunExpect x{ &order, &gf, &nf, run_ignored, shouldrun_agrees, "direct" };
            x.present = &present;
            if (have_prev_run) {
                x.history_tag = set_called[0] && set_called[1] ? ":after-both-filter-setters-between-runs" : set_called[0] ? ":after-setGroupFilters-alone-between-runs"
                              : set_called[1] ? ":after-setNameFilters-alone-between-runs" : ":after-a-run-without-filter-setter-calls";
                c.count("setter_history_later_runs");
                for (int role = 0; role < 2; role++) {
                    if (!set_called[role] || set_called[1 - role]) continue;
                    const char* rn = role ? "name" : "group";
                    c.count(std::string("later_runs_after_") + rn + "_filter_setter_alone");
                    const std::vector<FilterSpec>& now = spec_of(role);
                    if (!now.empty() && !prev_spec[role].empty()) c.count(std::string("later_runs_after_") + rn + "_filter_setter_alone:list_to_list");
                    // would the list of the previous run decide differently for some registered test / for the first test of the list?
                    bool any = false, first = false;
                    for (size_t q = 0; q < order.size(); q++) {
                        const char* target = role ? T[(size_t) order[q]].name : T[(size_t) order[q]].group;
                        if (m_any(now, target) != m_any(prev_spec[role], target)) { any = true; if (q == 0) first = true; }
                    }
                    if (any) c.count(std::string("later_runs_after_") + rn + "_filter_setter_alone_where_the_previous_list_decides_differently");
                    if (first) c.count(std::string("later_runs_after_") + rn + "_filter_setter_alone_where_the_previous_list_decides_differently_for_the_first_test");
                }
            }
            std::vector<int> body_before = w.body;
            size_t from = w.log.size();
            {
                TestResult res(out);
                try { reg.runAllTests(res); }
                catch (const AbortRun&) { k.viol("run-does-not-terminate:direct", "runAllTests produced more than " + std::to_string(w.log_cap) + " callbacks for " + std::to_string(n) + " tests"); list_ok = false; }
                check_run(k, x, from, w.log.size(), body_before);
                if (res.getRunCount() + res.getIgnoredCount() + res.getFilteredOutCount() != res.getTestCount())
                    k.viol("counter-identity:run+ignored+filtered!=tests", "TestResult getters after the run: tests=" + std::to_string(res.getTestCount()) + " run=" + std::to_string(res.getRunCount()) + " ignored=" + std::to_string(res.getIgnoredCount()) + " filtered=" + std::to_string(res.getFilteredOutCount()));
            }
            c.count("setter_history_runs");
            prev_spec[0] = gf; prev_spec[1] = nf; have_prev_run = true;
            sig += "run|";
            std::vector<int> after;
            st = walk_list(w, after, n_reg);
            check_walk(k, st, "run", after);
            if (st != 0) { list_ok = false; break; }
            if (after != order) k.viol("run:changes-the-list-order", "before the run " + k.ostr(order) + " after " + k.ostr(after));
        }
        for (size_t i = 0; i < n; i++) {
            if (w.created[i] != w.body[i] || w.setup[i] != w.body[i] || (!T[i].fails && w.teardown[i] != w.body[i]))
                k.viol("exec:phases-of-one-test-unequal", "test " + k.tname((int) i) + ": created=" + std::to_string(w.created[i]) + " setup=" + std::to_string(w.setup[i]) + " body=" + std::to_string(w.body[i]) + " teardown=" + std::to_string(w.teardown[i]));
        }
        if (nontrivial) c.nontrivial("S" + sig);
        c.count("setter_histories");
        reg.setGroupFilters(nullptr); reg.setNameFilters(nullptr);
        w.reg = nullptr;
        destroy_world(w);
    }
    g_w = nullptr;
}

static void sec_setter_history(vf::Ctx& c) {
    vf::Rng& r = c.rng;
    auto sc = std::make_shared<SetterCase>();
    const Alphabet A = pick_alphabet(c, false);
    const char* const* K = A.words; const size_t NK = A.n;      // (shadows the ASCII alphabet inside this function)
    Pools p = gen_pools(r, K, NK);
    size_t n = r.chance(60) ? 1 + r.below(12) : gen_size(c);
    gen_tests(r, n, p, sc->tests);
    sc->held_back = (n && r.chance(30)) ? 1 + r.below(n < 3 ? n : 3) : 0;
    size_t runs = 2 + r.below(4);
    static const int W[] = { 24, 14, 6, 5, 5, 4, 7, 5, 8, 6, 6, 6, 4 };   // weights of the operation kinds, in MutKind order
    for (size_t i = 0; i < runs; i++) {
        std::vector<Mut> ms;
        if (i == 0) {
            if (r.chance(70)) { Mut m; m.kind = MU_SET_G; m.list = gen_filters(r, p.groups, K, NK, true, true); ms.push_back(m); }
            if (r.chance(40)) { Mut m; m.kind = MU_SET_N; m.list = gen_filters(r, p.names, K, NK, true, true); ms.push_back(m); }
            if (ms.size() == 2 && r.chance(50)) std::swap(ms[0], ms[1]);
        }
        size_t km = i == 0 ? r.below(2) : 1 + (r.chance(55) ? 0 : 1 + r.below(2));
        for (size_t j = 0; j < km; j++) {
            Mut m;
            int x = (int) r.below(100), kind = 0;
            while (kind < 12 && x >= W[kind]) { x -= W[kind]; kind++; }
            m.kind = kind;
            bool name_role = kind == MU_SET_N || kind == MU_MODIFY_N;
            if (kind == MU_SET_G || kind == MU_SET_N) m.list = gen_filters(r, name_role ? p.names : p.groups, K, NK, true, true);
            if (kind == MU_MODIFY_G || kind == MU_MODIFY_N) { m.how = (int) r.below(3); m.which = r.below(8); m.extra = gen_filter(r, name_role ? p.names : p.groups, K, NK, true); }
            if (kind == MU_SHUFFLE) m.seed = gen_seed(r);
            if (kind == MU_ADD) m.which = r.below(8);
            ms.push_back(m);
        }
        sc->phases.push_back(ms);
    }
    exec_setters(c, sc);
}

static void gen_invocation(vf::Rng& r, const Pools& p, const Alphabet& A, Invocation& iv) {
    iv.gf = gen_filters(r, p.groups, A.words, A.n, false);
    iv.nf = gen_filters(r, p.names, A.words, A.n, false);
    iv.run_ignored = r.chance(30);
    iv.reverse = r.chance(30);
    if (r.chance(45)) { uint64_t s = gen_seed(r) & 0xFFFFFFFFull; iv.shuffle_seed = s ? s : 1; }
    iv.repeat = 1 + (int) r.below(3);
    // argv in random option order
    std::vector<std::vector<std::string>> opts;
    auto filt = [&](const FilterSpec& f, const char* letter) {
        std::string o = std::string("-") + (f.invert ? "x" : "") + (f.strict ? "s" : "") + letter;
        if (r.chance(50)) opts.push_back({ o + f.text }); else opts.push_back({ o, f.text });
    };
    for (const FilterSpec& f : iv.gf) filt(f, "g");
    for (const FilterSpec& f : iv.nf) filt(f, "n");
    if (iv.run_ignored) opts.push_back({ "-ri" });
    if (iv.reverse) opts.push_back({ "-b" });
    if (iv.shuffle_seed) { if (r.chance(50)) opts.push_back({ "-s" + std::to_string(iv.shuffle_seed) }); else opts.push_back({ "-s", std::to_string(iv.shuffle_seed) }); }
    if (iv.repeat != 1 || r.chance(30)) opts.push_back({ "-r" + std::to_string(iv.repeat) });
    for (size_t i = opts.size(); i > 1; i--) std::swap(opts[i - 1], opts[r.below(i)]);
    iv.argv.push_back("c02");
    for (auto& o : opts) for (auto& a : o) iv.argv.push_back(a);
}

static void sec_runner(vf::Ctx& c) {
    vf::Rng& r = c.rng;
    auto rc = std::make_shared<RunnerCase>();
    const Alphabet A = pick_alphabet(c, true);
    Pools p = gen_pools(r, A.words, A.n);
    gen_tests(r, gen_size(c), p, rc->tests);
    rc->inv.emplace_back();
    gen_invocation(r, p, A, rc->inv.back());
    exec_runner(c, rc);
}

// histories: 2..5 invocations (each with its own argv: filter lists of either kind present or absent, -ri, -b, -s, -r) on the SAME
// registry, the way a main() that calls CommandLineTestRunner::RunAllTests more than once uses the global registry
static void sec_runner_history(vf::Ctx& c) {
    vf::Rng& r = c.rng;
    auto rc = std::make_shared<RunnerCase>();
    const Alphabet A = pick_alphabet(c, true);
    Pools p = gen_pools(r, A.words, A.n);
    size_t n = r.chance(50) ? 1 + r.below(12) : gen_size(c);
    gen_tests(r, n, p, rc->tests);
    rc->destroy_runners = r.chance(50);
    size_t ninv = 2 + (r.chance(60) ? 0 : r.below(4));
    for (size_t i = 0; i < ninv; i++) {
        rc->inv.emplace_back();
        gen_invocation(r, p, A, rc->inv.back());
    }
    exec_runner(c, rc);
}

int main(int argc, char** argv) {
    std::vector<vf::Section> S = {
        // name, quick, thorough, fn, exhaustive
        { "filter_single_table", N_SINGLE, N_SINGLE, sec_filter_single, true },
        { "filter_pair_table", N_PAIR, N_PAIR, sec_filter_pair, true },
        { "filter_group_x_name_table", N_CROSS, N_CROSS, sec_filter_cross, true },
        { "filter_mode_requests_table", N_REQ, N_REQ, sec_filter_requests, true },
        { "filter_single_table_non_ascii", N_SINGLE_H, N_SINGLE_H, sec_filter_single_non_ascii, true },
        { "filter_pair_table_non_ascii", N_PAIR_H, N_PAIR_H, sec_filter_pair_non_ascii, true },
        { "registry_histories", 40000, 600000, sec_registry, false },
        { "registry_setter_histories", 15000, 200000, sec_setter_history, false },
        { "order_operations", 15000, 200000, sec_order, false },
        { "order_operations_stubbed_rand", 8000, 100000, sec_order_stubbed, false },
        { "command_line_runner", 12000, 150000, sec_runner, false },
        { "command_line_runner_histories", 10000, 120000, sec_runner_history, false },
    };
    return vf::harness_main(argc, argv, S, nullptr);
}
