// C08 — mock verdict is exact: a mocked scenario passes iff the multiset of actual calls equals the
// multiset of expected calls (and, under strict ordering, the order agrees); the first deviation fails
// the test once with the matching diagnosis; every actual call returns the value / output bytes of the
// expectation it consumed.
//
// Oracle (independent of the implementation's candidate lists): a multiset model over *call classes*
// (scoped function name, object, {parameter name, type, value}, output parameter names). The model walks
// the actual call sequence, consumes one unit of the equal class per call, and names the first call that
// cannot be consumed; the set of acceptable diagnoses for that call is the union of the real differences
// between the call and every still-open expectation of that function. Unique return values / output bytes
// per expectation identify which expectation the implementation consumed.
#include "verif.h"
#include <climits>
#include <cmath>
#include <sstream>

#include "CppUTest/TestHarness.h"
#include "CppUTest/TestTestingFixture.h"
#include "CppUTest/TestRegistry.h"
#include "CppUTestExt/MockSupport.h"
#include "CppUTestExt/MockSupportPlugin.h"
#include "CppUTestExt/MockFailure.h"

// ====================================================================== value tables
enum VT { T_INT, T_UINT, T_LONG, T_ULONG, T_LL, T_ULL, T_BOOL, T_DOUBLE, T_STR, T_PTR, T_CPTR, T_FPTR, T_MEM, T_OBJ, T_N };
static const char* VT_NAME[T_N] = { "int", "uint", "long", "ulong", "llong", "ullong", "bool", "double", "str", "ptr", "cptr", "fptr", "mem", "T1" };
static bool is_integer_type(int t) { return t <= T_ULL; }

static const int V_INT[] = { 0, 1, -1, 42, INT_MAX, INT_MIN };
static const unsigned V_UINT[] = { 0u, 1u, 42u, UINT_MAX, 0x80000000u };
static const long V_LONG[] = { 0L, 1L, -1L, LONG_MAX, LONG_MIN, 1L << 32 };
static const unsigned long V_ULONG[] = { 0UL, 1UL, ULONG_MAX, 1UL << 63, 1UL << 32 };
static const long long V_LL[] = { 0LL, 1LL, -1LL, LLONG_MAX, LLONG_MIN, -(1LL << 31) - 1 };
static const unsigned long long V_ULL[] = { 0ULL, 1ULL, ULLONG_MAX, 1ULL << 63, (1ULL << 32) - 1 };
static const bool V_BOOL[] = { false, true };
static const double V_DOUBLE[] = { 0.0, 1.0, -1.0, 2.5, 1e9, -2.5 };          // pairwise further apart than the default tolerance
static const char* const V_STRTXT[] = { "", "a", "b", "ab", "aB", "abc" };
static char strA[6][8], strB[6][8];                                            // equal content at different addresses (expected side / actual side)
static int pobj[5];
static void fn0() {} static void fn1() {} static void fn2() {} static void fn3() {}
typedef void (*vfn)();
static const vfn V_FN[] = { fn0, fn1, fn2, fn3 };
struct MemV { unsigned char b[4]; size_t n; };
static const MemV V_MEM[] = { { { 1, 2, 3, 0 }, 3 }, { { 1, 2, 4, 0 }, 3 }, { { 1, 2, 0, 0 }, 2 }, { { 0xff, 0, 0, 0 }, 1 }, { { 1, 2, 3, 0 }, 4 }, { { 0, 0, 0, 0 }, 0 } };   // the last one is the empty buffer
static unsigned char memA[6][4], memB[6][4];
static const int V_OBJ[] = { 7, 9, -3, 100 };
static int objA[4], objB[4];
static const int NV[T_N] = { 6, 5, 6, 5, 6, 5, 2, 6, 6, 5, 5, 4, 6, 4 };

// Where the bytes of by-reference parameter values (strings, memory buffers, objects of a custom type) live. A value is its content (and, for a buffer,
// its length) - never its address: the verdict must not depend on whether expectation and actual call read separate copies, the very same array, or
// different pieces of one backing array (a buffer and its prefix / extension / the empty buffer at one base address; a string and its tail).
enum ST { ST_SEPARATE, ST_SAME, ST_SHARED, ST_N };
static const char* ST_NAME[ST_N] = { "separate-copies", "same-array-on-both-sides", "values-are-pieces-of-one-backing-array" };
static int g_storage = ST_SEPARATE;
static unsigned char memS[4] = { 1, 2, 3, 0 };       // backing array of the buffers {1,2,3} {1,2} {1,2,3,0} {} (values 0, 2, 4, 5)
static char strS[4] = "ab";                           // backing array of the strings "ab", "b", "" (values 3, 2, 0)
static bool mem_in_family(int vi) { return vi == 0 || vi == 2 || vi == 4 || vi == 5; }
static const unsigned char* mem_addr(int storage, bool actualSide, int vi) {
    if (storage == ST_SHARED && mem_in_family(vi)) return memS;
    return storage == ST_SEPARATE && actualSide ? memB[vi] : memA[vi];
}
static const char* str_addr(int storage, bool actualSide, int vi) {
    if (storage == ST_SHARED) { if (vi == 3) return strS; if (vi == 2) return strS + 1; if (vi == 0) return strS + 2; }
    return storage == ST_SEPARATE && actualSide ? strB[vi] : strA[vi];
}
static int* obj_addr(int storage, bool actualSide, int vi) { return storage == ST_SEPARATE && actualSide ? &objB[vi] : &objA[vi]; }

static std::string val_text(int t, int vi) {
    char b[64];
    switch (t) {
    case T_INT: snprintf(b, sizeof b, "%d", V_INT[vi]); break;
    case T_UINT: snprintf(b, sizeof b, "%uu", V_UINT[vi]); break;
    case T_LONG: snprintf(b, sizeof b, "%ldL", V_LONG[vi]); break;
    case T_ULONG: snprintf(b, sizeof b, "%luUL", V_ULONG[vi]); break;
    case T_LL: snprintf(b, sizeof b, "%lldLL", V_LL[vi]); break;
    case T_ULL: snprintf(b, sizeof b, "%lluULL", V_ULL[vi]); break;
    case T_BOOL: snprintf(b, sizeof b, "%s", V_BOOL[vi] ? "true" : "false"); break;
    case T_DOUBLE: snprintf(b, sizeof b, "%g", V_DOUBLE[vi]); break;
    case T_STR: snprintf(b, sizeof b, "'%s'", V_STRTXT[vi]); break;
    case T_MEM: return "mem[" + vf::hexbytes(V_MEM[vi].b, V_MEM[vi].n) + "]";
    case T_OBJ: snprintf(b, sizeof b, "T1{%d}", V_OBJ[vi]); break;
    default: snprintf(b, sizeof b, "#%d", vi); break;
    }
    return b;
}

struct T1Comparator : public MockNamedValueComparator {
    virtual bool isEqual(const void* a, const void* b) { return *(const int*) a == *(const int*) b; }
    virtual SimpleString valueToString(const void* a) { return StringFrom(*(const int*) a); }
};
struct T1Copier : public MockNamedValueCopier {
    virtual void copy(void* dst, const void* src) { *(int*) dst = *(const int*) src; }
};
static T1Comparator g_cmp;
static T1Copier g_cop;

// ====================================================================== scenario description (shared by model and runner)
enum IK { I_OBJ, I_IN, I_OUT, I_OUTT };           // object, input parameter, byte output parameter, typed (copier) output parameter
struct Item {
    int kind; std::string name; int type; int vi; int obj;
    size_t olen = 0; bool unmod = false;          // expectation side of a byte output parameter: bytes returned (0 = zero-sized) / withUnmodifiedOutputParameter
    Item(int k = I_IN, const std::string& n = "", int t = 0, int v = 0, int o = -1) : kind(k), name(n), type(t), vi(v), obj(o) {}
};
// output parameter slots: a function signature has 0..3 output parameters; "out2" is the name an injected deviation uses (never declared)
static const int NOUT = 3, NSLOT = 4;
static const char* const OUT_NAME[NOUT] = { "out", "ob", "oc" };
static int out_slot(const std::string& n) { for (int k = 0; k < NOUT; k++) if (n == OUT_NAME[k]) return k; return NOUT; }
enum RT { R_NONE, R_INT, R_UINT, R_LONG, R_ULONG, R_LL, R_ULL, R_DOUBLE, R_STR, R_PTR, R_CPTR, R_N };
static const char* RT_NAME[R_N] = { "none", "int", "uint", "long", "ulong", "llong", "ullong", "double", "str", "ptr", "cptr" };
enum API { A_ONE, A_N, A_NOCALL };
enum FETCH { F_LAZY, F_CALL_TYPED, F_CALL_GENERIC, F_MOCK_TYPED, F_ORDEFAULT, F_N };
static const char* FETCH_NAME[F_N] = { "none", "call.returnXValue", "call.returnValue().getX", "mock.xReturnValue", "call.returnXOrDefault" };

struct ExpD {
    int idx; std::string scope, name; std::vector<Item> items; bool ignoreOther; unsigned count; int api;
    int retType;
    std::string fq() const { return scope.empty() ? name : scope + "::" + name; }
};
struct CallD {
    std::string scope, name; std::vector<Item> items; int fetch; int retType; int intended;
    std::string fq() const { return scope.empty() ? name : scope + "::" + name; }
};
// entries in the mock's named data store (mock().setData / setDataObject). They are no expectations and no calls: the verdict must not depend on them,
// wherever and whenever they are stored (the store is shared with the mock's scopes).
enum DK { DK_INT, DK_UINT, DK_BOOL, DK_STR, DK_DOUBLE, DK_PTR, DK_CPTR, DK_FPTR, DK_OBJ, DK_COBJ, DK_N };
static const char* DK_NAME[DK_N] = { "int", "unsigned", "bool", "string", "double", "pointer", "const-pointer", "function-pointer", "object", "const-object" };
enum DW { W_SETUP, W_AFTER_EXPECTATIONS, W_BEFORE_CALL, W_BEFORE_VERDICT, W_N };      // W_SETUP: before the at-th scope of the scenario is used for the first time (at = #scopes: after all of them)
static const char* DW_NAME[W_N] = { "before-scope", "after-the-expectations", "before-call", "before-the-verdict" };
struct DataD { std::string store, name; int kind = DK_INT, when = W_SETUP; size_t at = 0; };
enum MODE { M_FIXTURE, M_PLUGIN, M_RECORD, M_N };
static const char* MODE_NAME[M_N] = { "fixture+default-reporter", "fixture+MockSupportPlugin", "fixture+recording-reporter" };
// earlier tests of the same run (same TestResult, same registry / plugin) that precede the judged scenario: the verdict of a test must not depend on them
enum PRE { P_PASS_EMPTY, P_PASS_MOCK, P_FAIL_PLAIN, P_FAIL_MOCK_CALL, P_FAIL_MOCK_END, P_N };
static const char* PRE_NAME[P_N] = { "passing-test-without-mocks", "passing-mock-test", "test-failing-without-mocks", "test-failing-at-an-unexpected-mock-call", "test-failing-with-an-unfulfilled-expectation" };
static bool pre_fails(int k) { return k >= P_FAIL_PLAIN; }
struct Scenario {
    std::vector<int> history;                     // PRE kinds, in run order
    std::vector<std::string> scopes;              // "" = global
    std::vector<std::string> ignoreScopes;        // scopes with ignoreOtherCalls ("" means mock().ignoreOtherCalls(), which covers every scope)
    bool strict = false; int mode = M_FIXTURE; bool ignoreBeforeExpectations = false; bool usesT1 = false;
    std::vector<ExpD> exps; std::vector<CallD> calls; std::string deviation = "none"; bool permuted = false;
    int storage = ST_SEPARATE;                    // of by-reference parameter values (see ST)
    std::vector<DataD> data;                      // entries put into the mock's data store while the scenario runs
};
// the scopes that come into existence after an entry was put into the global mock's data store (scopes and data entries share one list)
static std::set<std::string> scopes_created_after_data(const Scenario& s) {
    std::set<std::string> created, after; bool dataSeen = false;
    for (size_t k = 0; k <= s.scopes.size(); k++) {
        for (const DataD& d : s.data) if (d.when == W_SETUP && d.at == k) {
            if (d.store.empty()) dataSeen = true;
            else if (created.insert(d.store).second && dataSeen) after.insert(d.store);
        }
        if (k < s.scopes.size() && !s.scopes[k].empty() && created.insert(s.scopes[k]).second && dataSeen) after.insert(s.scopes[k]);
    }
    return after;
}

static const Item* find_item(const std::vector<Item>& v, int kindA, int kindB, const std::string& name) {
    for (const Item& i : v) if ((i.kind == kindA || i.kind == kindB) && i.name == name) return &i;
    return nullptr;
}
static const Item* find_obj(const std::vector<Item>& v) { for (const Item& i : v) if (i.kind == I_OBJ) return &i; return nullptr; }

static std::string item_text(const Item& i, bool expSide = false) {
    switch (i.kind) {
    case I_OBJ: return "onObject#" + std::to_string(i.obj);
    case I_IN: return i.name + ":" + VT_NAME[i.type] + "=" + val_text(i.type, i.vi);
    case I_OUT: return i.name + ":out" + (expSide ? (i.unmod ? std::string("=unmodified") : "=" + std::to_string(i.olen) + "B") : std::string());
    default: return i.name + ":out<T1>";
    }
}
static std::string items_text(const std::vector<Item>& v, bool expSide = false) { std::string s; for (size_t k = 0; k < v.size(); k++) { if (k) s += ", "; s += item_text(v[k], expSide); } return s; }
static std::string exp_text(const ExpD& e) {
    std::string s = "#" + std::to_string(e.idx) + " " + e.fq() + "(" + items_text(e.items, true) + (e.ignoreOther ? (e.items.empty() ? "..." : ", ...") : "") + ")";
    s += " x" + std::to_string(e.count) + (e.api == A_NOCALL ? " [expectNoCall]" : e.api == A_ONE ? " [expectOneCall]" : " [expectNCalls]");
    s += std::string(" ret:") + RT_NAME[e.retType];
    return s;
}
static std::string call_text(const CallD& c) { return c.fq() + "(" + items_text(c.items) + ") fetch=" + FETCH_NAME[c.fetch]; }

// ====================================================================== the model
enum KIND { K_NONE, K_UNEXPECTED_CALL, K_ADDITIONAL, K_PARAM_NAME, K_PARAM_VALUE, K_MISSING, K_OBJ_WRONG, K_OBJ_MISSING, K_OUT_NAME, K_OUT_TYPE,
            K_UNFULFILLED, K_OUT_OF_ORDER, K_UNDECODABLE, K_N };
static const char* KIND_NAME[K_N] = { "none", "unexpected-call", "additional-call", "parameter-name", "parameter-value", "missing-parameter", "unexpected-object",
                                      "object-did-not-happen", "output-parameter-name", "output-parameter-type", "unfulfilled", "out-of-order", "undecodable" };
static std::string kinds_text(const std::set<int>& s) { std::string o; for (int k : s) { if (!o.empty()) o += "+"; o += KIND_NAME[k]; } return o.empty() ? "none" : o; }

// canonical class of an expectation: everything the property lists as identity of a call
static std::string class_key(const ExpD& e) {
    std::vector<std::string> parts;
    for (const Item& i : e.items) {
        if (i.kind == I_OBJ) parts.push_back("@" + std::to_string(i.obj));
        else if (i.kind == I_IN) parts.push_back("i:" + i.name + ":" + std::to_string(i.type) + ":" + std::to_string(i.vi));
        else parts.push_back(std::string(i.kind == I_OUT ? "o:" : "t:") + i.name);
    }
    std::sort(parts.begin(), parts.end());
    std::string k = e.fq() + (e.ignoreOther ? "|~" : "|=");
    for (auto& p : parts) k += "|" + p;
    return k;
}

static bool out_kind_compatible(const Item& e, const Item& c) { return e.kind == c.kind; }

// does the actual call equal the expected call (as a call: function, object, every parameter name/type/value, outputs)?
static bool call_equals(const ExpD& e, const CallD& c, bool& undecidable) {
    if (e.fq() != c.fq()) return false;
    const Item* eo = find_obj(e.items); const Item* co = find_obj(c.items);
    if (eo) { if (!co || co->obj != eo->obj) return false; }
    else if (co) { undecidable = true; return false; }     // object passed where none is expected: outside the generated class
    for (const Item& ei : e.items) {
        if (ei.kind == I_IN) {
            const Item* ci = find_item(c.items, I_IN, I_IN, ei.name);
            if (!ci) return false;
            if (ci->type != ei.type) { if (is_integer_type(ci->type) && is_integer_type(ei.type)) undecidable = true; return false; }
            if (ci->vi != ei.vi) return false;
        } else if (ei.kind == I_OUT || ei.kind == I_OUTT) {
            const Item* ci = find_item(c.items, I_OUT, I_OUTT, ei.name);
            if (!ci || !out_kind_compatible(ei, *ci)) return false;
        }
    }
    if (!e.ignoreOther)
        for (const Item& ci : c.items) {
            if (ci.kind == I_IN && !find_item(e.items, I_IN, I_IN, ci.name)) return false;
            if ((ci.kind == I_OUT || ci.kind == I_OUTT) && !find_item(e.items, I_OUT, I_OUTT, ci.name)) return false;
        }
    return true;
}

struct Diff { std::set<int> kinds; std::set<std::string> valueNames, nameNames, outNames; bool missingItemCarriedBefore = false; };

// the real differences between a call and one expectation of the same function
static void add_diffs(const ExpD& e, const CallD& c, const std::vector<const ExpD*>& allOfF, Diff& d) {
    const Item* eo = find_obj(e.items); const Item* co = find_obj(c.items);
    if (eo) { if (!co) d.kinds.insert(K_OBJ_MISSING); else if (co->obj != eo->obj) d.kinds.insert(K_OBJ_WRONG); }
    for (const Item& ci : c.items) {
        if (ci.kind == I_IN) {
            const Item* ei = find_item(e.items, I_IN, I_IN, ci.name);
            if (!ei) {
                if (!e.ignoreOther) {
                    d.kinds.insert(K_PARAM_NAME); d.nameNames.insert(ci.name);
                    for (const ExpD* o : allOfF) if (find_item(o->items, I_IN, I_IN, ci.name)) { d.kinds.insert(K_PARAM_VALUE); d.valueNames.insert(ci.name); }   // the name is known to the function, only not here
                }
            } else if (ei->type != ci.type || ei->vi != ci.vi) { d.kinds.insert(K_PARAM_VALUE); d.valueNames.insert(ci.name); }
        } else if (ci.kind == I_OUT || ci.kind == I_OUTT) {
            const Item* ei = find_item(e.items, I_OUT, I_OUTT, ci.name);
            if (!ei) {
                if (!e.ignoreOther) {
                    d.kinds.insert(K_OUT_NAME); d.outNames.insert(ci.name);
                    for (const ExpD* o : allOfF) if (find_item(o->items, I_OUT, I_OUTT, ci.name)) { d.kinds.insert(K_OUT_TYPE); d.outNames.insert(ci.name); }
                }
            } else if (!out_kind_compatible(*ei, ci)) { d.kinds.insert(K_OUT_TYPE); d.outNames.insert(ci.name); }
        }
    }
    for (const Item& ei : e.items) {
        if (ei.kind == I_IN && !find_item(c.items, I_IN, I_IN, ei.name)) d.kinds.insert(K_MISSING);
        if ((ei.kind == I_OUT || ei.kind == I_OUTT) && !find_item(c.items, I_OUT, I_OUTT, ei.name)) d.kinds.insert(K_MISSING);
    }
}

static bool items_share(const Item& a, const Item& b) {
    if (a.kind != b.kind) return false;
    if (a.kind == I_OBJ) return a.obj == b.obj;
    if (a.kind == I_IN) return a.name == b.name && a.type == b.type && a.vi == b.vi;
    return a.name == b.name;
}

enum CS { CS_CONSUME, CS_IGNORED, CS_DEVIATE, CS_AFTER };
struct Model {
    bool undecidable = false;
    int devIdx = -1;                       // first call that cannot be consumed
    std::set<int> accept;                  // acceptable diagnoses of the single failure (empty: the scenario must pass)
    Diff diff; std::string devFunc; unsigned ordinal = 0;
    bool devClassExistsExhausted = false;
    std::vector<int> state; std::vector<std::vector<int>> match;   // per call: state and indices of the (pairwise equal) expectations it equals
    int orderBrokenAt = -1;
    bool seqDiffersFromExpectationOrder = false;
    std::string shape = "fresh";           // history shape of the deviating call (see partial_prior)
    std::set<std::string> lacks;           // what the deviating call lacks relative to an open expectation that otherwise contains it
    std::set<int> closest;                 // the smallest set of differences to one open expectation (names the input class in violation keys)
    std::set<std::string> openScopes;      // end-of-test failure: the scopes that hold the unfulfilled expectations
};

static std::string ordinal_text(unsigned n) {
    const char* suf = "th";
    if (n % 100 < 11 || n % 100 > 13) { if (n % 10 == 1) suf = "st"; else if (n % 10 == 2) suf = "nd"; else if (n % 10 == 3) suf = "rd"; }
    return std::to_string(n) + suf;
}

static bool scope_ignores(const Scenario& s, const std::string& scope) {
    for (const std::string& g : s.ignoreScopes) if (g.empty() || g == scope) return true;
    return false;
}

// history shape: an earlier call to the same function, of another class, shared at least one item with the call / expectation in question
static bool partial_prior(const Scenario& s, size_t upto, const std::string& fq, const std::vector<Item>& wanted, const std::string& notClass, const Model& m) {
    for (size_t j = 0; j < upto; j++) {
        const CallD& p = s.calls[j];
        if (p.fq() != fq) continue;
        if (m.state[j] == CS_CONSUME && !m.match[j].empty() && class_key(s.exps[(size_t) m.match[j][0]]) == notClass) continue;
        for (const Item& a : p.items) for (const Item& b : wanted) if (items_share(a, b)) return true;
    }
    return false;
}

static Model run_model(const Scenario& s) {
    Model m;
    size_t n = s.calls.size();
    m.state.assign(n, CS_AFTER); m.match.assign(n, {});
    std::map<std::string, unsigned> remaining;            // per class
    std::map<std::string, unsigned> fulfilledPerFunction;
    std::map<std::string, std::vector<std::string>> expectedSeq;   // per scope, expanded
    std::map<std::string, size_t> pos;
    std::vector<std::string> globalExpectedSeq, globalActualSeq;
    for (const ExpD& e : s.exps) {
        std::string k = class_key(e);
        remaining[k] += e.count;
        for (unsigned r = 0; r < e.count; r++) { expectedSeq[e.scope].push_back(k); globalExpectedSeq.push_back(k); }
    }
    for (size_t i = 0; i < n; i++) {
        const CallD& c = s.calls[i];
        std::vector<const ExpD*> ofF;
        for (const ExpD& e : s.exps) if (e.fq() == c.fq()) ofF.push_back(&e);
        if (ofF.empty()) {
            if (scope_ignores(s, c.scope)) { m.state[i] = CS_IGNORED; continue; }
            m.devIdx = (int) i; m.state[i] = CS_DEVIATE; m.accept.insert(K_UNEXPECTED_CALL); m.devFunc = c.fq();
            break;
        }
        std::vector<int> M;
        for (const ExpD* e : ofF) if (call_equals(*e, c, m.undecidable)) M.push_back(e->idx);
        for (size_t a = 1; a < M.size(); a++) if (class_key(s.exps[(size_t) M[a]]) != class_key(s.exps[(size_t) M[0]])) m.undecidable = true;   // outside "unambiguous matching"
        if (m.undecidable) return m;
        if (!M.empty() && remaining[class_key(s.exps[(size_t) M[0]])] > 0) {
            std::string k = class_key(s.exps[(size_t) M[0]]);
            remaining[k]--; fulfilledPerFunction[c.fq()]++;
            m.state[i] = CS_CONSUME; m.match[i] = M;
            globalActualSeq.push_back(k);
            if (s.strict) {
                size_t p = pos[c.scope]++;
                const std::vector<std::string>& es = expectedSeq[c.scope];
                if ((p >= es.size() || es[p] != k) && m.orderBrokenAt < 0) m.orderBrokenAt = (int) i;
            }
            continue;
        }
        // first deviation
        m.devIdx = (int) i; m.state[i] = CS_DEVIATE; m.devFunc = c.fq(); m.match[i] = M;
        std::vector<const ExpD*> open;
        for (const ExpD* e : ofF) if (remaining[class_key(*e)] > 0) open.push_back(e);
        m.ordinal = fulfilledPerFunction[c.fq()] + 1;
        if (open.empty()) m.accept.insert(fulfilledPerFunction[c.fq()] > 0 ? K_ADDITIONAL : K_UNEXPECTED_CALL);
        else {
            std::set<std::string> seen;
            for (const ExpD* e : open) {
                if (!seen.insert(class_key(*e)).second) continue;
                add_diffs(*e, c, ofF, m.diff);
                { Diff one; add_diffs(*e, c, ofF, one); if (m.closest.empty() || one.kinds.size() < m.closest.size() || (one.kinds.size() == m.closest.size() && kinds_text(one.kinds) < kinds_text(m.closest))) m.closest = one.kinds; }
                // shape: does this open expectation contain the call, with the missing items carried by an earlier call of another class?
                std::vector<Item> missing; bool contained = true;
                for (const Item& ci : c.items) { bool f = false; for (const Item& ei : e->items) if (items_share(ci, ei)) f = true; if (!f && !(e->ignoreOther && ci.kind != I_OBJ)) contained = false; }
                for (const Item& ei : e->items) { bool f = false; for (const Item& ci : c.items) if (items_share(ci, ei)) f = true; if (!f) missing.push_back(ei); }
                if (contained && !missing.empty()) {
                    for (const Item& mi : missing) m.lacks.insert(mi.kind == I_OBJ ? "object" : mi.kind == I_IN ? "parameter" : "output-parameter");
                    if (partial_prior(s, i, c.fq(), missing, class_key(*e), m)) m.shape = "after-partial-match";
                }
            }
            m.accept = m.diff.kinds;
            if (!M.empty()) { m.accept.insert(fulfilledPerFunction[c.fq()] > 0 ? K_ADDITIONAL : K_UNEXPECTED_CALL); m.devClassExistsExhausted = true; }   // a surplus call may also be called a surplus call
        }
        if (m.orderBrokenAt >= 0) m.accept.insert(K_OUT_OF_ORDER);   // an order deviation happened earlier; reporting it first is legitimate
        break;
    }
    m.seqDiffersFromExpectationOrder = globalActualSeq != globalExpectedSeq;
    if (m.devIdx >= 0) return m;
    bool left = false;
    for (auto& kv : remaining) if (kv.second > 0) left = true;
    if (left) for (const ExpD& e : s.exps) if (remaining[class_key(e)] > 0) m.openScopes.insert(e.scope);
    if (left) { m.accept.insert(K_UNFULFILLED); if (m.orderBrokenAt >= 0) m.accept.insert(K_OUT_OF_ORDER); }
    else if (m.orderBrokenAt >= 0) m.accept.insert(K_OUT_OF_ORDER);
    return m;
}

// ====================================================================== diagnosis decoder (first line of the failure message)
struct Diag { int kind = K_UNDECODABLE; std::string func, param, ord, type; };
static bool eat(const std::string& s, size_t& p, const char* lit) { size_t n = strlen(lit); if (s.compare(p, n, lit) == 0) { p += n; return true; } return false; }
static bool upto(const std::string& s, size_t& p, const char* lit, std::string& out) { size_t q = s.find(lit, p); if (q == std::string::npos) return false; out = s.substr(p, q - p); p = q + strlen(lit); return true; }
static Diag decode(const std::string& line) {
    Diag d; size_t p = 0;
    if (eat(line, p, "Mock Failure: Unexpected call to function: ")) { d.kind = K_UNEXPECTED_CALL; d.func = line.substr(p); }
    else if (eat(line, p, "Mock Failure: Unexpected additional (")) { if (upto(line, p, ") call to function: ", d.ord)) { d.kind = K_ADDITIONAL; d.func = line.substr(p); } }
    else if (eat(line, p, "Mock Failure: Unexpected parameter name to function \"")) { if (upto(line, p, "\": ", d.func)) { d.kind = K_PARAM_NAME; d.param = line.substr(p); } }
    else if (eat(line, p, "Mock Failure: Unexpected parameter value to parameter \"")) { if (upto(line, p, "\" to function \"", d.param) && upto(line, p, "\": <", d.func)) d.kind = K_PARAM_VALUE; }
    else if (eat(line, p, "Mock Failure: Expected parameter for function \"")) { if (upto(line, p, "\" did not happen.", d.func)) d.kind = K_MISSING; }
    else if (eat(line, p, "MockFailure: Function called on an unexpected object: ")) { d.kind = K_OBJ_WRONG; d.func = line.substr(p); }
    else if (eat(line, p, "Mock Failure: Expected call on object for function \"")) { if (upto(line, p, "\" but it did not happen.", d.func)) d.kind = K_OBJ_MISSING; }
    else if (eat(line, p, "Mock Failure: Unexpected output parameter name to function \"")) { if (upto(line, p, "\": ", d.func)) { d.kind = K_OUT_NAME; d.param = line.substr(p); } }
    else if (eat(line, p, "Mock Failure: Unexpected parameter type \"")) { if (upto(line, p, "\" to output parameter \"", d.type) && upto(line, p, "\" to function \"", d.param) && upto(line, p, "\"", d.func)) d.kind = K_OUT_TYPE; }
    else if (line == "Mock Failure: Expected call WAS NOT fulfilled.") d.kind = K_UNFULFILLED;
    else if (line == "Mock Failure: Out of order calls") d.kind = K_OUT_OF_ORDER;
    return d;
}

// ====================================================================== runner (the real code)
static const size_t MAXCALLS = 64, OUTBUF = 16;
struct CallRec { bool started, returned, hasRet, gotDefault, fetched; long long retId; unsigned char buf[NSLOT][OUTBUF + 8]; int typedDst[NSLOT]; };
static CallRec g_rec[MAXCALLS];
static const Scenario* g_sc;
static bool g_reachedEnd, g_bodyDone;

// Recording reporter: does not terminate the test; the body stops at the first check point after a failure.
struct RecReporter : public MockFailureReporter {
    int count = 0; std::vector<std::string> lines;
    virtual void failTest(const MockFailure& f) { count++; std::string m = f.getMessage().asCharString(); size_t nl = m.find('\n'); if (lines.size() < 4) lines.push_back(nl == std::string::npos ? m : m.substr(0, nl)); }
};
static RecReporter* g_rep;

static unsigned char g_outBytes[32][NOUT][8];      // unique per (expectation, output parameter slot)
static int g_outTyped[32][NOUT];
static char g_retStr[32][8];
static int g_retObj[32];

static MockSupport& ms_of(const std::string& scope) { return scope.empty() ? mock() : mock(scope.c_str()); }

static void expect_in(MockExpectedCall& ec, const Item& it) {
    const char* n = it.name.c_str();
    switch (it.type) {
    case T_INT: ec.withParameter(n, V_INT[it.vi]); break;
    case T_UINT: ec.withParameter(n, V_UINT[it.vi]); break;
    case T_LONG: ec.withParameter(n, V_LONG[it.vi]); break;
    case T_ULONG: ec.withParameter(n, V_ULONG[it.vi]); break;
    case T_LL: ec.withParameter(n, V_LL[it.vi]); break;
    case T_ULL: ec.withParameter(n, V_ULL[it.vi]); break;
    case T_BOOL: ec.withParameter(n, V_BOOL[it.vi]); break;
    case T_DOUBLE: ec.withParameter(n, V_DOUBLE[it.vi]); break;
    case T_STR: ec.withParameter(n, str_addr(g_storage, false, it.vi)); break;
    case T_PTR: ec.withParameter(n, (void*) &pobj[it.vi]); break;
    case T_CPTR: ec.withParameter(n, (const void*) &pobj[it.vi]); break;
    case T_FPTR: ec.withParameter(n, V_FN[it.vi]); break;
    case T_MEM: ec.withParameter(n, mem_addr(g_storage, false, it.vi), V_MEM[it.vi].n); break;
    default: ec.withParameterOfType("T1", n, obj_addr(g_storage, false, it.vi)); break;
    }
}
static void pass_in(MockActualCall& ac, const Item& it) {
    const char* n = it.name.c_str();
    switch (it.type) {
    case T_INT: ac.withParameter(n, V_INT[it.vi]); break;
    case T_UINT: ac.withParameter(n, V_UINT[it.vi]); break;
    case T_LONG: ac.withParameter(n, V_LONG[it.vi]); break;
    case T_ULONG: ac.withParameter(n, V_ULONG[it.vi]); break;
    case T_LL: ac.withParameter(n, V_LL[it.vi]); break;
    case T_ULL: ac.withParameter(n, V_ULL[it.vi]); break;
    case T_BOOL: ac.withParameter(n, V_BOOL[it.vi]); break;
    case T_DOUBLE: ac.withParameter(n, V_DOUBLE[it.vi]); break;
    case T_STR: ac.withParameter(n, str_addr(g_storage, true, it.vi)); break;
    case T_PTR: ac.withParameter(n, (void*) &pobj[it.vi]); break;
    case T_CPTR: ac.withParameter(n, (const void*) &pobj[it.vi]); break;
    case T_FPTR: ac.withParameter(n, V_FN[it.vi]); break;
    case T_MEM: ac.withParameter(n, mem_addr(g_storage, true, it.vi), V_MEM[it.vi].n); break;
    default: ac.withParameterOfType("T1", n, obj_addr(g_storage, true, it.vi)); break;
    }
}

static void declare_expectation(const ExpD& e) {
    MockSupport& ms = ms_of(e.scope);
    if (e.api == A_NOCALL) { ms.expectNoCall(e.name.c_str()); return; }
    MockExpectedCall& ec = e.api == A_ONE ? ms.expectOneCall(e.name.c_str()) : ms.expectNCalls(e.count, e.name.c_str());
    for (const Item& it : e.items) {
        switch (it.kind) {
        case I_OBJ: ec.onObject(it.obj == 3 ? nullptr : (void*) &pobj[it.obj]); break;          // object #3 is the null object: a specific object like any other
        case I_IN: expect_in(ec, it); break;
        case I_OUT: if (it.unmod) ec.withUnmodifiedOutputParameter(it.name.c_str()); else ec.withOutputParameterReturning(it.name.c_str(), g_outBytes[e.idx][out_slot(it.name)], it.olen); break;
        default: ec.withOutputParameterOfTypeReturning("T1", it.name.c_str(), &g_outTyped[e.idx][out_slot(it.name)]); break;
        }
    }
    if (e.ignoreOther) ec.ignoreOtherParameters();
    int id = e.idx;
    switch (e.retType) {
    case R_INT: ec.andReturnValue((int) (INT_MAX - 40 + id)); break;
    case R_UINT: ec.andReturnValue((unsigned int) (UINT_MAX - 40u + (unsigned) id)); break;
    case R_LONG: ec.andReturnValue((long int) (LONG_MIN + id)); break;
    case R_ULONG: ec.andReturnValue((unsigned long int) (ULONG_MAX - (unsigned long) id)); break;
    case R_LL: ec.andReturnValue((long long) (LLONG_MAX - id)); break;
    case R_ULL: ec.andReturnValue((unsigned long long) ((1ULL << 63) + (unsigned long long) id)); break;
    case R_DOUBLE: ec.andReturnValue(0.25 + 1.5 * id); break;
    case R_STR: ec.andReturnValue((const char*) g_retStr[id]); break;
    case R_PTR: ec.andReturnValue((void*) &g_retObj[id]); break;
    case R_CPTR: ec.andReturnValue((const void*) &g_retObj[id]); break;
    default: break;
    }
}

static long long decode_ptr(const void* p) {
    for (int i = 0; i < 32; i++) if (p == (const void*) &g_retObj[i]) return i;
    return -2;
}
static long long decode_str(const char* p) {
    if (!p) return -2;
    for (int i = 0; i < 32; i++) if (strcmp(p, g_retStr[i]) == 0) return i;
    return -2;
}
static long long in_range(long long id) { return id >= 0 && id < 32 ? id : -2; }

// A mock function body may read an integer return value through a WIDER getter than the type it was set with (the conversions the getters
// document: int -> any type that holds it, unsigned int -> long / unsigned long / long long / unsigned long long, long -> long long,
// unsigned long -> unsigned long long): the number must come back unchanged. wide: 1 unsigned int, 2 long, 3 unsigned long, 4 long long, 5 unsigned long long.
typedef __int128 wide_t;
static wide_t fetch_wide(MockActualCall& ac, MockSupport& ms, int how, int wide, bool& gotDefault) {
    switch (wide) {
    case 1: { unsigned d = 77u, v = how == F_CALL_TYPED ? ac.returnUnsignedIntValue() : how == F_CALL_GENERIC ? ac.returnValue().getUnsignedIntValue() : how == F_MOCK_TYPED ? ms.unsignedIntReturnValue() : ac.returnUnsignedIntValueOrDefault(d);
              gotDefault = how == F_ORDEFAULT && v == d; return (wide_t) v; }
    case 2: { long d = 77, v = how == F_CALL_TYPED ? ac.returnLongIntValue() : how == F_CALL_GENERIC ? ac.returnValue().getLongIntValue() : how == F_MOCK_TYPED ? ms.longIntReturnValue() : ac.returnLongIntValueOrDefault(d);
              gotDefault = how == F_ORDEFAULT && v == d; return (wide_t) v; }
    case 3: { unsigned long d = 77, v = how == F_CALL_TYPED ? ac.returnUnsignedLongIntValue() : how == F_CALL_GENERIC ? ac.returnValue().getUnsignedLongIntValue() : how == F_MOCK_TYPED ? ms.unsignedLongIntReturnValue() : ac.returnUnsignedLongIntValueOrDefault(d);
              gotDefault = how == F_ORDEFAULT && v == d; return (wide_t) v; }
    case 4: { long long d = 77, v = how == F_CALL_TYPED ? ac.returnLongLongIntValue() : how == F_CALL_GENERIC ? ac.returnValue().getLongLongIntValue() : how == F_MOCK_TYPED ? ms.longLongIntReturnValue() : ac.returnLongLongIntValueOrDefault(d);
              gotDefault = how == F_ORDEFAULT && v == d; return (wide_t) v; }
    default: { unsigned long long d = 77, v = how == F_CALL_TYPED ? ac.returnUnsignedLongLongIntValue() : how == F_CALL_GENERIC ? ac.returnValue().getUnsignedLongLongIntValue() : how == F_MOCK_TYPED ? ms.unsignedLongLongIntReturnValue() : ac.returnUnsignedLongLongIntValueOrDefault(d);
               gotDefault = how == F_ORDEFAULT && v == d; return (wide_t) v; }
    }
}
static unsigned long g_wideFetches[6];
// fetch the return value the way a mock function body would; returns the decoded expectation id (-2: not one of ours)
static long long fetch_typed(MockActualCall& ac, MockSupport& ms, int how, int rt, bool& gotDefault, unsigned sel = 0) {
    gotDefault = false;
    {
        static const int W_INT[] = { 0, 1, 2, 3, 4, 5 }, W_UINT[] = { 0, 2, 3, 4, 5 }, W_LONG[] = { 0, 4 }, W_ULONG[] = { 0, 5 };
        int wide = rt == R_INT ? W_INT[sel % 6] : rt == R_UINT ? W_UINT[sel % 5] : rt == R_LONG ? W_LONG[sel % 2] : rt == R_ULONG ? W_ULONG[sel % 2] : 0;
        if (wide) {
            wide_t v = fetch_wide(ac, ms, how, wide, gotDefault);
            if (gotDefault) return -1;
            g_wideFetches[wide]++;
            wide_t id = rt == R_INT ? v - (wide_t) (INT_MAX - 40) : rt == R_UINT ? v - (wide_t) (UINT_MAX - 40u) : rt == R_LONG ? v - (wide_t) LONG_MIN : (wide_t) ULONG_MAX - v;
            return id >= 0 && id < 32 ? (long long) id : -2;
        }
    }
    switch (rt) {
    case R_INT: { int d = -77, v = how == F_CALL_TYPED ? ac.returnIntValue() : how == F_CALL_GENERIC ? ac.returnValue().getIntValue() : how == F_MOCK_TYPED ? ms.intReturnValue() : ac.returnIntValueOrDefault(d);
                  if (how == F_ORDEFAULT && v == d) { gotDefault = true; return -1; } return in_range((long long) v - (INT_MAX - 40)); }
    case R_UINT: { unsigned d = 77u, v = how == F_CALL_TYPED ? ac.returnUnsignedIntValue() : how == F_CALL_GENERIC ? ac.returnValue().getUnsignedIntValue() : how == F_MOCK_TYPED ? ms.unsignedIntReturnValue() : ac.returnUnsignedIntValueOrDefault(d);
                   if (how == F_ORDEFAULT && v == d) { gotDefault = true; return -1; } return in_range((long long) v - (long long) (UINT_MAX - 40u)); }
    case R_LONG: { long d = 77, v = how == F_CALL_TYPED ? ac.returnLongIntValue() : how == F_CALL_GENERIC ? ac.returnValue().getLongIntValue() : how == F_MOCK_TYPED ? ms.longIntReturnValue() : ac.returnLongIntValueOrDefault(d);
                   if (how == F_ORDEFAULT && v == d) { gotDefault = true; return -1; } return v < LONG_MIN + 32 ? (long long) (v - LONG_MIN) : -2; }
    case R_ULONG: { unsigned long d = 77, v = how == F_CALL_TYPED ? ac.returnUnsignedLongIntValue() : how == F_CALL_GENERIC ? ac.returnValue().getUnsignedLongIntValue() : how == F_MOCK_TYPED ? ms.unsignedLongIntReturnValue() : ac.returnUnsignedLongIntValueOrDefault(d);
                    if (how == F_ORDEFAULT && v == d) { gotDefault = true; return -1; } return ULONG_MAX - v < 32 ? (long long) (ULONG_MAX - v) : -2; }
    case R_LL: { long long d = 77, v = how == F_CALL_TYPED ? ac.returnLongLongIntValue() : how == F_CALL_GENERIC ? ac.returnValue().getLongLongIntValue() : how == F_MOCK_TYPED ? ms.longLongIntReturnValue() : ac.returnLongLongIntValueOrDefault(d);
                 if (how == F_ORDEFAULT && v == d) { gotDefault = true; return -1; } return v > LLONG_MAX - 32 ? LLONG_MAX - v : -2; }
    case R_ULL: { unsigned long long d = 77, v = how == F_CALL_TYPED ? ac.returnUnsignedLongLongIntValue() : how == F_CALL_GENERIC ? ac.returnValue().getUnsignedLongLongIntValue() : how == F_MOCK_TYPED ? ms.unsignedLongLongIntReturnValue() : ac.returnUnsignedLongLongIntValueOrDefault(d);
                  if (how == F_ORDEFAULT && v == d) { gotDefault = true; return -1; } return v >= (1ULL << 63) && v < (1ULL << 63) + 32 ? (long long) (v - (1ULL << 63)) : -2; }
    case R_DOUBLE: { double d = -7.5, v = how == F_CALL_TYPED ? ac.returnDoubleValue() : how == F_CALL_GENERIC ? ac.returnValue().getDoubleValue() : how == F_MOCK_TYPED ? ms.doubleReturnValue() : ac.returnDoubleValueOrDefault(d);
                     if (how == F_ORDEFAULT && v == d) { gotDefault = true; return -1; }
                     double k = (v - 0.25) / 1.5; long long id = (long long) llround(k); return id >= 0 && id < 32 && 0.25 + 1.5 * (double) id == v ? id : -2; }
    case R_STR: { const char* d = "dflt"; const char* v = how == F_CALL_TYPED ? ac.returnStringValue() : how == F_CALL_GENERIC ? ac.returnValue().getStringValue() : how == F_MOCK_TYPED ? ms.stringReturnValue() : ac.returnStringValueOrDefault(d);
                  if (how == F_ORDEFAULT && v == d) { gotDefault = true; return -1; } return decode_str(v); }
    case R_PTR: { void* d = (void*) &pobj[0]; void* v = how == F_CALL_TYPED ? ac.returnPointerValue() : how == F_CALL_GENERIC ? ac.returnValue().getPointerValue() : how == F_MOCK_TYPED ? ms.pointerReturnValue() : ac.returnPointerValueOrDefault(d);
                  if (how == F_ORDEFAULT && v == d) { gotDefault = true; return -1; } return decode_ptr(v); }
    default: { const void* d = (const void*) &pobj[0]; const void* v = how == F_CALL_TYPED ? ac.returnConstPointerValue() : how == F_CALL_GENERIC ? ac.returnValue().getConstPointerValue() : how == F_MOCK_TYPED ? ms.constPointerReturnValue() : ac.returnConstPointerValueOrDefault(d);
               if (how == F_ORDEFAULT && v == d) { gotDefault = true; return -1; } return decode_ptr(v); }
    }
}

static bool rec_failed() { return g_rep && g_rep->count > 0; }

// returns false when (recording mode) the call failed
static bool run_call(const CallD& c, CallRec& r) {
    MockSupport& ms = ms_of(c.scope);
    MockActualCall& ac = ms.actualCall(c.name.c_str());     // also finalises the previous call of this scope
    if (rec_failed()) return false;
    for (const Item& it : c.items) {
        switch (it.kind) {
        case I_OBJ: ac.onObject(it.obj == 3 ? nullptr : (void*) &pobj[it.obj]); break;
        case I_IN: pass_in(ac, it); break;
        case I_OUT: ac.withOutputParameter(it.name.c_str(), r.buf[out_slot(it.name)]); break;
        default: ac.withOutputParameterOfType("T1", it.name.c_str(), &r.typedDst[out_slot(it.name)]); break;
        }
        if (rec_failed()) return false;
    }
    if (c.fetch == F_LAZY) return true;
    // finalise the call: this is where a missing parameter / object is diagnosed. With a non-terminating (recording) reporter the typed
    // getters must not run on a failed call (they CHECK the value type), so the call is finalised through hasReturnValue() first.
    bool askFirst = g_rep != nullptr || c.retType == R_NONE || c.intended < 0;
    r.hasRet = true;
    if (askFirst) {
        bool has = c.fetch == F_MOCK_TYPED ? ms_of(c.scope).hasReturnValue() : ac.hasReturnValue();
        if (rec_failed()) return false;
        r.fetched = true; r.hasRet = has;
        if (!has || c.retType == R_NONE) {
            if (c.fetch == F_ORDEFAULT && !has) { int v = ac.returnIntValueOrDefault(-4711); r.gotDefault = v == -4711; }
            return true;
        }
    }
    r.fetched = true;
    r.retId = fetch_typed(ac, ms_of(c.scope), c.fetch, c.retType, r.gotDefault, (unsigned) (c.items.size() * 5 + c.name.size() * 3 + (unsigned) (c.intended + 1)));
    return !rec_failed();
}

static int g_dataObj; static unsigned g_dataStored;
static void store_data(const DataD& d) {
    MockSupport& ms = ms_of(d.store); const char* n = d.name.c_str();
    switch (d.kind) {
    case DK_INT: ms.setData(n, -9600); break;
    case DK_UINT: ms.setData(n, 9600u); break;
    case DK_BOOL: ms.setData(n, true); break;
    case DK_STR: ms.setData(n, "data"); break;
    case DK_DOUBLE: ms.setData(n, 2.75); break;
    case DK_PTR: ms.setData(n, (void*) &g_dataObj); break;
    case DK_CPTR: ms.setData(n, (const void*) &g_dataObj); break;
    case DK_FPTR: ms.setData(n, fn0); break;
    case DK_OBJ: ms.setDataObject(n, "DataObj", &g_dataObj); break;
    default: ms.setDataConstObject(n, "DataObj", &g_dataObj); break;
    }
    g_dataStored++;
}
static void store_data_due(const Scenario& s, int when, size_t at) { for (const DataD& d : s.data) if (d.when == when && d.at == at) store_data(d); }

static void body() {
    const Scenario& s = *g_sc;
    if (s.mode == M_RECORD) mock().setMockFailureStandardReporter(g_rep);
    for (size_t k = 0; k < s.scopes.size(); k++) { store_data_due(s, W_SETUP, k); if (!s.scopes[k].empty()) mock(s.scopes[k].c_str()); }
    store_data_due(s, W_SETUP, s.scopes.size());
    if (s.mode != M_PLUGIN && s.usesT1) { mock().installComparator("T1", g_cmp); mock().installCopier("T1", g_cop); }
    if (s.strict) for (const std::string& sc : s.scopes) ms_of(sc).strictOrder();
    if (s.ignoreBeforeExpectations) for (const std::string& sc : s.ignoreScopes) ms_of(sc).ignoreOtherCalls();
    for (const ExpD& e : s.exps) declare_expectation(e);
    store_data_due(s, W_AFTER_EXPECTATIONS, 0);
    if (!s.ignoreBeforeExpectations) for (const std::string& sc : s.ignoreScopes) ms_of(sc).ignoreOtherCalls();
    for (size_t i = 0; i < s.calls.size(); i++) {
        store_data_due(s, W_BEFORE_CALL, i);
        g_rec[i].started = true;
        if (!run_call(s.calls[i], g_rec[i])) { g_bodyDone = true; return; }
        g_rec[i].returned = true;
    }
    if (rec_failed()) { g_bodyDone = true; return; }
    store_data_due(s, W_BEFORE_VERDICT, 0);
    g_reachedEnd = true;
    if (s.mode != M_PLUGIN) mock().checkExpectations();
    g_bodyDone = true;
}

// an earlier test of the run (see Scenario::history). Without the plugin the test itself asks for the verdict, and the harness clears the mock afterwards
// (what a teardown does); with MockSupportPlugin both are the plugin's job.
static int g_preKind;
static void pre_body() {
    bool plugin = g_sc->mode == M_PLUGIN;
    switch (g_preKind) {
    case P_PASS_MOCK: mock().expectOneCall("pre").withParameter("a", 1); mock().actualCall("pre").withParameter("a", 1); if (!plugin) mock().checkExpectations(); break;
    case P_FAIL_PLAIN: FAIL("earlier test of the run fails for a reason unrelated to mocks"); break;
    case P_FAIL_MOCK_CALL: mock().actualCall("pre_unexpected"); break;
    case P_FAIL_MOCK_END: mock().expectOneCall("pre_never"); if (!plugin) mock().checkExpectations(); break;
    default: break;
    }
}

struct Observed { std::vector<size_t> historyFailures; size_t failures = 0; std::vector<std::string> firstLines; int failPos = -1; bool atEnd = false; bool fixtureFailuresInRecordMode = false; unsigned dataStored = 0; };

static void reset_mock() {
    mock().clear();
    mock().setMockFailureStandardReporter(NULLPTR);
    mock().removeAllComparatorsAndCopiers();
}

static Observed run_real(const Scenario& s) {
    Observed o;
    reset_mock();
    for (size_t i = 0; i < MAXCALLS; i++) { CallRec& r = g_rec[i]; r.started = r.returned = r.hasRet = r.gotDefault = r.fetched = false; r.retId = -1; memset(r.buf, 0xEE, sizeof r.buf); for (int k = 0; k < NSLOT; k++) r.typedDst[k] = -1; }
    g_sc = &s; g_reachedEnd = g_bodyDone = false; g_storage = s.storage; g_dataStored = 0;
    RecReporter rep; g_rep = s.mode == M_RECORD ? &rep : nullptr;
    std::string text;
    {
        MockSupportPlugin plugin("C08MockPlugin");
        TestTestingFixture fx;
        if (s.mode == M_PLUGIN) {
            if (s.usesT1) { plugin.installComparator("T1", g_cmp); plugin.installCopier("T1", g_cop); }
            fx.installPlugin(&plugin);
        }
        for (int k : s.history) {
            g_preKind = k;
            size_t before = fx.getFailureCount();
            fx.runTestWithMethod(pre_body);
            o.historyFailures.push_back(fx.getFailureCount() - before);
            if (s.mode != M_PLUGIN) mock().clear();
        }
        size_t failuresBefore = fx.getFailureCount(), textBefore = fx.getOutput().size();
        fx.setTestFunction(body);
        fx.runAllTests();
        o.failures = fx.getFailureCount() - failuresBefore;
        text = fx.getOutput().asCharString() + textBefore;
        if (s.mode == M_PLUGIN) fx.getRegistry()->resetPlugins();
    }
    if (s.mode == M_RECORD) {
        if (o.failures) o.fixtureFailuresInRecordMode = true;
        o.failures = (size_t) rep.count;
        o.firstLines = rep.lines;
    } else {
        size_t p = 0;
        while ((p = text.find("Failure in TEST(", p)) != std::string::npos) {
            size_t nl = text.find("\n\t", p);
            if (nl == std::string::npos) { o.firstLines.push_back("<unparsable>"); break; }
            size_t e = text.find('\n', nl + 2);
            o.firstLines.push_back(text.substr(nl + 2, e == std::string::npos ? std::string::npos : e - nl - 2));
            p = nl + 2;
        }
    }
    g_rep = nullptr;
    for (size_t i = 0; i < s.calls.size(); i++) if (g_rec[i].started && !g_rec[i].returned) { o.failPos = (int) i; break; }
    o.atEnd = g_reachedEnd; o.dataStored = g_dataStored;
    g_storage = ST_SEPARATE;
    reset_mock();
    return o;
}

// ====================================================================== comparison
static std::string traits_of(const Scenario& s, const CallD& c) {
    // input class of the function the call belongs to (for violation keys)
    bool ign = false, obj = false, out = false, dup = false, overload = false; std::set<std::string> classes; std::set<size_t> arities; size_t n = 0, maxOut = 0;
    for (const ExpD& e : s.exps) if (e.fq() == c.fq()) {
        n++; ign |= e.ignoreOther; obj |= find_obj(e.items) != nullptr;
        size_t no = 0; for (const Item& i : e.items) if (i.kind == I_OUT || i.kind == I_OUTT) { out = true; no++; }
        maxOut = std::max(maxOut, no);
        if (!classes.insert(class_key(e)).second) dup = true;
        size_t a = 0; for (const Item& i : e.items) if (i.kind == I_IN) a++; arities.insert(a);
    }
    overload = arities.size() > 1;
    std::string t;
    if (dup) t += "dup,"; if (ign) t += "ignoreOtherParameters,"; if (obj) t += "object,"; if (out) t += maxOut >= 2 ? "outputs," : "output,"; if (overload) t += "overload,";
    if (!t.empty()) t.pop_back();
    return t.empty() ? "plain" : t;
}

// what the caller's buffer of one byte output parameter must hold after a call that consumed e (eo: e's declaration of that parameter)
static void expected_image(const ExpD& e, const Item& eo, unsigned char* img) {
    memset(img, 0xEE, OUTBUF + 8);
    if (!eo.unmod) memcpy(img, g_outBytes[e.idx][out_slot(eo.name)], eo.olen);
}

// input class of the deviating call, for violation keys (no values, no call numbers)
static std::string deviation_class(const Model& m) {
    if (!m.match[(size_t) m.devIdx].empty()) return "surplus-of-exhausted-expectation";        // equals an expectation whose count is used up
    if (m.closest.empty()) return "function-has-no-open-expectation";                            // unknown function, expectNoCall, or everything fulfilled
    return "differs-" + kinds_text(m.closest);                                                    // smallest difference to an open expectation
}

// judge() reports into a buffer: run_scenario decides afterwards whether a violation depends on the earlier tests of the run
struct Sink {
    std::vector<std::pair<std::string, std::string>> viol; std::vector<std::pair<std::string, uint64_t>> counts;
    void violation(const std::string& k, const std::string& d) { viol.emplace_back(k, d); }
    void count(const std::string& n, uint64_t k = 1) { counts.emplace_back(n, k); }
};

static void judge(Sink& c, const Scenario& s, const Model& m, const Observed& o) {
    const std::string perm = s.permuted ? "permuted-parameter-order" : "declared-parameter-order";
    if (o.fixtureFailuresInRecordMode) { c.violation("recording-reporter-bypassed", "a failure reached the test result although a recording MockFailureReporter was installed"); return; }
    std::vector<Diag> diags; for (const std::string& l : o.firstLines) diags.push_back(decode(l));
    std::string got = diags.empty() ? "none" : KIND_NAME[diags[0].kind];
    std::string gotLine = o.firstLines.empty() ? "" : o.firstLines[0];
    // MockSupportPlugin (and the recording reporter) do not terminate the test: when the last call of the test is finalised (and fails) inside checkExpectations(),
    // the same checkExpectations() goes on to its order check and may report a second, DISTINCT deviation (calls out of order earlier in the test).
    // The property demands that the first deviation is reported once with the matching diagnosis; a truthful report of another deviation is not a violation.
    size_t failures = o.failures;
    if (failures == 2 && s.mode != M_FIXTURE && diags.size() == 2 && diags[1].kind == K_OUT_OF_ORDER && diags[0].kind != K_OUT_OF_ORDER && m.orderBrokenAt >= 0) {
        failures = 1; c.count("non_terminating_reporter_got_a_distinct_order_deviation_after_the_first_failure");
    }

    // --- calls before the model's first deviation (all calls, if there is none): each must return, with a value / bytes of an expectation it equals
    std::map<int, unsigned> used;
    size_t limit = m.devIdx >= 0 ? (size_t) m.devIdx : s.calls.size();
    for (size_t i = 0; i < limit; i++) {
        const CallD& cl = s.calls[i]; const CallRec& r = g_rec[i];
        if (!r.returned) {
            if (o.failPos != (int) i) { c.violation("harness-inconsistent:call-skipped", "call " + std::to_string(i) + " neither returned nor failed"); return; }
            if (m.state[i] == CS_IGNORED) { c.violation("ignored-call-failed:" + got, "call " + std::to_string(i) + " " + call_text(cl) + " to a function without expectations failed although other calls are ignored: " + gotLine); return; }
            bool prior = partial_prior(s, i, cl.fq(), cl.items, class_key(s.exps[(size_t) m.match[i][0]]), m);
            c.violation("rejected-matching-call:" + got + ":" + perm + ":" + (prior ? "after-partial-match" : "fresh"),
                        "call " + std::to_string(i) + " " + call_text(cl) + " equals open expectation #" + std::to_string(m.match[i][0]) + " but the test failed there: " + gotLine);
            return;
        }
        if (m.state[i] == CS_IGNORED) {
            if (r.fetched && r.hasRet) c.violation("ignored-call-has-return-value", "call " + std::to_string(i) + " to an ignored function reports a return value");
            c.count("calls_ignored");
            continue;
        }
        // consumed call: identify the expectation the implementation used
        const std::vector<int>& M = m.match[i];
        std::string tr = traits_of(s, cl);
        bool retObservable = r.fetched && cl.retType != R_NONE;
        std::vector<const Item*> outItems; for (const Item& it : cl.items) if (it.kind == I_OUT || it.kind == I_OUTT) outItems.push_back(&it);
        if (r.fetched && cl.retType == R_NONE && r.hasRet) { c.violation("return-value-invented:" + tr, "call " + std::to_string(i) + " " + call_text(cl) + " has a return value although no matching expectation carries one"); return; }
        std::vector<int> cand = M;
        if (retObservable) {
            if (!r.hasRet || r.gotDefault) { c.violation("return-value-missing:" + tr, "call " + std::to_string(i) + " " + call_text(cl) + " returned no value; every matching expectation carries one"); return; }
            if (r.retId < 0 || (size_t) r.retId >= s.exps.size()) { c.violation("return-value-unknown:" + tr, "call " + std::to_string(i) + " " + call_text(cl) + " returned a value no expectation carries"); return; }
            if (std::find(M.begin(), M.end(), (int) r.retId) == M.end()) {
                c.violation("return-from-non-matching-expectation:" + tr, "call " + std::to_string(i) + " " + call_text(cl) + " returned the value of " + exp_text(s.exps[(size_t) r.retId]) + " which differs from the call");
                return;
            }
            cand.assign(1, (int) r.retId);
        }
        if (!outItems.empty()) {
            // every output parameter of the call must hold the bytes of ONE expectation among the candidates (the consumed one), whatever the order in which
            // the call passed its output parameters and whatever the other output parameters of that expectation are (unmodified, zero-sized, typed)
            std::vector<int> c2; bool transient = false; const Item* badItem = nullptr; bool badAfterEmpty = false;
            for (int e : cand) {
                const ExpD& ex = s.exps[(size_t) e];
                bool all = true, transE = false, emptySeen = false;
                for (const Item* oi : outItems) {
                    const Item* eo = find_item(ex.items, I_OUT, I_OUTT, oi->name);
                    if (!eo) continue;                  // ignored extra output parameter: nothing stated about its bytes
                    int sl = out_slot(oi->name);
                    bool ok;
                    if (oi->kind == I_OUTT) ok = r.typedDst[sl] == g_outTyped[e][sl];
                    else {
                        unsigned char img[OUTBUF + 8]; expected_image(ex, *eo, img);
                        ok = memcmp(img, r.buf[sl], sizeof img) == 0;
                        if (!ok && tr.find("overload") != std::string::npos) {
                            // an expectation with fewer parameters may match transiently while the call is being built; its bytes are copied first and the consumed
                            // expectation's bytes over them. The property speaks of the bytes of the consumed expectation only: tolerated and counted, not a violation.
                            // (several shorter overloads can match in turn, so the leftovers are judged per byte: each byte beyond the consumed expectation's length is
                            // untouched or is that byte of another expectation of this function.)
                            size_t own = eo->unmod ? 0 : eo->olen;
                            bool ok2 = memcmp(r.buf[sl] + OUTBUF, img + OUTBUF, 8) == 0 && memcmp(r.buf[sl], img, own) == 0;
                            for (size_t q = own; ok2 && q < OUTBUF; q++) {
                                if (r.buf[sl][q] == 0xEE) continue;
                                bool explained = false;
                                for (const ExpD& x : s.exps) {
                                    const Item* xo = x.idx != e && x.fq() == ex.fq() ? find_item(x.items, I_OUT, I_OUT, oi->name) : nullptr;
                                    if (xo && !xo->unmod && q < xo->olen && g_outBytes[x.idx][sl][q] == r.buf[sl][q]) explained = true;
                                }
                                if (!explained) ok2 = false;
                            }
                            if (ok2) { ok = true; transE = true; }
                        }
                    }
                    if (!ok) { all = false; if (!badItem) { badItem = oi; badAfterEmpty = emptySeen; } break; }
                    if (eo->kind == I_OUT && (eo->unmod || eo->olen == 0)) emptySeen = true;
                }
                if (all) { c2.push_back(e); transient |= transE; }
            }
            if (transient && !c2.empty()) c.count("output_leftover_bytes_of_transiently_matched_overload");
            if (c2.empty()) {
                int sl = out_slot(badItem->name);
                std::string obs = badItem->kind == I_OUTT ? std::to_string(r.typedDst[sl]) : vf::hexbytes(r.buf[sl], OUTBUF + 8);
                // whose bytes are they?
                std::string whose = "nobody's";
                bool untouched = true; if (badItem->kind == I_OUTT) untouched = r.typedDst[sl] == -1; else for (size_t q = 0; q < OUTBUF + 8; q++) if (r.buf[sl][q] != 0xEE) untouched = false;
                if (untouched) whose = "never written";
                else for (const ExpD& ex : s.exps) {
                    const Item* xo = find_item(ex.items, I_OUT, I_OUTT, badItem->name);
                    if (!xo || xo->kind != badItem->kind) continue;
                    if (badItem->kind == I_OUTT) { if (r.typedDst[sl] == g_outTyped[ex.idx][sl]) whose = "expectation #" + std::to_string(ex.idx); }
                    else { unsigned char img[OUTBUF + 8]; expected_image(ex, *xo, img); if (memcmp(img, r.buf[sl], sizeof img) == 0) whose = "expectation #" + std::to_string(ex.idx); }
                }
                // input class: where the wronged output parameter stands in the passing order of the call
                std::string where = outItems.size() < 2 ? "" : badAfterEmpty ? ":passed-after-unmodified-or-zero-sized-output" : badItem == outItems[0] ? ":first-output-of-several" : ":later-output-of-several";
                c.violation(std::string(retObservable ? "output-bytes-not-from-consumed-expectation:" : "output-bytes-from-non-matching-expectation:") + tr + where,
                            "call " + std::to_string(i) + " " + call_text(cl) + " output parameter '" + badItem->name + "' = " + obs + " (" + whose + "), consumed/matching expectation(s): " + exp_text(s.exps[(size_t) cand[0]]));
                return;
            }
            cand = c2;
            c.count("output_parameters_checked", outItems.size());
            if (outItems.size() >= 2) c.count("calls_with_two_or_more_output_parameters_checked");
        }
        int chosen = -1;
        for (int e : cand) if (used[e] < s.exps[(size_t) e].count) { chosen = e; break; }
        if (chosen < 0) { c.violation("expectation-consumed-beyond-its-count:" + tr, "call " + std::to_string(i) + " " + call_text(cl) + " was served by expectation #" + std::to_string(cand[0]) + " more often than its count"); return; }
        used[chosen]++;
        if (!outItems.empty()) {
            // evidence: what the consumed expectation declares for the output parameters of this call, in passing order
            bool emptySeen = false, dataAfterEmpty = false;
            for (const Item* oi : outItems) {
                const Item* eo = find_item(s.exps[(size_t) chosen].items, I_OUT, I_OUTT, oi->name);
                if (!eo) { c.count("output_parameter_ignored_by_consumed_expectation"); continue; }
                bool empty = eo->kind == I_OUT && (eo->unmod || eo->olen == 0);
                c.count(eo->kind == I_OUTT ? "output_typed_checked" : eo->unmod ? "output_unmodified_checked" : eo->olen == 0 ? "output_zero_sized_checked" : "output_bytes_checked");
                if (empty) emptySeen = true; else if (emptySeen) dataAfterEmpty = true;
            }
            if (dataAfterEmpty) c.count("calls_with_data_output_passed_after_unmodified_or_zero_sized_output");
        }
        if (retObservable) c.count("return_values_checked");
        { static const char* WN[6] = { "", "unsigned_int", "long", "unsigned_long", "long_long", "unsigned_long_long" };
          for (int w = 1; w < 6; w++) if (g_wideFetches[w]) { c.count(std::string("return_values_read_through_a_wider_getter_") + WN[w], g_wideFetches[w]); g_wideFetches[w] = 0; } }
        c.count("calls_consumed");
    }

    // --- the verdict
    if (m.devIdx >= 0) {
        size_t i = (size_t) m.devIdx; const CallD& cl = s.calls[i]; const CallRec& r = g_rec[i];
        std::string dk = kinds_text(m.accept);
        bool lazy = cl.fetch == F_LAZY;
        if (failures == 0 || (r.returned && !lazy)) {
            std::string reason;
            if (!m.lacks.empty()) { reason = "lacks"; for (const std::string& l : m.lacks) reason += "-" + l; }
            else reason = deviation_class(m);
            c.violation("accepted-deviating-call:" + reason + ":" + perm + ":" + m.shape,
                        "call " + std::to_string(i) + " " + call_text(cl) + " equals no open expectation (" + dk + ") but " + (failures == 0 ? "the test passed" : "it returned normally; later failure: " + gotLine));
            return;
        }
        if (failures != 1) { c.violation("failed-more-than-once:" + got, std::to_string(failures) + " failures reported (acceptable: one of " + dk + "); first: " + gotLine); return; }
        const Diag& d = diags[0];
        if (!m.accept.count(d.kind)) {
            c.violation("wrong-diagnosis:got=" + got + ":call-" + deviation_class(m), "call " + std::to_string(i) + " " + call_text(cl) + " (acceptable: " + dk + ") diagnosed as: " + gotLine); return;
        }
        if (d.kind != K_OUT_OF_ORDER && d.func != m.devFunc) { c.violation("diagnosis-names-wrong-function:" + got, "expected function " + m.devFunc + ": " + gotLine); return; }
        if (d.kind == K_ADDITIONAL && d.ord != ordinal_text(m.ordinal)) { c.violation("diagnosis-wrong-ordinal", "expected (" + ordinal_text(m.ordinal) + "): " + gotLine); return; }
        if (d.kind == K_PARAM_VALUE && !m.diff.valueNames.count(d.param) && !m.diff.kinds.empty()) { c.violation("diagnosis-names-wrong-parameter:" + got, "parameter " + d.param + " does not differ from any open expectation: " + gotLine); return; }
        if (d.kind == K_PARAM_NAME && !m.diff.nameNames.count(d.param)) { c.violation("diagnosis-names-wrong-parameter:" + got, gotLine); return; }
        if ((d.kind == K_OUT_NAME || d.kind == K_OUT_TYPE) && !m.diff.outNames.count(d.param)) { c.violation("diagnosis-names-wrong-parameter:" + got, gotLine); return; }
        c.count(std::string("diagnosed_") + KIND_NAME[d.kind]);
        return;
    }
    // no call-level deviation: every call returned (checked above)
    if (m.accept.empty()) {
        if (failures != 0) { c.violation("failed-but-multisets-equal:" + got + ":" + perm + (s.strict ? ":strict" : ":any-order"), "all calls were consumed and nothing is left, yet: " + gotLine); return; }
        c.count("verdict_pass");
        return;
    }
    std::string dk = kinds_text(m.accept);
    if (failures == 0) { c.violation("passed-but-should-fail:" + dk, m.accept.count(K_UNFULFILLED) ? "expected calls are left but the test passed" : "strict order violated but the test passed"); return; }
    if (failures != 1) { c.violation("failed-more-than-once:" + got, std::to_string(failures) + " failures reported (acceptable: one of " + dk + "); first: " + gotLine); return; }
    if (!m.accept.count(diags[0].kind)) { c.violation("wrong-diagnosis:got=" + got + ":end-of-test-" + dk, gotLine); return; }
    c.count(std::string("diagnosed_") + KIND_NAME[diags[0].kind]);
}

// ====================================================================== generator
struct PSig { std::string name; int type; std::vector<int> pool; };
struct FSig {
    std::string scope, name; std::vector<PSig> in; bool overload = false; bool hasObj = false, objFirst = true; std::vector<int> objPool;
    struct OSig { std::string name; int kind; size_t pos; };      // kind 1: byte output parameter, 2: typed (copier); pos: where the mock function body passes it
    std::vector<OSig> outs; bool ignoreOther = false; size_t listed = 0; int retType = R_NONE; int fetch = F_CALL_TYPED;
};

static int other_value(vf::Rng& r, int type, int vi) { int n = NV[type]; int v = (int) r.below((uint64_t) n - 1); return v >= vi ? v + 1 : v; }

static bool g_refBias = false;          // section by_reference_value_storage: most parameters are strings / memory buffers / custom-type objects, most deviations a wrong value
static FSig gen_function(vf::Rng& r, const std::string& scope, const std::string& name, bool allowLazy) {
    FSig f; f.scope = scope; f.name = name;
    static const char* PN[] = { "a", "b", "c" };
    static const int BYREF[] = { T_STR, T_MEM, T_MEM, T_OBJ };
    size_t nIn = r.below(4);
    if (g_refBias && nIn == 0) nIn = 1;
    for (size_t k = 0; k < nIn; k++) {
        PSig p; p.name = PN[k];
        if (g_refBias && r.chance(75)) p.type = r.pick(BYREF);
        else p.type = r.chance(45) ? (int) r.below(6) : (int) r.below(T_N);
        int want = p.type == T_BOOL ? 2 : g_refBias ? r.range(2, 4) : r.range(2, 3);
        std::set<int> pool; while ((int) pool.size() < want) pool.insert((int) r.below((uint64_t) NV[p.type]));
        p.pool.assign(pool.begin(), pool.end());
        f.in.push_back(p);
    }
    f.hasObj = r.chance(25); f.objFirst = r.chance(60);
    if (f.hasObj) { int a = (int) r.below(4); f.objPool = { a, (a + 1 + (int) r.below(3)) % 4 }; }
    if (r.chance(32)) {
        // 1..3 output parameters; each is passed at its own position among the parameters of the call (so every passing order of outputs and inputs occurs)
        size_t nOut = r.chance(45) ? 1 : r.chance(60) ? 2 : 3;
        for (size_t k = 0; k < nOut; k++) f.outs.push_back(FSig::OSig{ OUT_NAME[k], r.chance(25) ? 2 : 1, r.below(nIn + k + 1) });
    }
    if (nIn >= 1 && r.chance(15)) { f.ignoreOther = true; f.listed = r.below(nIn + 1); }
    else if (nIn >= 2 && r.chance(18)) f.overload = true;
    f.retType = r.chance(20) ? R_NONE : r.range(R_INT, R_N - 1);
    f.fetch = allowLazy && r.chance(12) ? F_LAZY : r.range(F_CALL_TYPED, F_N - 1);
    return f;
}

static ExpD gen_expectation(vf::Rng& r, const FSig& f, int idx) {
    ExpD e; e.idx = idx; e.scope = f.scope; e.name = f.name; e.ignoreOther = f.ignoreOther; e.retType = f.retType;
    std::vector<Item> ins;
    for (size_t k = 0; k < f.in.size(); k++) {
        if (f.ignoreOther && k >= f.listed) continue;
        if (f.overload && !r.chance(60)) continue;
        ins.push_back(Item(I_IN, f.in[k].name, f.in[k].type, f.in[k].pool[r.below(f.in[k].pool.size())]));
    }
    if (r.chance(20)) for (size_t k = ins.size(); k > 1; k--) std::swap(ins[k - 1], ins[r.below(k)]);   // declaration order of parameters is free
    if (f.hasObj && f.objFirst) e.items.push_back(Item(I_OBJ, "", 0, 0, f.objPool[r.below(2)]));
    for (const Item& i : ins) e.items.push_back(i);
    {
        // every expectation of the function declares every output parameter: unmodified, zero-sized, or 1..8 bytes / a typed object of its own
        std::vector<Item> outs;
        for (const FSig::OSig& o : f.outs) {
            Item it(o.kind == 1 ? I_OUT : I_OUTT, o.name);
            if (o.kind == 1) { uint64_t u = r.below(100); if (u < 13) it.unmod = true; else if (u < 22) it.olen = 0; else it.olen = (size_t) r.range(1, 8); }
            outs.push_back(it);
        }
        if (r.chance(30)) for (size_t k = outs.size(); k > 1; k--) std::swap(outs[k - 1], outs[r.below(k)]);    // declaration order of output parameters is free
        for (const Item& it : outs) e.items.push_back(it);
    }
    if (f.hasObj && !f.objFirst) e.items.push_back(Item(I_OBJ, "", 0, 0, f.objPool[r.below(2)]));
    static const int CNT[] = { 1, 1, 1, 1, 1, 2, 2, 3, 0, 0 };
    e.count = (unsigned) r.pick(CNT);
    e.api = e.count == 1 && r.chance(70) ? A_ONE : A_N;
    if (e.count == 0 && f.in.empty() && !f.hasObj && f.outs.empty() && r.chance(60)) { e.api = A_NOCALL; e.retType = R_NONE; e.ignoreOther = false; }
    return e;
}

// the call a mock function body would make for expectation e
static CallD call_for(vf::Rng& r, const FSig& f, const ExpD& e) {
    CallD c; c.scope = f.scope; c.name = f.name; c.fetch = f.fetch; c.retType = f.retType; c.intended = e.idx;
    std::vector<Item> ins;
    for (size_t k = 0; k < f.in.size(); k++) {
        const Item* ei = find_item(e.items, I_IN, I_IN, f.in[k].name);
        if (ei) ins.push_back(*ei);
        else if (f.ignoreOther) ins.push_back(Item(I_IN, f.in[k].name, f.in[k].type, f.in[k].pool[r.below(f.in[k].pool.size())]));   // ignored extra parameter
    }
    const Item* eo = find_obj(e.items);
    for (const FSig::OSig& o : f.outs) ins.insert(ins.begin() + (long) std::min(o.pos, ins.size()), Item(o.kind == 1 ? I_OUT : I_OUTT, o.name));
    if (eo && f.objFirst) c.items.push_back(*eo);
    for (const Item& i : ins) c.items.push_back(i);
    if (eo && !f.objFirst) c.items.push_back(*eo);
    return c;
}

struct Gen { std::vector<FSig> fs; std::vector<int> fOfExp; };

static bool g_thorough = false;
static void gen_world(vf::Rng& r, Scenario& s, Gen& g, bool allowLazy) {
    static const char* FN[] = { "f", "g", "h", "k" };
    std::vector<std::string> scopes = { "" };
    if (r.chance(40)) { scopes.push_back("s1"); if (r.chance(50)) scopes.push_back("s2"); if (r.chance(30)) scopes.erase(scopes.begin()); }
    size_t nF = (size_t) r.range(1, 4);
    std::set<std::string> seen;
    for (size_t k = 0; k < nF; k++) {
        std::string sc = r.pick(scopes), nm = FN[r.below(4)];
        if (!seen.insert(sc + "::" + nm).second) continue;
        g.fs.push_back(gen_function(r, sc, nm, allowLazy));
    }
    size_t nE = (size_t) r.range(1, g_thorough && r.chance(25) ? 9 : 6);     // thorough tier: sometimes larger expectation sets
    if (r.chance(35)) nE = std::max<size_t>(nE, 3);
    for (size_t k = 0; k < nE; k++) {
        size_t fi = r.chance(55) ? 0 : r.below(g.fs.size());            // bias: several expectations on one function
        s.exps.push_back(gen_expectation(r, g.fs[fi], (int) k));
        g.fOfExp.push_back((int) fi);
    }
    // the scopes actually used, plus sometimes an unused one
    std::set<std::string> used; for (const ExpD& e : s.exps) used.insert(e.scope);
    for (const std::string& sc : scopes) if (r.chance(30)) used.insert(sc);
    s.scopes.assign(used.begin(), used.end());
    s.strict = r.chance(30);
    if (r.chance(25)) {
        if (r.chance(50)) s.ignoreScopes.push_back("");
        else for (const std::string& sc : s.scopes) if (!sc.empty() && r.chance(60)) s.ignoreScopes.push_back(sc);
    }
    s.ignoreBeforeExpectations = r.chance(50);
    s.mode = (int) r.below(M_N);
    if (r.chance(s.mode == M_PLUGIN ? 45 : 25)) { size_t n = (size_t) r.range(1, 3); for (size_t k = 0; k < n; k++) s.history.push_back((int) r.below(P_N)); }   // the scenario is not the first test of its run
    s.usesT1 = true;
    for (const ExpD& e : s.exps) if (e.retType != R_NONE && e.api != A_NOCALL) { /* all expectations of a function share the return type */ }
}

static CallD unknown_call(vf::Rng& r, const Scenario& s) {
    CallD c; c.scope = r.pick(s.scopes); c.intended = -1;
    static const char* UN[] = { "u", "v", "f", "g" };
    for (int t = 0; t < 8; t++) {
        c.name = UN[r.below(4)];
        bool known = false; for (const ExpD& e : s.exps) if (e.fq() == c.fq()) known = true;
        if (!known) break;
        c.name = "u";
    }
    { bool known = false; for (const ExpD& e : s.exps) if (e.fq() == c.fq()) known = true; if (known) c.name = "w"; }
    if (r.chance(50)) c.items.push_back(Item(I_IN, "a", T_INT, (int) r.below(6)));
    if (r.chance(20)) c.items.push_back(Item(I_OUT, "out"));
    c.retType = R_INT; c.fetch = r.chance(50) ? F_ORDEFAULT : F_CALL_GENERIC;
    if (c.fetch == F_CALL_GENERIC) c.retType = R_NONE;      // only asks hasReturnValue()
    return c;
}

static int cross_kind(vf::Rng& r, int type) {
    static const int NONINT[] = { T_BOOL, T_DOUBLE, T_STR, T_PTR, T_MEM };
    if (is_integer_type(type)) return r.pick(NONINT);
    int t; do { t = r.chance(50) ? (int) r.below(6) : r.pick(NONINT); } while (t == type);
    return t;
}

enum DEV { D_NONE, D_UNKNOWN, D_SURPLUS, D_ZERO_COUNT_CALLED, D_PARAM_NAME, D_RENAME, D_WRONG_VALUE, D_WRONG_TYPE, D_MISSING, D_WRONG_OBJECT, D_NO_OBJECT, D_DROP, D_SWAP, D_OUT_EXTRA, D_OUT_TYPE, D_N };
static const char* DEV_NAME[D_N] = { "none", "unknown-function", "surplus-call", "zero-count-called", "extra-parameter", "renamed-parameter", "wrong-value", "wrong-type", "missing-parameter",
                                     "wrong-object", "no-object", "dropped-call", "swapped-calls", "extra-output-parameter", "output-parameter-type" };

// mutate one call; returns false if the deviation does not apply to it
static bool mutate_call(vf::Rng& r, int dev, CallD& c) {
    std::vector<size_t> ins, outs; size_t objAt = SIZE_MAX;
    for (size_t k = 0; k < c.items.size(); k++) { if (c.items[k].kind == I_IN) ins.push_back(k); else if (c.items[k].kind == I_OBJ) objAt = k; else outs.push_back(k); }
    switch (dev) {
    case D_PARAM_NAME: c.items.insert(c.items.begin() + (long) r.below(c.items.size() + 1), Item(I_IN, "zz", T_INT, 1)); return true;
    case D_RENAME: if (ins.empty()) return false; c.items[r.pick(ins)].name = "zz"; return true;
    case D_WRONG_VALUE: { if (ins.empty()) return false; Item& it = c.items[r.pick(ins)]; it.vi = other_value(r, it.type, it.vi); return true; }
    case D_WRONG_TYPE: { if (ins.empty()) return false; Item& it = c.items[r.pick(ins)]; it.type = cross_kind(r, it.type); it.vi = (int) r.below((uint64_t) NV[it.type]); return true; }
    case D_MISSING: { std::vector<size_t> all = ins; all.insert(all.end(), outs.begin(), outs.end()); if (all.empty()) return false; c.items.erase(c.items.begin() + (long) r.pick(all)); return true; }
    case D_WRONG_OBJECT: if (objAt == SIZE_MAX) return false; c.items[objAt].obj = (c.items[objAt].obj + 1 + (int) r.below(3)) % 4; return true;
    case D_NO_OBJECT: if (objAt == SIZE_MAX) return false; c.items.erase(c.items.begin() + (long) objAt); return true;
    case D_OUT_EXTRA: c.items.insert(c.items.begin() + (long) r.below(c.items.size() + 1), Item(r.chance(70) ? I_OUT : I_OUTT, "out2")); return true;
    case D_OUT_TYPE: if (outs.empty()) return false; { Item& it = c.items[r.pick(outs)]; it.kind = it.kind == I_OUT ? I_OUTT : I_OUT; } return true;
    default: return false;
    }
}

static void permute_items(vf::Rng& r, CallD& c) { for (size_t k = c.items.size(); k > 1; k--) std::swap(c.items[k - 1], c.items[r.below(k)]); }

// Dimensions the verdict must not depend on; drawn after everything else of the scenario.
static void gen_environment(vf::Rng& r, Scenario& s) {
    if (g_refBias) { static const int W[] = { ST_SEPARATE, ST_SAME, ST_SAME, ST_SHARED, ST_SHARED, ST_SHARED }; s.storage = r.pick(W); }
    else s.storage = r.chance(65) ? ST_SEPARATE : r.chance(40) ? ST_SAME : ST_SHARED;
    bool scoped = false; for (const std::string& sc : s.scopes) if (!sc.empty()) scoped = true;
    if (r.chance(g_refBias ? 15 : scoped ? 60 : 30)) {              // scopes and data entries live in one list: most interesting together
        static const char* DN[] = { "d0", "d1", "d2", "s1", "f" };            // names of data entries live in their own name space (scopes are stored under a prefixed name)
        size_t n = (size_t) r.range(1, 3);
        for (size_t k = 0; k < n; k++) {
            DataD d; d.name = r.pick(DN); d.kind = (int) r.below(DK_N);
            d.store = r.chance(75) ? std::string() : r.pick(s.scopes);
            d.when = r.chance(55) ? W_SETUP : (int) r.below(W_N);
            if (d.when == W_SETUP) d.at = r.below(s.scopes.size() + 1);
            else if (d.when == W_BEFORE_CALL) { if (s.calls.empty()) d.when = W_AFTER_EXPECTATIONS; else d.at = r.below(s.calls.size()); }
            if (k == 0 && scoped && r.chance(45)) { d.store.clear(); d.when = W_SETUP; d.at = 0; }       // in front of every scope
            s.data.push_back(d);
        }
    }
}

static void gen_single_deviation(vf::Rng& r, Scenario& s, bool permute) {
    Gen g; gen_world(r, s, g, true);
    s.permuted = permute;
    // base sequence: every expectation as often as expected
    std::vector<int> seq;
    for (const ExpD& e : s.exps) for (unsigned k = 0; k < e.count; k++) seq.push_back(e.idx);
    if (!s.strict) { if (r.chance(85)) for (size_t k = seq.size(); k > 1; k--) std::swap(seq[k - 1], seq[r.below(k)]); }
    else if (s.scopes.size() > 1) {
        // strict order is kept per scope; the interleaving across scopes is free
        std::map<std::string, std::vector<int>> q; for (int e : seq) q[s.exps[(size_t) e].scope].push_back(e);
        std::vector<int> merged; std::vector<std::string> keys; for (auto& kv : q) keys.push_back(kv.first);
        std::map<std::string, size_t> at;
        while (merged.size() < seq.size()) { const std::string& k = r.pick(keys); if (at[k] < q[k].size()) merged.push_back(q[k][at[k]++]); }
        seq = merged;
    }
    for (int e : seq) s.calls.push_back(call_for(r, g.fs[(size_t) g.fOfExp[(size_t) e]], s.exps[(size_t) e]));
    int dev = D_NONE;
    if (r.chance(68)) {
        for (int attempt = 0; attempt < 12 && dev == D_NONE; attempt++) {
            int d = g_refBias && r.chance(50) ? D_WRONG_VALUE : r.range(1, D_N - 1);
            switch (d) {
            case D_UNKNOWN: s.calls.insert(s.calls.begin() + (long) r.below(s.calls.size() + 1), unknown_call(r, s)); dev = d; break;
            case D_SURPLUS: if (!s.calls.empty()) { CallD cp = s.calls[r.below(s.calls.size())]; s.calls.insert(s.calls.begin() + (long) r.below(s.calls.size() + 1), cp); dev = d; } break;
            case D_ZERO_COUNT_CALLED: { std::vector<int> z; for (const ExpD& e : s.exps) if (e.count == 0) z.push_back(e.idx); if (!z.empty()) { int e = r.pick(z); s.calls.insert(s.calls.begin() + (long) r.below(s.calls.size() + 1), call_for(r, g.fs[(size_t) g.fOfExp[(size_t) e]], s.exps[(size_t) e])); dev = d; } } break;
            case D_DROP: if (!s.calls.empty()) { s.calls.erase(s.calls.begin() + (long) r.below(s.calls.size())); dev = d; } break;
            case D_SWAP: if (s.calls.size() >= 2) { size_t k = r.below(s.calls.size() - 1); std::swap(s.calls[k], s.calls[k + 1]); dev = d; } break;
            default: if (!s.calls.empty() && mutate_call(r, d, s.calls[r.below(s.calls.size())])) dev = d; break;
            }
        }
    }
    s.deviation = DEV_NAME[dev];
    if (permute) for (CallD& c : s.calls) permute_items(r, c);
    gen_environment(r, s);
}

static void gen_random_sequence(vf::Rng& r, Scenario& s) {
    Gen g; gen_world(r, s, g, false);
    unsigned total = 0; for (const ExpD& e : s.exps) total += e.count;
    size_t n = r.below(total + 4);
    if (r.chance(50)) n = total;
    // a pool of faithful calls in expectation order, drawn mostly in order (so that long valid prefixes are common), sometimes at random
    std::vector<int> pool; for (const ExpD& e : s.exps) for (unsigned k = 0; k < e.count; k++) pool.push_back(e.idx);
    if (!s.strict || r.chance(30)) for (size_t k = pool.size(); k > 1; k--) std::swap(pool[k - 1], pool[r.below(k)]);
    size_t at = 0;
    for (size_t k = 0; k < n && s.calls.size() < MAXCALLS - 2; k++) {
        int e;
        if (at < pool.size() && r.chance(88)) e = pool[at++];
        else e = (int) r.below(s.exps.size());
        if (r.chance(4)) { s.calls.push_back(unknown_call(r, s)); continue; }
        CallD c = call_for(r, g.fs[(size_t) g.fOfExp[(size_t) e]], s.exps[(size_t) e]);
        if (r.chance(8)) mutate_call(r, r.range(D_PARAM_NAME, D_NO_OBJECT), c);
        s.calls.push_back(c);
    }
    s.deviation = "random-sequence";
    gen_environment(r, s);
}

// ====================================================================== sections
static std::string describe(const Scenario& s, const Model& m) {
    std::vector<std::string> ex, ca, ig, sc;
    for (const ExpD& e : s.exps) ex.push_back(vf::jstr(exp_text(e)));
    for (const CallD& c : s.calls) ca.push_back(vf::jstr(call_text(c)));
    for (const std::string& g : s.ignoreScopes) ig.push_back(vf::jstr(g.empty() ? "<all>" : g));
    for (const std::string& g : s.scopes) sc.push_back(vf::jstr(g.empty() ? "<global>" : g));
    std::vector<std::string> hi; for (int k : s.history) hi.push_back(vf::jstr(PRE_NAME[k]));
    std::vector<std::string> da;
    for (const DataD& d : s.data) da.push_back(vf::jstr((d.store.empty() ? std::string("mock()") : "mock(" + d.store + ")") + ".setData(" + d.name + ":" + DK_NAME[d.kind] + ") " + DW_NAME[d.when] +
                                                        (d.when == W_SETUP ? " " + (d.at < s.scopes.size() ? (s.scopes[d.at].empty() ? std::string("<global>") : s.scopes[d.at]) : std::string("<none: after all scopes>")) : d.when == W_BEFORE_CALL ? " " + std::to_string(d.at) : std::string())));
    std::string mv = m.undecidable ? "outside-unambiguous-class" : m.devIdx >= 0 ? "first deviation at call " + std::to_string(m.devIdx) + " {" + kinds_text(m.accept) + "}" : m.accept.empty() ? "pass" : "fails at end {" + kinds_text(m.accept) + "}";
    return vf::J().k("mode", MODE_NAME[s.mode]).raw("earlier_tests_of_the_same_run", vf::jarr(hi)).k("strict_order", s.strict).raw("scopes", vf::jarr(sc)).raw("ignore_other_calls", vf::jarr(ig)).k("ignore_declared_before_expectations", s.ignoreBeforeExpectations)
        .k("by_reference_value_storage", ST_NAME[s.storage]).raw("mock_data_entries", vf::jarr(da)).k("injected_deviation", s.deviation).k("permuted_parameter_order", s.permuted).raw("expectations", vf::jarr(ex)).raw("calls", vf::jarr(ca)).k("model_verdict", mv).str();
}

static void run_scenario(vf::Ctx& c, const Scenario& s) {
    Model m = run_model(s);
    c.begin([=] { return describe(s, m); });
    if (m.undecidable || s.calls.size() >= MAXCALLS || s.exps.size() > 30) { c.count("skipped_outside_unambiguous_class"); return; }
    Observed o = run_real(s);
    Sink k; judge(k, s, m, o);
    const char* modeShort = s.mode == M_FIXTURE ? "fixture" : s.mode == M_PLUGIN ? "plugin" : "recording";
    bool failedBefore = false;
    for (size_t h = 0; h < s.history.size(); h++) {
        // the earlier tests are one-line scenarios with an obvious verdict; it must not depend on their own predecessors either
        size_t want = pre_fails(s.history[h]) ? 1 : 0;
        if (o.historyFailures[h] != want)
            c.violation(std::string("earlier-test-of-the-run-verdict-wrong:") + PRE_NAME[s.history[h]] + ":" + modeShort + (failedBefore ? ":after-a-failed-test-of-the-run" : h ? ":after-passing-tests-of-the-run" : ":first-test-of-the-run"),
                        "test " + std::to_string(h) + " of the run reported " + std::to_string(o.historyFailures[h]) + " failure(s), expected " + std::to_string(want));
        c.count(std::string("earlier_test_") + PRE_NAME[s.history[h]]);
        if (pre_fails(s.history[h])) failedBefore = true;
    }
    if (!k.viol.empty()) {
        // shape of the violation: is the same scenario judged correctly (a) as the first test of a run, (b) with nothing in the mock's data store,
        // (c) with expectation and actual call reading their by-reference values from separate copies? The model does not depend on any of the three.
        std::vector<std::string> orig; for (auto& v : k.viol) orig.push_back(v.first);
        auto annotate = [&](const Scenario& alt, const std::string& suffix, const std::string& note) {
            Observed o2 = run_real(alt);
            Sink k2; judge(k2, alt, m, o2);
            for (size_t q = 0; q < k.viol.size(); q++) {
                bool also = false; for (auto& w : k2.viol) if (w.first == orig[q]) also = true;
                if (!also) { k.viol[q].first += suffix; k.viol[q].second += note; }
            }
        };
        if (!s.history.empty()) { Scenario alt = s; alt.history.clear(); annotate(alt, failedBefore ? ":only-after-a-failed-test-of-the-run" : ":only-after-earlier-tests-of-the-run", "  [the same scenario run as the first test of a run is judged correctly]"); }
        if (!s.data.empty()) {
            Scenario alt = s; alt.data.clear();
            bool before = !scopes_created_after_data(s).empty();
            annotate(alt, before ? ":only-with-a-mock-data-entry-stored-before-a-scope-came-into-existence" : ":only-with-entries-in-the-mock-data-store", "  [the same scenario without setData()/setDataObject() entries is judged correctly]");
        }
        if (s.storage != ST_SEPARATE) {
            Scenario alt = s; alt.storage = ST_SEPARATE;
            annotate(alt, s.storage == ST_SAME ? ":only-when-expectation-and-call-pass-the-same-array" : ":only-when-values-are-pieces-of-one-backing-array", "  [the same scenario with expectation and actual call reading separate copies of their string / buffer / object values is judged correctly]");
        }
    }
    for (auto& v : k.viol) c.violation(v.first, v.second);
    for (auto& n : k.counts) c.count(n.first, n.second);
    // evidence
    c.count("scenarios");
    if (!s.history.empty()) {
        bool endVerdict = m.devIdx < 0 && !m.accept.empty();
        bool lastCallInProgress = m.devIdx >= 0 && (size_t) m.devIdx + 1 == s.calls.size() && s.calls[(size_t) m.devIdx].fetch == F_LAZY;
        c.count(std::string("scenarios_after_earlier_tests_of_the_run_") + modeShort);
        if (failedBefore) c.count(std::string("scenarios_after_a_failed_test_of_the_run_") + modeShort);
        if (failedBefore && (endVerdict || lastCallInProgress)) c.count(std::string("end_of_test_failures_due_after_a_failed_test_of_the_run_") + modeShort);
        if (failedBefore && m.devIdx < 0 && m.accept.empty()) c.count(std::string("passes_due_after_a_failed_test_of_the_run_") + modeShort);
    }
    c.count(std::string("mode_") + (s.mode == M_FIXTURE ? "fixture" : s.mode == M_PLUGIN ? "plugin" : "recording"));
    // the data store shared by scopes and data entries
    if (!s.data.empty()) {
        std::set<std::string> after = scopes_created_after_data(s);
        c.count("scenarios_with_mock_data_entries"); c.count("mock_data_entries_stored", o.dataStored);
        for (const DataD& d : s.data) c.count(std::string("mock_data_entry_") + DW_NAME[d.when]);
        if (!after.empty()) c.count("scenarios_with_a_scope_created_after_a_mock_data_entry");
        bool hasCallInSuch = false; for (const CallD& cl : s.calls) if (after.count(cl.scope)) hasCallInSuch = true;
        if (hasCallInSuch) c.count("scenarios_with_calls_in_a_scope_created_after_a_mock_data_entry");
        if (m.devIdx < 0 && !m.openScopes.empty()) {
            bool all = true; for (const std::string& sc : m.openScopes) if (!after.count(sc)) all = false;
            if (all) c.count("unfulfilled_expectations_only_in_scopes_created_after_a_mock_data_entry");
        }
    }
    // storage of by-reference values
    c.count(std::string("storage_") + ST_NAME[s.storage]);
    {
        unsigned byref = 0, sameBaseOtherLength = 0; bool devOnSharedAddress = false;
        for (size_t i = 0; i < s.calls.size(); i++) for (const Item& ci : s.calls[i].items) {
            if (ci.kind != I_IN || (ci.type != T_STR && ci.type != T_MEM && ci.type != T_OBJ)) continue;
            byref++;
            if (ci.type != T_MEM) continue;
            for (const ExpD& e : s.exps) {
                if (e.fq() != s.calls[i].fq()) continue;
                const Item* ei = find_item(e.items, I_IN, I_IN, ci.name);
                if (!ei || ei->type != T_MEM || ei->vi == ci.vi) continue;
                if (mem_addr(s.storage, false, ei->vi) == mem_addr(s.storage, true, ci.vi)) { sameBaseOtherLength++; if ((int) i == m.devIdx) devOnSharedAddress = true; }
            }
        }
        if (byref) c.count("by_reference_parameter_values_passed", byref);
        if (byref && s.storage != ST_SEPARATE) c.count("by_reference_parameter_values_passed_from_storage_shared_with_the_expectations", byref);
        if (sameBaseOtherLength) c.count("buffers_passed_at_the_base_address_of_an_expected_buffer_of_another_length", sameBaseOtherLength);
        if (devOnSharedAddress) c.count("deviating_calls_passing_a_buffer_at_the_base_address_of_an_expected_buffer_of_another_length");
    }
    c.count("deviation_" + s.deviation);
    c.count(m.devIdx >= 0 ? "model_call_level_deviation" : m.accept.empty() ? "model_pass" : "model_end_of_test_failure");
    if (m.devIdx >= 0 || !m.accept.empty()) for (int k : m.accept) c.count(std::string("model_accepts_") + KIND_NAME[k]);
    if (s.strict) c.count("strict_order_scenarios");
    if (!s.ignoreScopes.empty()) c.count("ignore_other_calls_scenarios");
    if (s.scopes.size() > 1 || !s.scopes[0].empty()) c.count("scoped_scenarios");
    c.count("actual_calls", s.calls.size()); c.count("expectations", s.exps.size());
    if (m.shape != "fresh") c.count("deviation_after_partial_match");
    // non-trivial: >= 2 open expectations on one function that differ in a parameter/object, and an actual order different from expectation order
    bool twoDiffering = false;
    for (const ExpD& a : s.exps) for (const ExpD& b : s.exps) if (a.idx < b.idx && a.fq() == b.fq() && a.count > 0 && b.count > 0 && class_key(a) != class_key(b)) twoDiffering = true;
    if (twoDiffering && m.seqDiffersFromExpectationOrder) {
        std::string sig = std::string(s.strict ? "S" : "s") + (s.permuted ? "P" : "p");
        for (const std::string& g : s.ignoreScopes) sig += "I" + g;
        for (const ExpD& e : s.exps) sig += class_key(e) + "x" + std::to_string(e.count) + ";";
        sig += ">>";
        for (const CallD& cl : s.calls) { sig += cl.fq() + "("; for (const Item& it : cl.items) sig += item_text(it) + ","; sig += ")"; }
        c.nontrivial(sig);
    }
}

static void sec_single(vf::Ctx& c) { g_thorough = c.thorough; Scenario s; gen_single_deviation(c.rng, s, false); run_scenario(c, s); }
static void sec_random(vf::Ctx& c) { g_thorough = c.thorough; Scenario s; gen_random_sequence(c.rng, s); run_scenario(c, s); }
static void sec_permuted(vf::Ctx& c) { g_thorough = c.thorough; Scenario s; gen_single_deviation(c.rng, s, true); run_scenario(c, s); }
static void sec_byref(vf::Ctx& c) { g_thorough = c.thorough; g_refBias = true; Scenario s; gen_single_deviation(c.rng, s, c.rng.chance(25)); g_refBias = false; run_scenario(c, s); }

// ---------------------------------------------------------------- cross-type integer parameters (complete lattice)
// An expectation and an actual call may pass one parameter through different integer types; the verdict
// must follow the mathematical value (C09 decides equality, this section decides that the *matching* uses it:
// which expectation is consumed, which value is returned, whether the scenario passes).
enum XT { X_INT, X_UINT, X_LONG, X_ULONG, X_LL, X_ULL, X_N };
static const char* XT_NAME[] = { "int", "unsigned int", "long int", "unsigned long int", "long long int", "unsigned long long int" };
typedef __int128 xi128;
static bool x_fits(int t, xi128 v) {
    switch (t) { case X_INT: return v >= INT_MIN && v <= INT_MAX; case X_UINT: return v >= 0 && v <= UINT_MAX; case X_LONG: case X_LL: return v >= LLONG_MIN && v <= LLONG_MAX; default: return v >= 0 && v <= (xi128) ULLONG_MAX; }
}
static std::vector<xi128> x_lattice() {
    std::vector<xi128> v; xi128 one = 1;
    xi128 pts[] = { -(one << 63), -(one << 32), -(one << 31), 0, (one << 31), (one << 32), (one << 63), (one << 64) };
    for (xi128 p : pts) for (int d = -1; d <= 1; d++) v.push_back(p + d);
    v.push_back(7);
    return v;
}
static std::string x_str(xi128 v) { if (v == 0) return "0"; bool neg = v < 0; unsigned __int128 u = neg ? (unsigned __int128) (-(v + 1)) + 1 : (unsigned __int128) v; std::string s; while (u) { s += (char) ('0' + (int) (u % 10)); u /= 10; } if (neg) s += '-'; std::reverse(s.begin(), s.end()); return s; }
static void x_expect(MockExpectedCall& e, int t, xi128 v) {
    switch (t) { case X_INT: e.withParameter("p", (int) v); break; case X_UINT: e.withParameter("p", (unsigned int) v); break; case X_LONG: e.withParameter("p", (long) v); break;
                 case X_ULONG: e.withParameter("p", (unsigned long) v); break; case X_LL: e.withParameter("p", (long long) v); break; default: e.withParameter("p", (unsigned long long) v); }
}
static void x_actual(MockActualCall& a, int t, xi128 v) {
    switch (t) { case X_INT: a.withParameter("p", (int) v); break; case X_UINT: a.withParameter("p", (unsigned int) v); break; case X_LONG: a.withParameter("p", (long) v); break;
                 case X_ULONG: a.withParameter("p", (unsigned long) v); break; case X_LL: a.withParameter("p", (long long) v); break; default: a.withParameter("p", (unsigned long long) v); }
}
static int g_xte, g_xta; static xi128 g_xve1, g_xve2, g_xva; static int g_xret; static bool g_xret_valid;
static void x_body() {
    g_xret_valid = false;
    MockExpectedCall& e1 = mock().expectOneCall("xf"); x_expect(e1, g_xte, g_xve1); e1.andReturnValue(101);
    MockExpectedCall& e2 = mock().expectOneCall("xf"); x_expect(e2, g_xte, g_xve2); e2.andReturnValue(202);
    MockActualCall& a = mock().actualCall("xf"); x_actual(a, g_xta, g_xva);
    g_xret = a.returnIntValueOrDefault(-1); g_xret_valid = true;
    mock().clear();      // unfulfilled second expectation is not what this section judges
}
struct XCase { int te, ta; xi128 ve1, ve2, va; };
static std::vector<XCase> g_xcases;
static void init_xcases() {
    std::vector<xi128> L = x_lattice();
    for (int te = 0; te < X_N; te++) for (int ta = 0; ta < X_N; ta++) {
        if (te == ta) continue;
        for (xi128 va : L) {
            if (!x_fits(ta, va)) continue;
            // expectation 1: the value that has the same low 32/64 bits in the expectation's type but is a different number (if any);
            // expectation 2: the same mathematical value (if representable)
            uint64_t raw = (uint64_t) va; xi128 alias;
            switch (te) { case X_INT: alias = (int) raw; break; case X_UINT: alias = (unsigned) raw; break; case X_LONG: case X_LL: alias = (long long) raw; break; default: alias = (xi128) (unsigned long long) raw; }
            xi128 same = x_fits(te, va) ? va : alias;
            if (alias == va) alias = x_fits(te, va + 1) ? va + 1 : va - 1;      // no aliasing candidate: use a neighbour
            if (!x_fits(te, alias)) continue;
            g_xcases.push_back(XCase{ te, ta, alias, same, va });
        }
    }
}
static void sec_crosstype(vf::Ctx& c) {
    const XCase& x = g_xcases[c.idx];
    g_xte = x.te; g_xta = x.ta; g_xve1 = x.ve1; g_xve2 = x.ve2; g_xva = x.va;
    c.begin([=] { return vf::J().k("expected_type", XT_NAME[x.te]).k("expectation_1", x_str(x.ve1)).k("expectation_2", x_str(x.ve2)).k("actual_type", XT_NAME[x.ta]).k("actual", x_str(x.va)).str(); });
    int want = x.va == x.ve1 ? 101 : x.va == x.ve2 ? 202 : 0;     // 0: no expectation carries this value -> the call must fail the test
    TestTestingFixture fx;
    fx.setTestFunction(x_body);
    fx.runAllTests();
    bool failed = fx.getFailureCount() > 0;
    std::string tp = std::string(XT_NAME[x.te]) + "<-" + XT_NAME[x.ta];
    if (want == 0) { if (!failed) c.violation("cross-type-integer:accepted-different-value:" + tp, "actual " + x_str(x.va) + " matched an expectation of " + x_str(x.ve1) + " / " + x_str(x.ve2) + " and returned " + std::to_string(g_xret)); }
    else if (failed) c.violation("cross-type-integer:rejected-equal-value:" + tp, "actual " + x_str(x.va) + " equals an expected value but the call failed: " + std::string(fx.getOutput().asCharString()).substr(0, 300));
    else if (!g_xret_valid || g_xret != want) c.violation("cross-type-integer:consumed-wrong-expectation:" + tp, "actual " + x_str(x.va) + " returned " + std::to_string(g_xret) + ", the expectation with the equal value returns " + std::to_string(want));
    c.count(want ? "cross_type_calls_that_must_match" : "cross_type_calls_that_must_fail");
    mock().clear();
    c.nontrivial(tp + x_str(x.va));
}

int main(int argc, char** argv) {
    init_xcases();
    for (int i = 0; i < 6; i++) { strcpy(strA[i], V_STRTXT[i]); strcpy(strB[i], V_STRTXT[i]); }
    for (int i = 0; i < 6; i++) { memcpy(memA[i], V_MEM[i].b, 4); memcpy(memB[i], V_MEM[i].b, 4); }
    for (int i = 0; i < 4; i++) { objA[i] = V_OBJ[i]; objB[i] = V_OBJ[i]; }
    for (int i = 0; i < 32; i++) {
        for (int sl = 0; sl < NOUT; sl++) {
            g_outBytes[i][sl][0] = (unsigned char) (0x20 + 0x40 * sl + i);          // first byte unique per (expectation, slot), never the 0xEE filler
            for (int k = 1; k < 8; k++) { unsigned char b = (unsigned char) (i * 7 + k + 61 * sl); g_outBytes[i][sl][k] = b == 0xEE ? 0xED : b; }
            g_outTyped[i][sl] = 5000 + 100 * sl + i;
        }
        g_retObj[i] = i;
        snprintf(g_retStr[i], sizeof g_retStr[i], "ret%02d", i);
    }
    std::vector<vf::Section> S = {
        { "single_deviation", 60000, 1200000, sec_single, false },
        { "random_sequences", 25000, 500000, sec_random, false },
        { "permuted_parameter_order", 12000, 250000, sec_permuted, false },
        { "by_reference_value_storage", 10000, 200000, sec_byref, false },
        { "cross_type_integer_parameters", g_xcases.size(), g_xcases.size(), sec_crosstype, true },
    };
    return vf::harness_main(argc, argv, S, nullptr);
}
