// C19 — the C mocking interface behaves exactly like the C++ one.
//
// Oracle: differential. One generated scenario (a list of statements) is executed twice in two
// fresh TestTestingFixture tests with identical shell identity: once through mock(scope) (C++),
// once through mock_c()/mock_scope_c(scope) and the three C function tables. Every observable the
// property names is serialised into an event log and compared: verdict, failure text (check counter
// and milliseconds masked), every returned value (C tag vs MockNamedValue::getType()), ...OrDefault
// results, bytes written through output parameters, expectedCallsLeft, data-store read-back.
//
// Scoping (DESIGN.md section 5): check counters are not compared; C calls for two scopes are never
// interleaved inside one call chain, with one exception (below); return-value getters are attached to
// the actual call they read; removeAllComparatorsAndCopiers is only issued on the root scope when no
// expectation holds a C comparator node.
//
// Kept handles ("interludes"): a mocked function may keep the MockActualCall_c* / MockActualCall& of
// its call and consult the data store (getData / set*Data) or expectedCallsLeft of ANY scope before it
// goes on with the chain (further parameters, return-value getters). Such an operation creates no
// actual call and destroys none, so the handle stays valid in both interfaces. After an interlude
// on another scope the handle's returnValue() and typed getters are judged; hasReturnValue() and the
// ...OrDefault getters of the handle are NOT (in the C facade they are documented-by-implementation
// to ask the currently selected mock support, and do so on the unchanged tree): they are not issued
// in that state (the enumerated table observes hasReturnValue there and only counts what it sees).
//
// NULL as the actual output pointer: a mocked C function hands its caller's out-argument through, and callers pass NULL for an output they
// do not want. That is well-defined exactly when nothing is written through the pointer by the framework itself: the candidate expectations
// declare the parameter as unmodified / returning 0 bytes (nothing is copied), or as a typed output (the USER's copier receives the NULL
// destination and - like every copy function of the family here - ignores it), or do not declare it at all (failing verdict). A raw
// expectation returning > 0 bytes would memcpy into NULL through either interface, so the NULL boundary is only generated when no
// expectation of the scenario returns bytes under that parameter name. The parameter still counts as passed: verdict, text, returned
// value and the bytes of all real buffers must agree (null_output_pointer_table, and a pass over the random scenarios).
#include "verif.h"
#include <cmath>
#include <cfloat>
#include <climits>
#include <limits>
#include <unordered_map>

#include "CppUTest/TestHarness.h"
#include "CppUTest/TestTestingFixture.h"
#include "CppUTestExt/MockSupport.h"
#include "CppUTestExt/MockSupport_c.h"

typedef __int128 i128;

// ---------------------------------------------------------------- value model
enum VT { V_BOOL, V_INT, V_UINT, V_LONG, V_ULONG, V_LL, V_ULL, V_DOUBLE, V_STR, V_PTR, V_CPTR, V_FPTR, V_MEM, V_OBJ, V_N };
static const char* VT_NAME[] = { "bool", "int", "uint", "long", "ulong", "llong", "ullong", "double", "string", "ptr", "cptr", "fptr", "mem", "obj" };
static const int N_GETTER_TYPES = 12;   // V_BOOL .. V_FPTR have typed return-value getters
static bool is_intlike(int t) { return t >= V_INT && t <= V_ULL; }

struct Val {
    int t = V_INT;
    uint64_t u = 0;                    // integers: raw bits; bool: the int handed to the C interface (C++ gets u != 0)
    double d = 0, tol = 0; bool hasTol = false;
    int si = 0;                        // V_STR: index into Scenario::strs, V_MEM: index into Scenario::mems
    int pi = 0;                        // V_PTR/V_CPTR/V_FPTR: pool index (-1 = NULL); V_OBJ: object index
    int ot = 0;                        // V_OBJ: object type index
};

static i128 tmin(int t) { switch (t) { case V_INT: return INT_MIN; case V_LONG: return LONG_MIN; case V_LL: return LLONG_MIN; default: return 0; } }
static i128 tmax(int t) { switch (t) { case V_BOOL: return 1; case V_INT: return INT_MAX; case V_UINT: return UINT_MAX; case V_LONG: return LONG_MAX; case V_ULONG: return (i128) ULONG_MAX; case V_LL: return LLONG_MAX; default: return (i128) ULLONG_MAX; } }
static i128 ival(int t, uint64_t u) {
    switch (t) {
    case V_BOOL: return (int) u; case V_INT: return (int) u; case V_UINT: return (unsigned) u; case V_LONG: return (long) u; case V_ULONG: return (i128) (unsigned long) u;
    case V_LL: return (long long) u; default: return (i128) (unsigned long long) u;
    }
}
static std::string s128(i128 v) {
    if (v == 0) return "0";
    bool neg = v < 0; unsigned __int128 u = neg ? (unsigned __int128) (-(v + 1)) + 1 : (unsigned __int128) v;
    std::string s; while (u) { s += (char) ('0' + (int) (u % 10)); u /= 10; }
    if (neg) s += '-';
    std::reverse(s.begin(), s.end()); return s;
}
static bool outside_int(const Val& v) { if (!is_intlike(v.t)) return false; i128 x = ival(v.t, v.u); return x < INT_MIN || x > INT_MAX; }

static std::vector<uint64_t> LAT[V_N];       // boundary lattice per integer-like type (raw bits)
static void init_lattice() {
    i128 one = 1;
    std::vector<i128> m;
    i128 pts[] = { 0, (one << 7), (one << 15), (one << 31), (one << 32), (one << 63), (one << 64), -(one << 7), -(one << 15), -(one << 31), -(one << 32), -(one << 63) };
    for (i128 p : pts) for (int d = -1; d <= 1; d++) m.push_back(p + d);
    m.push_back(42); m.push_back(-42); m.push_back(123456789); m.push_back((one << 40) + 5); m.push_back(-(one << 40) - 5);
    std::sort(m.begin(), m.end()); m.erase(std::unique(m.begin(), m.end()), m.end());
    for (int t = V_INT; t <= V_ULL; t++) for (i128 x : m) if (x >= tmin(t) && x <= tmax(t)) LAT[t].push_back((uint64_t) x);
    LAT[V_BOOL] = { 0, 1, 2, (uint64_t) -1, 256 };
}

// ---------------------------------------------------------------- pools shared by both executions
static int g_ptrpool[4];
extern "C" { static void fn0(void) {} static void fn1(void) {} static void fn2(void) {} }
typedef void (*fptr_t)();
static fptr_t FN[] = { fn0, fn1, fn2 };
static void* ptr_of(int pi) { return pi < 0 ? (void*) 0 : (void*) &g_ptrpool[pi & 3]; }
static fptr_t fptr_of(int pi) { return pi < 0 ? (fptr_t) 0 : FN[pi % 3]; }
static std::string ptr_name(const void* p) {
    if (!p) return "NULL";
    for (int i = 0; i < 4; i++) if (p == &g_ptrpool[i]) return "pool#" + std::to_string(i);
    char b[32]; snprintf(b, sizeof b, "%p", p); return b;
}
static std::string fptr_name(fptr_t f) { if (!f) return "NULL"; for (int i = 0; i < 3; i++) if (f == FN[i]) return "fn" + std::to_string(i); return "fn?"; }

struct TA { int32_t v[2]; };
struct TB { char s[8]; };
static TA g_A[4] = { { { 1, 2 } }, { { 1, 2 } }, { { 3, 4 } }, { { -1, 0 } } };
static TB g_B[4] = { { "abc" }, { "abc" }, { "abd" }, { "" } };
enum { OT_A, OT_B, OT_U, OT_N };
// custom type names that BEGIN with a built-in type name: a prefix match in a type dispatch would take the wrong branch
static const char* OT_NAME[] = { "TypeA", "double_t", "int32_t" };   // the third never gets a comparator or copier
static const void* obj_of(int ot, int oi) { return ot == OT_B ? (const void*) &g_B[oi & 3] : (const void*) &g_A[oi & 3]; }
static std::string obj_name(const void* p) {
    for (int i = 0; i < 4; i++) { if (p == &g_A[i]) return "A#" + std::to_string(i); if (p == &g_B[i]) return "B#" + std::to_string(i); }
    return ptr_name(p);
}
// The user's equality / copy functions are arbitrary C functions: the adaptors must hand every call through verbatim (same two
// addresses in the same order, result judged by != 0). So the functions come in families whose result is NOT implied by the
// addresses or by structural equality: an adaptor that answers on its own for some relationship between the arguments
// (identical addresses, swapped order, truncated result) changes the verdict for at least one member.
enum { CM_STRUCT, CM_NONREFLEXIVE, CM_IDENTITY, CM_ORDERED, CM_NEVER, CM_ALWAYS, CM_N };
static const char* CM_NAME[] = { "structural", "nonreflexive", "identity", "ordered", "never", "always" };
enum { CP_MEMCPY, CP_XOR, CP_N };
static const char* CP_NAME[] = { "memcpy", "xor" };
static_assert(sizeof(TA) == 8 && sizeof(TB) == 8, "object pool types are 8 bytes");
static bool g_viaC = false;                              // tallies below are taken in the C execution only
static uint64_t g_cmp_tally[CM_N][2][2];                 // [mode][same address][judged equal]
static uint64_t g_cpy_tally[CP_N][2];                    // [mode][dst == src]
static uint64_t g_cpy_null_tally[CP_N];                  // [mode] destination is NULL (the caller did not want the output): nothing to do
static uint64_t g_null_out_tally[2];                     // C execution: actual output parameters passed with a NULL pointer [typed]
static bool obj_invalid(int ot, const void* p) { return ot == OT_B ? ((const TB*) p)->s[0] == 0 : ((const TA*) p)->v[0] < 0; }     // object #3 of either pool
static int eq_generic(int ot, int mode, const void* a, const void* b) {
    bool st = memcmp(a, b, 8) == 0;
    int yes = ot == OT_B ? -1 : 7;                       // "true" is any non-zero int
    int r;
    switch (mode) {
    case CM_STRUCT: r = st ? yes : 0; break;
    case CM_NONREFLEXIVE: r = (st && !obj_invalid(ot, a) && !obj_invalid(ot, b)) ? yes : 0; break;   // like a struct holding a NaN: an invalid object equals nothing, not even itself
    case CM_IDENTITY: r = a == b ? yes : 0; break;                                                  // equal content at another address is another object
    case CM_ORDERED: r = memcmp(a, b, 8) <= 0 ? yes : 0; break;                                     // "expected is a lower bound": not symmetric
    case CM_NEVER: r = 0; break;
    default: r = 256; break;                                                                        // non-zero with a zero low byte
    }
    if (g_viaC) g_cmp_tally[mode][a == b][r != 0]++;
    return r;
}
static void cpy_generic(int mode, void* d, const void* s) {
    if (!d) { if (g_viaC) g_cpy_null_tally[mode]++; return; }
    if (g_viaC) g_cpy_tally[mode][d == s]++;
    unsigned char* D = (unsigned char*) d; const unsigned char* S = (const unsigned char*) s;
    if (mode == CP_MEMCPY) { if (d != s) memcpy(d, s, 8); return; }
    for (int i = 0; i < 8; i++) D[i] = (unsigned char) (S[i] ^ 0x5A);                                // a copier that converts: it has an effect even when dst == src
}
extern "C" {
#define DEF_EQ(ot, mode) static int eq_##ot##_##mode(const void* a, const void* b) { return eq_generic(ot, mode, a, b); }
DEF_EQ(0, 0) DEF_EQ(0, 1) DEF_EQ(0, 2) DEF_EQ(0, 3) DEF_EQ(0, 4) DEF_EQ(0, 5)
DEF_EQ(1, 0) DEF_EQ(1, 1) DEF_EQ(1, 2) DEF_EQ(1, 3) DEF_EQ(1, 4) DEF_EQ(1, 5)
static void cpy_memcpy(void* d, const void* s) { cpy_generic(CP_MEMCPY, d, s); }
static void cpy_xor(void* d, const void* s) { cpy_generic(CP_XOR, d, s); }
static const char* strA(const void* a) { static char buf[64]; const TA* x = (const TA*) a; snprintf(buf, sizeof buf, "A{%d,%d}", x->v[0], x->v[1]); return buf; }
static const char* strB(const void* a) { static char buf[64]; const TB* x = (const TB*) a; snprintf(buf, sizeof buf, "B{%.8s}", x->s); return buf; }
}
typedef int (*eq_fn)(const void*, const void*);
typedef const char* (*str_fn)(const void*);
typedef void (*cpy_fn)(void*, const void*);
static eq_fn EQ[2][CM_N] = { { eq_0_0, eq_0_1, eq_0_2, eq_0_3, eq_0_4, eq_0_5 }, { eq_1_0, eq_1_1, eq_1_2, eq_1_3, eq_1_4, eq_1_5 } };
static str_fn STR[] = { strA, strB }; static cpy_fn CPY[CP_N] = { cpy_memcpy, cpy_xor };
struct CmpCpp : public MockNamedValueComparator {
    eq_fn eq; str_fn str;
    bool isEqual(const void* a, const void* b) override { return eq(a, b) != 0; }
    SimpleString valueToString(const void* o) override { return SimpleString(str(o)); }
};
struct CpyCpp : public MockNamedValueCopier {
    cpy_fn cp;
    void copy(void* d, const void* s) override { cp(d, s); }
};
static CmpCpp g_cmp[2][CM_N]; static CpyCpp g_cpy[CP_N];

enum { OUT_BUFS = 3, OUT_SIZE = 16 };
static unsigned char g_out[OUT_BUFS][OUT_SIZE];
static void* out_ptr(int buf) { return buf < 0 ? (void*) 0 : (void*) g_out[buf]; }      // buf -1: the caller passes NULL for this output
static const void* out_src(int ot, int oi) { return oi < 0 ? (const void*) g_out[(-1 - oi) % OUT_BUFS] : obj_of(ot, oi); }

// ---------------------------------------------------------------- scenario model
static const char* SCOPE[] = { "", "s1", "s2" };
enum SK { S_EXPECT, S_ACTUAL, S_STRICT, S_IGNORE_OTHERS, S_DISABLE, S_ENABLE, S_SETDATA, S_GETDATA, S_CHECK, S_CLEAR, S_LEFT, S_INSTALL_CMP, S_INSTALL_CPY, S_REMOVE_ALL, S_CRASH, S_KINDS };
static const char* SK_NAME[] = { "expect", "actual", "strictOrder", "ignoreOtherCalls", "disable", "enable", "setData", "getData", "checkExpectations", "clear", "expectedCallsLeft", "installComparator", "installCopier", "removeAllComparatorsAndCopiers", "crashOnFailure" };

enum { P_IN, P_OUT_RAW, P_OUT_TYPED, P_OUT_UNMODIFIED };   // expected side; actual side uses P_IN, P_OUT_RAW, P_OUT_TYPED
struct Param {
    int kind = P_IN;
    std::string name;
    Val v;                 // P_IN
    int mi = 0;            // expected P_OUT_RAW: index into Scenario::mems
    int ot = 0, oi = 0;    // typed output: type index (+ object index on the expected side; -1-b = the object lives in receiving buffer b)
    int buf = 0;           // actual output: which g_out buffer receives (-1: a NULL pointer is passed)
    int il = -1;           // actual side: index into Scenario::ils of a support-level operation issued (handle kept) before this chain link
};
enum { G_RETVAL, G_HAS, G_TYPED, G_ORDEFAULT };
enum { L_ACTUAL, L_SUPPORT };
struct Getter {
    int level = L_ACTUAL; int kind = G_RETVAL; int t = V_INT; Val def;
    int il = -1;           // index into Scenario::ils of a support-level operation issued (handle kept) before this getter
    bool foreign = false;  // derived (finish_chain): actual-level getter issued while ANOTHER scope than the call's is the selected one
};

struct Stmt {
    int k = S_EXPECT;
    int scope = 0;
    int entry = 0;                 // root scope only: 0 = mock_c(), 1 = mock_scope_c("")
    std::string fn;                // function name / data name
    int ecount = -1;               // S_EXPECT: -1 expectOneCall, -2 expectNoCall, >= 0 expectNCalls(n)
    std::vector<Param> ps;
    bool ignoreOtherParams = false;
    bool hasRet = false; Val ret;
    std::vector<Getter> getters;
    Val dval; bool dconst = false; // S_SETDATA
    int ot = 0;                    // S_INSTALL_*
    int fm = 0;                    // S_INSTALL_CMP: member of the equality-function family (CM_*), S_INSTALL_CPY: of the copy-function family (CP_*)
    int crash = 0;                 // S_CRASH: 1 = crashOnFailure(1) immediately followed by crashOnFailure(0); 2 = crashOnFailure(1) and left on (a counting crash method that returns is installed for every execution)
};
struct Scenario {
    std::vector<std::string> strs;
    std::vector<std::string> mems;
    std::vector<Stmt> stmts;
    std::vector<Stmt> ils;                 // interludes: getData / setData / expectedCallsLeft statements issued inside an actual-call chain
    bool ignoredPossible = false;
    std::string key_override;              // enumerated tables with their own key family (D19 table, adaptor table)
};

static std::string val_str(const Scenario& sc, const Val& v) {
    std::string s = VT_NAME[v.t]; s += ":";
    char b[80];
    switch (v.t) {
    case V_DOUBLE: snprintf(b, sizeof b, "%a", v.d); s += b; if (v.hasTol) { snprintf(b, sizeof b, "~%a", v.tol); s += b; } break;
    case V_STR: s += "\"" + sc.strs[v.si] + "\""; break;
    case V_PTR: case V_CPTR: s += v.pi < 0 ? "NULL" : "#" + std::to_string(v.pi & 3); break;
    case V_FPTR: s += v.pi < 0 ? "NULL" : "fn" + std::to_string(v.pi % 3); break;
    case V_MEM: s += vf::hexbytes(sc.mems[v.si].data(), sc.mems[v.si].size()); break;
    case V_OBJ: s += std::string(OT_NAME[v.ot]) + "#" + std::to_string(v.pi & 3); break;
    default: s += s128(ival(v.t, v.u)); break;
    }
    return s;
}
static std::string getter_label(const Getter& g) {
    std::string s = g.level == L_ACTUAL ? "actual." : "support.";
    const char* sfx = g.foreign ? ":other-scope-selected" : "";
    switch (g.kind) { case G_RETVAL: return s + "returnValue" + sfx; case G_HAS: return s + "hasReturnValue" + sfx; case G_TYPED: return s + "typed." + VT_NAME[g.t] + sfx; default: return s + "orDefault." + VT_NAME[g.t] + sfx; }
}
static std::string stmt_str(const Scenario& sc, const Stmt& st) {
    std::string s = std::string("mock(") + SCOPE[st.scope] + (st.scope == 0 && st.entry ? "/scope_c" : "") + ").";
    switch (st.k) {
    case S_EXPECT:
        s += st.ecount == -1 ? "expectOneCall(" : st.ecount == -2 ? "expectNoCall(" : "expectNCalls(" + std::to_string(st.ecount) + ",";
        s += st.fn + ")";
        for (const Param& p : st.ps) {
            if (p.kind == P_IN) s += ".with(" + p.name + "=" + val_str(sc, p.v) + ")";
            else if (p.kind == P_OUT_RAW) s += ".outReturning(" + p.name + "," + vf::hexbytes(sc.mems[p.mi].data(), sc.mems[p.mi].size()) + ")";
            else if (p.kind == P_OUT_TYPED) s += ".outOfTypeReturning(" + std::string(OT_NAME[p.ot]) + "," + p.name + "," + (p.oi < 0 ? "buf" + std::to_string((-1 - p.oi) % OUT_BUFS) : "#" + std::to_string(p.oi)) + ")";
            else s += ".unmodifiedOut(" + p.name + ")";
        }
        if (st.ignoreOtherParams) s += ".ignoreOtherParameters()";
        if (st.hasRet) s += ".andReturn(" + val_str(sc, st.ret) + ")";
        break;
    case S_ACTUAL:
        s += "actualCall(" + st.fn + ")";
        for (const Param& p : st.ps) {
            if (p.il >= 0) s += " <handle kept: " + stmt_str(sc, sc.ils[p.il]) + "> ";
            if (p.kind == P_IN) s += ".with(" + p.name + "=" + val_str(sc, p.v) + ")";
            else if (p.kind == P_OUT_RAW) s += ".out(" + p.name + "," + (p.buf < 0 ? std::string("NULL") : "buf" + std::to_string(p.buf)) + ")";
            else s += ".outOfType(" + std::string(OT_NAME[p.ot]) + "," + p.name + "," + (p.buf < 0 ? std::string("NULL") : "buf" + std::to_string(p.buf)) + ")";
        }
        for (const Getter& g : st.getters) { if (g.il >= 0) s += " ; <handle kept: " + stmt_str(sc, sc.ils[g.il]) + ">"; s += " ; " + getter_label(g); if (g.kind == G_ORDEFAULT) s += "(" + val_str(sc, g.def) + ")"; }
        break;
    case S_SETDATA: s += std::string(st.dconst ? "setDataConst(" : "setData(") + st.fn + "," + val_str(sc, st.dval) + ")"; break;
    case S_GETDATA: s += "getData(" + st.fn + ")"; break;
    case S_INSTALL_CMP: case S_INSTALL_CPY: s += std::string(SK_NAME[st.k]) + "(" + OT_NAME[st.ot] + "," + (st.k == S_INSTALL_CMP ? CM_NAME[st.fm] : CP_NAME[st.fm]) + ")"; break;
    case S_CRASH: s += st.crash == 2 ? "crashOnFailure(1)" : st.crash ? "crashOnFailure(1);crashOnFailure(0)" : "crashOnFailure(0)"; break;
    default: s += std::string(SK_NAME[st.k]) + "()"; break;
    }
    return s;
}
static std::string scenario_json(const Scenario& sc) {
    std::vector<std::string> items;
    for (const Stmt& st : sc.stmts) items.push_back(vf::jstr(stmt_str(sc, st)));
    return vf::J().raw("stmts", vf::jarr(items)).str();
}

// ---------------------------------------------------------------- event log
struct Ev { int stmt; std::string kind, label, value; };
struct Exec {
    std::vector<Ev> ev;
    size_t failures = 0;
    std::string text;
    bool bodyDone = false, tearDone = false;
    std::vector<std::string> unjudged_has;   // hasReturnValue() of a kept handle while another scope is selected: observed, not compared
};
static const Scenario* g_sc; static Exec* g_x;
static std::vector<int> g_executed_kinds;     // statement kinds started by the C execution (evidence)
static void logev(int stmt, const char* kind, const std::string& label, const std::string& value) { g_x->ev.push_back(Ev{ stmt, kind, label, value }); }
// the crash method of every execution: counts and returns (crashOnFailure left on + a failing call: both interfaces must invoke it alike)
static int g_cur_stmt = -1; static unsigned long g_crash_calls = 0;
static void counting_crash_method() { g_crash_calls++; if (g_x) logev(g_cur_stmt, "crash-method", "", "invoked"); }

// value formatting shared by both sides (tags are compared by name)
static const char* CTAG[] = { "BOOL", "UNSIGNED_INTEGER", "INTEGER", "LONG_INTEGER", "UNSIGNED_LONG_INTEGER", "LONG_LONG_INTEGER", "UNSIGNED_LONG_LONG_INTEGER", "DOUBLE", "STRING", "POINTER", "CONST_POINTER", "FUNCTIONPOINTER", "MEMORYBUFFER", "OBJECT" };
static std::string f_i(long long v) { return std::to_string(v); }
static std::string f_u(unsigned long long v) { return std::to_string(v); }
static std::string f_d(double d) { char b[64]; snprintf(b, sizeof b, "%a", d); return b; }
static std::string f_s(const char* s) { if (!s) return "NULL"; char b[32]; snprintf(b, sizeof b, "%p", (const void*) s); return std::string(b) + "=\"" + s + "\""; }
static std::string f_p(const void* p) { return ptr_name(p); }
static std::string tv(const char* tag, const std::string& val) { return std::string("tag=") + tag + " val=" + val; }

// independent table: MockNamedValue type string -> tag the C union must carry
static std::string fmt_named(const MockNamedValue& nv) {
    SimpleString ts = nv.getType(); const char* t = ts.asCharString();
    if (!strcmp(t, "bool")) return tv("BOOL", f_i(nv.getBoolValue() ? 1 : 0));
    if (!strcmp(t, "int")) return tv("INTEGER", f_i(nv.getIntValue()));
    if (!strcmp(t, "unsigned int")) return tv("UNSIGNED_INTEGER", f_u(nv.getUnsignedIntValue()));
    if (!strcmp(t, "long int")) return tv("LONG_INTEGER", f_i(nv.getLongIntValue()));
    if (!strcmp(t, "unsigned long int")) return tv("UNSIGNED_LONG_INTEGER", f_u(nv.getUnsignedLongIntValue()));
    if (!strcmp(t, "long long int")) return tv("LONG_LONG_INTEGER", f_i(nv.getLongLongIntValue()));
    if (!strcmp(t, "unsigned long long int")) return tv("UNSIGNED_LONG_LONG_INTEGER", f_u(nv.getUnsignedLongLongIntValue()));
    if (!strcmp(t, "double")) return tv("DOUBLE", f_d(nv.getDoubleValue()));
    if (!strcmp(t, "const char*")) return tv("STRING", f_s(nv.getStringValue()));
    if (!strcmp(t, "void*")) return tv("POINTER", f_p(nv.getPointerValue()));
    if (!strcmp(t, "const void*")) return tv("CONST_POINTER", f_p(nv.getConstPointerValue()));
    if (!strcmp(t, "void (*)()")) return tv("FUNCTIONPOINTER", fptr_name(nv.getFunctionPointerValue()));
    if (!strcmp(t, "const unsigned char*")) return tv("MEMORYBUFFER", f_p(nv.getMemoryBuffer()));
    return tv("OBJECT", obj_name(nv.getObjectPointer()));
}
static std::string fmt_cvalue(const MockValue_c& v) {
    const char* tag = ((unsigned) v.type < sizeof(CTAG) / sizeof(CTAG[0])) ? CTAG[v.type] : "INVALID";
    switch (v.type) {
    case MOCKVALUETYPE_BOOL: return tv(tag, f_i(v.value.boolValue));
    case MOCKVALUETYPE_INTEGER: return tv(tag, f_i(v.value.intValue));
    case MOCKVALUETYPE_UNSIGNED_INTEGER: return tv(tag, f_u(v.value.unsignedIntValue));
    case MOCKVALUETYPE_LONG_INTEGER: return tv(tag, f_i(v.value.longIntValue));
    case MOCKVALUETYPE_UNSIGNED_LONG_INTEGER: return tv(tag, f_u(v.value.unsignedLongIntValue));
    case MOCKVALUETYPE_LONG_LONG_INTEGER: return tv(tag, f_i(v.value.longLongIntValue));
    case MOCKVALUETYPE_UNSIGNED_LONG_LONG_INTEGER: return tv(tag, f_u(v.value.unsignedLongLongIntValue));
    case MOCKVALUETYPE_DOUBLE: return tv(tag, f_d(v.value.doubleValue));
    case MOCKVALUETYPE_STRING: return tv(tag, f_s(v.value.stringValue));
    case MOCKVALUETYPE_POINTER: return tv(tag, f_p(v.value.pointerValue));
    case MOCKVALUETYPE_CONST_POINTER: return tv(tag, f_p(v.value.constPointerValue));
    case MOCKVALUETYPE_FUNCTIONPOINTER: return tv(tag, fptr_name((fptr_t) v.value.functionPointerValue));
    case MOCKVALUETYPE_MEMORYBUFFER: return tv(tag, f_p(v.value.memoryBufferValue));
    case MOCKVALUETYPE_OBJECT: return tv(tag, obj_name(v.value.objectValue));
    default: return tv(tag, "?");
    }
}
static std::string out_hex(int buf) { return vf::hexbytes(g_out[buf], OUT_SIZE); }
static void log_outs_of(int i, const Stmt& st) { for (const Param& p : st.ps) if (p.kind != P_IN && p.buf >= 0) logev(i, "out", "buf" + std::to_string(p.buf), out_hex(p.buf)); }

// ---------------------------------------------------------------- execution through the C++ interface
static MockExpectedCall& cpp_exp_param(MockExpectedCall& e, const Scenario& sc, const Param& p) {
    const char* n = p.name.c_str();
    if (p.kind == P_OUT_RAW) return e.withOutputParameterReturning(n, sc.mems[p.mi].data(), sc.mems[p.mi].size());
    if (p.kind == P_OUT_TYPED) return e.withOutputParameterOfTypeReturning(OT_NAME[p.ot], n, out_src(p.ot, p.oi));
    if (p.kind == P_OUT_UNMODIFIED) return e.withUnmodifiedOutputParameter(n);
    const Val& v = p.v;
    switch (v.t) {
    case V_BOOL: return e.withBoolParameter(n, (int) v.u != 0);
    case V_INT: return e.withIntParameter(n, (int) v.u);
    case V_UINT: return e.withUnsignedIntParameter(n, (unsigned int) v.u);
    case V_LONG: return e.withLongIntParameter(n, (long int) v.u);
    case V_ULONG: return e.withUnsignedLongIntParameter(n, (unsigned long int) v.u);
    case V_LL: return e.withLongLongIntParameter(n, (long long) v.u);
    case V_ULL: return e.withUnsignedLongLongIntParameter(n, (unsigned long long) v.u);
    case V_DOUBLE: return v.hasTol ? e.withDoubleParameter(n, v.d, v.tol) : e.withDoubleParameter(n, v.d);
    case V_STR: return e.withStringParameter(n, sc.strs[v.si].c_str());
    case V_PTR: return e.withPointerParameter(n, ptr_of(v.pi));
    case V_CPTR: return e.withConstPointerParameter(n, (const void*) ptr_of(v.pi));
    case V_FPTR: return e.withFunctionPointerParameter(n, fptr_of(v.pi));
    case V_MEM: return e.withMemoryBufferParameter(n, (const unsigned char*) sc.mems[v.si].data(), sc.mems[v.si].size());
    default: return e.withParameterOfType(OT_NAME[v.ot], n, obj_of(v.ot, v.pi));
    }
}
static MockExpectedCall& cpp_ret(MockExpectedCall& e, const Scenario& sc, const Val& v) {
    switch (v.t) {
    case V_BOOL: return e.andReturnValue((bool) ((int) v.u != 0));
    case V_INT: return e.andReturnValue((int) v.u);
    case V_UINT: return e.andReturnValue((unsigned int) v.u);
    case V_LONG: return e.andReturnValue((long int) v.u);
    case V_ULONG: return e.andReturnValue((unsigned long int) v.u);
    case V_LL: return e.andReturnValue((long long) v.u);
    case V_ULL: return e.andReturnValue((unsigned long long) v.u);
    case V_DOUBLE: return e.andReturnValue(v.d);
    case V_STR: return e.andReturnValue(sc.strs[v.si].c_str());
    case V_PTR: return e.andReturnValue(ptr_of(v.pi));
    case V_CPTR: return e.andReturnValue((const void*) ptr_of(v.pi));
    default: return e.andReturnValue(fptr_of(v.pi));
    }
}
static MockActualCall& cpp_act_param(MockActualCall& a, const Scenario& sc, const Param& p) {
    const char* n = p.name.c_str();
    if (p.kind == P_OUT_RAW) return a.withOutputParameter(n, out_ptr(p.buf));
    if (p.kind == P_OUT_TYPED) return a.withOutputParameterOfType(OT_NAME[p.ot], n, out_ptr(p.buf));
    const Val& v = p.v;
    switch (v.t) {
    case V_BOOL: return a.withBoolParameter(n, (int) v.u != 0);
    case V_INT: return a.withIntParameter(n, (int) v.u);
    case V_UINT: return a.withUnsignedIntParameter(n, (unsigned int) v.u);
    case V_LONG: return a.withLongIntParameter(n, (long int) v.u);
    case V_ULONG: return a.withUnsignedLongIntParameter(n, (unsigned long int) v.u);
    case V_LL: return a.withLongLongIntParameter(n, (long long) v.u);
    case V_ULL: return a.withUnsignedLongLongIntParameter(n, (unsigned long long) v.u);
    case V_DOUBLE: return a.withDoubleParameter(n, v.d);
    case V_STR: return a.withStringParameter(n, sc.strs[v.si].c_str());
    case V_PTR: return a.withPointerParameter(n, ptr_of(v.pi));
    case V_CPTR: return a.withConstPointerParameter(n, (const void*) ptr_of(v.pi));
    case V_FPTR: return a.withFunctionPointerParameter(n, fptr_of(v.pi));
    case V_MEM: return a.withMemoryBufferParameter(n, (const unsigned char*) sc.mems[v.si].data(), sc.mems[v.si].size());
    default: return a.withParameterOfType(OT_NAME[v.ot], n, obj_of(v.ot, v.pi));
    }
}
static std::string cpp_getter_actual(MockActualCall& a, const Scenario& sc, const Getter& g) {
    const Val& d = g.def;
    if (g.kind == G_RETVAL) return fmt_named(a.returnValue());
    if (g.kind == G_HAS) return f_i(a.hasReturnValue() ? 1 : 0);
    if (g.kind == G_TYPED) switch (g.t) {
        case V_BOOL: return f_i(a.returnBoolValue() ? 1 : 0);
        case V_INT: return f_i(a.returnIntValue());
        case V_UINT: return f_u(a.returnUnsignedIntValue());
        case V_LONG: return f_i(a.returnLongIntValue());
        case V_ULONG: return f_u(a.returnUnsignedLongIntValue());
        case V_LL: return f_i(a.returnLongLongIntValue());
        case V_ULL: return f_u(a.returnUnsignedLongLongIntValue());
        case V_DOUBLE: return f_d(a.returnDoubleValue());
        case V_STR: return f_s(a.returnStringValue());
        case V_PTR: return f_p(a.returnPointerValue());
        case V_CPTR: return f_p(a.returnConstPointerValue());
        default: return fptr_name(a.returnFunctionPointerValue());
    }
    switch (g.t) {
    case V_BOOL: return f_i(a.returnBoolValueOrDefault((int) d.u != 0) ? 1 : 0);
    case V_INT: return f_i(a.returnIntValueOrDefault((int) d.u));
    case V_UINT: return f_u(a.returnUnsignedIntValueOrDefault((unsigned int) d.u));
    case V_LONG: return f_i(a.returnLongIntValueOrDefault((long int) d.u));
    case V_ULONG: return f_u(a.returnUnsignedLongIntValueOrDefault((unsigned long int) d.u));
    case V_LL: return f_i(a.returnLongLongIntValueOrDefault((long long) d.u));
    case V_ULL: return f_u(a.returnUnsignedLongLongIntValueOrDefault((unsigned long long) d.u));
    case V_DOUBLE: return f_d(a.returnDoubleValueOrDefault(d.d));
    case V_STR: return f_s(a.returnStringValueOrDefault(sc.strs[d.si].c_str()));
    case V_PTR: return f_p(a.returnPointerValueOrDefault(ptr_of(d.pi)));
    case V_CPTR: return f_p(a.returnConstPointerValueOrDefault((const void*) ptr_of(d.pi)));
    default: return fptr_name(a.returnFunctionPointerValueOrDefault(fptr_of(d.pi)));
    }
}
static std::string cpp_getter_support(MockSupport& m, const Scenario& sc, const Getter& g) {
    const Val& d = g.def;
    if (g.kind == G_RETVAL) return fmt_named(m.returnValue());
    if (g.kind == G_HAS) return f_i(m.hasReturnValue() ? 1 : 0);
    if (g.kind == G_TYPED) switch (g.t) {
        case V_BOOL: return f_i(m.boolReturnValue() ? 1 : 0);
        case V_INT: return f_i(m.intReturnValue());
        case V_UINT: return f_u(m.unsignedIntReturnValue());
        case V_LONG: return f_i(m.longIntReturnValue());
        case V_ULONG: return f_u(m.unsignedLongIntReturnValue());
        case V_LL: return f_i(m.longLongIntReturnValue());
        case V_ULL: return f_u(m.unsignedLongLongIntReturnValue());
        case V_DOUBLE: return f_d(m.doubleReturnValue());
        case V_STR: return f_s(m.stringReturnValue());
        case V_PTR: return f_p(m.pointerReturnValue());
        case V_CPTR: return f_p(m.constPointerReturnValue());
        default: return fptr_name(m.functionPointerReturnValue());
    }
    switch (g.t) {
    case V_BOOL: return f_i(m.returnBoolValueOrDefault((int) d.u != 0) ? 1 : 0);
    case V_INT: return f_i(m.returnIntValueOrDefault((int) d.u));
    case V_UINT: return f_u(m.returnUnsignedIntValueOrDefault((unsigned int) d.u));
    case V_LONG: return f_i(m.returnLongIntValueOrDefault((long int) d.u));
    case V_ULONG: return f_u(m.returnUnsignedLongIntValueOrDefault((unsigned long int) d.u));
    case V_LL: return f_i(m.returnLongLongIntValueOrDefault((long long) d.u));
    case V_ULL: return f_u(m.returnUnsignedLongLongIntValueOrDefault((unsigned long long) d.u));
    case V_DOUBLE: return f_d(m.returnDoubleValueOrDefault(d.d));
    case V_STR: return f_s(m.returnStringValueOrDefault(sc.strs[d.si].c_str()));
    case V_PTR: return f_p(m.returnPointerValueOrDefault(ptr_of(d.pi)));
    case V_CPTR: return f_p(m.returnConstPointerValueOrDefault((const void*) ptr_of(d.pi)));
    default: return fptr_name(m.returnFunctionPointerValueOrDefault(fptr_of(d.pi)));
    }
}
static uint64_t g_il_tally[S_KINDS][2][2];              // C execution: interludes by [statement kind][other scope than the call's][before a getter]
static void cpp_stmt(const Scenario& sc, const Stmt& st, int i) {
    MockSupport& m = mock(SCOPE[st.scope]);
    switch (st.k) {
    case S_EXPECT: {
        if (st.ecount == -2) { m.expectNoCall(st.fn.c_str()); break; }
        MockExpectedCall* e = st.ecount == -1 ? &m.expectOneCall(st.fn.c_str()) : &m.expectNCalls((unsigned int) st.ecount, st.fn.c_str());
        for (const Param& p : st.ps) e = &cpp_exp_param(*e, sc, p);
        if (st.ignoreOtherParams) e = &e->ignoreOtherParameters();
        if (st.hasRet) e = &cpp_ret(*e, sc, st.ret);
        break;
    }
    case S_ACTUAL: {
        MockActualCall* a = &m.actualCall(st.fn.c_str());
        for (const Param& p : st.ps) { if (p.il >= 0) cpp_stmt(sc, sc.ils[p.il], i); a = &cpp_act_param(*a, sc, p); }
        for (const Getter& g : st.getters) {
            if (g.il >= 0) cpp_stmt(sc, sc.ils[g.il], i);
            std::string lbl = getter_label(g);
            std::string v = g.level == L_ACTUAL ? cpp_getter_actual(*a, sc, g) : cpp_getter_support(mock(SCOPE[st.scope]), sc, g);
            if (g.foreign && g.kind == G_HAS) g_x->unjudged_has.push_back(v); else logev(i, "get", lbl, v);
        }
        log_outs_of(i, st);
        break;
    }
    case S_STRICT: m.strictOrder(); break;
    case S_IGNORE_OTHERS: m.ignoreOtherCalls(); break;
    case S_DISABLE: m.disable(); break;
    case S_ENABLE: m.enable(); break;
    case S_SETDATA: {
        const char* n = st.fn.c_str(); const Val& v = st.dval;
        switch (v.t) {
        case V_BOOL: m.setData(n, (bool) ((int) v.u != 0)); break;
        case V_INT: m.setData(n, (int) v.u); break;
        case V_UINT: m.setData(n, (unsigned int) v.u); break;
        case V_DOUBLE: m.setData(n, v.d); break;
        case V_STR: m.setData(n, sc.strs[v.si].c_str()); break;
        case V_PTR: m.setData(n, ptr_of(v.pi)); break;
        case V_CPTR: m.setData(n, (const void*) ptr_of(v.pi)); break;
        case V_FPTR: m.setData(n, fptr_of(v.pi)); break;
        default: if (st.dconst) m.setDataConstObject(n, OT_NAME[v.ot], obj_of(v.ot, v.pi)); else m.setDataObject(n, OT_NAME[v.ot], (void*) obj_of(v.ot, v.pi)); break;
        }
        break;
    }
    case S_GETDATA: logev(i, "data", st.fn, fmt_named(m.getData(st.fn.c_str()))); break;
    case S_CHECK: m.checkExpectations(); break;
    case S_CLEAR: m.clear(); break;
    case S_LEFT: logev(i, "left", SCOPE[st.scope], f_i(m.expectedCallsLeft() ? 1 : 0)); break;
    case S_INSTALL_CMP: m.installComparator(OT_NAME[st.ot], g_cmp[st.ot][st.fm]); break;
    case S_INSTALL_CPY: m.installCopier(OT_NAME[st.ot], g_cpy[st.fm]); break;
    case S_REMOVE_ALL: m.removeAllComparatorsAndCopiers(); break;
    case S_CRASH: if (st.crash) m.crashOnFailure(true); if (st.crash != 2) mock(SCOPE[st.scope]).crashOnFailure(false); break;
    }
}
static void body_cpp() {
    const Scenario& sc = *g_sc;
    for (size_t i = 0; i < sc.stmts.size(); i++) { g_cur_stmt = (int) i; cpp_stmt(sc, sc.stmts[i], (int) i); logev((int) i, "done", "", ""); }
    g_x->bodyDone = true;
}
static void teardown_cpp() {
    int T = (int) g_sc->stmts.size(); g_cur_stmt = T;
    logev(T, "left", "teardown", f_i(mock("").expectedCallsLeft() ? 1 : 0));
    for (int b = 0; b < OUT_BUFS; b++) logev(T, "out", "final-buf" + std::to_string(b), out_hex(b));
    mock("").checkExpectations();
    logev(T, "done", "", "");
    g_x->tearDone = true;
}

// ---------------------------------------------------------------- C function-table slot coverage
static const char* SUPPORT_SLOTS[] = { "strictOrder", "expectOneCall", "expectNoCall", "expectNCalls", "actualCall", "hasReturnValue", "returnValue",
    "boolReturnValue", "returnBoolValueOrDefault", "intReturnValue", "returnIntValueOrDefault", "unsignedIntReturnValue", "returnUnsignedIntValueOrDefault",
    "longIntReturnValue", "returnLongIntValueOrDefault", "unsignedLongIntReturnValue", "returnUnsignedLongIntValueOrDefault", "longLongIntReturnValue",
    "returnLongLongIntValueOrDefault", "unsignedLongLongIntReturnValue", "returnUnsignedLongLongIntValueOrDefault", "stringReturnValue", "returnStringValueOrDefault",
    "doubleReturnValue", "returnDoubleValueOrDefault", "pointerReturnValue", "returnPointerValueOrDefault", "constPointerReturnValue", "returnConstPointerValueOrDefault",
    "functionPointerReturnValue", "returnFunctionPointerValueOrDefault", "setBoolData", "setIntData", "setUnsignedIntData", "setStringData", "setDoubleData",
    "setPointerData", "setConstPointerData", "setFunctionPointerData", "setDataObject", "setDataConstObject", "getData", "disable", "enable", "ignoreOtherCalls",
    "checkExpectations", "expectedCallsLeft", "clear", "crashOnFailure", "installComparator", "installCopier", "removeAllComparatorsAndCopiers" };
static const char* EXPECTED_SLOTS[] = { "withBoolParameters", "withIntParameters", "withUnsignedIntParameters", "withLongIntParameters", "withUnsignedLongIntParameters",
    "withLongLongIntParameters", "withUnsignedLongLongIntParameters", "withDoubleParameters", "withDoubleParametersAndTolerance", "withStringParameters",
    "withPointerParameters", "withConstPointerParameters", "withFunctionPointerParameters", "withMemoryBufferParameter", "withParameterOfType",
    "withOutputParameterReturning", "withOutputParameterOfTypeReturning", "withUnmodifiedOutputParameter", "ignoreOtherParameters", "andReturnBoolValue",
    "andReturnUnsignedIntValue", "andReturnIntValue", "andReturnLongIntValue", "andReturnUnsignedLongIntValue", "andReturnLongLongIntValue",
    "andReturnUnsignedLongLongIntValue", "andReturnDoubleValue", "andReturnStringValue", "andReturnPointerValue", "andReturnConstPointerValue", "andReturnFunctionPointerValue" };
static const char* ACTUAL_SLOTS[] = { "withBoolParameters", "withIntParameters", "withUnsignedIntParameters", "withLongIntParameters", "withUnsignedLongIntParameters",
    "withLongLongIntParameters", "withUnsignedLongLongIntParameters", "withDoubleParameters", "withStringParameters", "withPointerParameters", "withConstPointerParameters",
    "withFunctionPointerParameters", "withMemoryBufferParameter", "withParameterOfType", "withOutputParameter", "withOutputParameterOfType", "hasReturnValue", "returnValue",
    "boolReturnValue", "returnBoolValueOrDefault", "intReturnValue", "returnIntValueOrDefault", "unsignedIntReturnValue", "returnUnsignedIntValueOrDefault",
    "longIntReturnValue", "returnLongIntValueOrDefault", "unsignedLongIntReturnValue", "returnUnsignedLongIntValueOrDefault", "longLongIntReturnValue",
    "returnLongLongIntValueOrDefault", "unsignedLongLongIntReturnValue", "returnUnsignedLongLongIntValueOrDefault", "stringReturnValue", "returnStringValueOrDefault",
    "doubleReturnValue", "returnDoubleValueOrDefault", "pointerReturnValue", "returnPointerValueOrDefault", "constPointerReturnValue", "returnConstPointerValueOrDefault",
    "functionPointerReturnValue", "returnFunctionPointerValueOrDefault" };
static_assert(sizeof(SUPPORT_SLOTS) / sizeof(char*) == sizeof(MockSupport_c) / sizeof(void (*)()), "slot list must cover every member of MockSupport_c");
static_assert(sizeof(EXPECTED_SLOTS) / sizeof(char*) == sizeof(MockExpectedCall_c) / sizeof(void (*)()), "slot list must cover every member of MockExpectedCall_c");
static_assert(sizeof(ACTUAL_SLOTS) / sizeof(char*) == sizeof(MockActualCall_c) / sizeof(void (*)()), "slot list must cover every member of MockActualCall_c");

static std::vector<std::string> g_slot_names;            // "slot:support.x", ...
static std::vector<uint64_t> g_slot_hits;
static std::unordered_map<std::string, int> g_slot_index;
static void init_slots() {
    for (const char* n : SUPPORT_SLOTS) g_slot_names.push_back(std::string("slot:support.") + n);
    for (const char* n : EXPECTED_SLOTS) g_slot_names.push_back(std::string("slot:expected.") + n);
    for (const char* n : ACTUAL_SLOTS) g_slot_names.push_back(std::string("slot:actual.") + n);
    for (size_t i = 0; i < g_slot_names.size(); i++) g_slot_index[g_slot_names[i]] = (int) i;
    g_slot_hits.assign(g_slot_names.size(), 0);
}
static void hit_slot(const char* literal) {
    static std::unordered_map<const void*, int> cache;
    auto it = cache.find(literal);
    int idx;
    if (it == cache.end()) {
        auto f = g_slot_index.find(std::string("slot:") + literal);
        if (f == g_slot_index.end()) { fprintf(stderr, "harness bug: unknown table slot %s\n", literal); _exit(3); }
        idx = f->second; cache[literal] = idx;
    } else idx = it->second;
    g_slot_hits[idx]++;
}
// every call through a table member is recorded immediately before it is made
#define SUP(m) (hit_slot("support." #m), S->m)
#define EXPC(m) (hit_slot("expected." #m), E->m)
#define ACT(m) (hit_slot("actual." #m), A->m)

// ---------------------------------------------------------------- execution through the C interface
static MockSupport_c* c_entry(const Stmt& st) { return (st.scope == 0 && st.entry == 0) ? mock_c() : mock_scope_c(SCOPE[st.scope]); }

static MockExpectedCall_c* c_exp_param(MockExpectedCall_c* E, const Scenario& sc, const Param& p) {
    const char* n = p.name.c_str();
    if (p.kind == P_OUT_RAW) return EXPC(withOutputParameterReturning)(n, sc.mems[p.mi].data(), sc.mems[p.mi].size());
    if (p.kind == P_OUT_TYPED) return EXPC(withOutputParameterOfTypeReturning)(OT_NAME[p.ot], n, out_src(p.ot, p.oi));
    if (p.kind == P_OUT_UNMODIFIED) return EXPC(withUnmodifiedOutputParameter)(n);
    const Val& v = p.v;
    switch (v.t) {
    case V_BOOL: return EXPC(withBoolParameters)(n, (int) v.u);
    case V_INT: return EXPC(withIntParameters)(n, (int) v.u);
    case V_UINT: return EXPC(withUnsignedIntParameters)(n, (unsigned int) v.u);
    case V_LONG: return EXPC(withLongIntParameters)(n, (long int) v.u);
    case V_ULONG: return EXPC(withUnsignedLongIntParameters)(n, (unsigned long int) v.u);
    case V_LL: return EXPC(withLongLongIntParameters)(n, (long long) v.u);
    case V_ULL: return EXPC(withUnsignedLongLongIntParameters)(n, (unsigned long long) v.u);
    case V_DOUBLE: return v.hasTol ? EXPC(withDoubleParametersAndTolerance)(n, v.d, v.tol) : EXPC(withDoubleParameters)(n, v.d);
    case V_STR: return EXPC(withStringParameters)(n, sc.strs[v.si].c_str());
    case V_PTR: return EXPC(withPointerParameters)(n, ptr_of(v.pi));
    case V_CPTR: return EXPC(withConstPointerParameters)(n, (const void*) ptr_of(v.pi));
    case V_FPTR: return EXPC(withFunctionPointerParameters)(n, fptr_of(v.pi));
    case V_MEM: return EXPC(withMemoryBufferParameter)(n, (const unsigned char*) sc.mems[v.si].data(), sc.mems[v.si].size());
    default: return EXPC(withParameterOfType)(OT_NAME[v.ot], n, obj_of(v.ot, v.pi));
    }
}
static MockExpectedCall_c* c_ret(MockExpectedCall_c* E, const Scenario& sc, const Val& v) {
    switch (v.t) {
    case V_BOOL: return EXPC(andReturnBoolValue)((int) v.u);
    case V_INT: return EXPC(andReturnIntValue)((int) v.u);
    case V_UINT: return EXPC(andReturnUnsignedIntValue)((unsigned int) v.u);
    case V_LONG: return EXPC(andReturnLongIntValue)((long int) v.u);
    case V_ULONG: return EXPC(andReturnUnsignedLongIntValue)((unsigned long int) v.u);
    case V_LL: return EXPC(andReturnLongLongIntValue)((long long) v.u);
    case V_ULL: return EXPC(andReturnUnsignedLongLongIntValue)((unsigned long long) v.u);
    case V_DOUBLE: return EXPC(andReturnDoubleValue)(v.d);
    case V_STR: return EXPC(andReturnStringValue)(sc.strs[v.si].c_str());
    case V_PTR: return EXPC(andReturnPointerValue)(ptr_of(v.pi));
    case V_CPTR: return EXPC(andReturnConstPointerValue)((const void*) ptr_of(v.pi));
    default: return EXPC(andReturnFunctionPointerValue)(fptr_of(v.pi));
    }
}
static MockActualCall_c* c_act_param(MockActualCall_c* A, const Scenario& sc, const Param& p) {
    const char* n = p.name.c_str();
    if (p.kind != P_IN && p.buf < 0) g_null_out_tally[p.kind == P_OUT_TYPED]++;
    if (p.kind == P_OUT_RAW) return ACT(withOutputParameter)(n, out_ptr(p.buf));
    if (p.kind == P_OUT_TYPED) return ACT(withOutputParameterOfType)(OT_NAME[p.ot], n, out_ptr(p.buf));
    const Val& v = p.v;
    switch (v.t) {
    case V_BOOL: return ACT(withBoolParameters)(n, (int) v.u);
    case V_INT: return ACT(withIntParameters)(n, (int) v.u);
    case V_UINT: return ACT(withUnsignedIntParameters)(n, (unsigned int) v.u);
    case V_LONG: return ACT(withLongIntParameters)(n, (long int) v.u);
    case V_ULONG: return ACT(withUnsignedLongIntParameters)(n, (unsigned long int) v.u);
    case V_LL: return ACT(withLongLongIntParameters)(n, (long long) v.u);
    case V_ULL: return ACT(withUnsignedLongLongIntParameters)(n, (unsigned long long) v.u);
    case V_DOUBLE: return ACT(withDoubleParameters)(n, v.d);
    case V_STR: return ACT(withStringParameters)(n, sc.strs[v.si].c_str());
    case V_PTR: return ACT(withPointerParameters)(n, ptr_of(v.pi));
    case V_CPTR: return ACT(withConstPointerParameters)(n, (const void*) ptr_of(v.pi));
    case V_FPTR: return ACT(withFunctionPointerParameters)(n, fptr_of(v.pi));
    case V_MEM: return ACT(withMemoryBufferParameter)(n, (const unsigned char*) sc.mems[v.si].data(), sc.mems[v.si].size());
    default: return ACT(withParameterOfType)(OT_NAME[v.ot], n, obj_of(v.ot, v.pi));
    }
}
// The getter members have the same names in MockActualCall_c and MockSupport_c: one body, two tables.
#define C_GETTERS(CALL) \
    const Val& d = g.def; \
    if (g.kind == G_RETVAL) return fmt_cvalue(CALL(returnValue)()); \
    if (g.kind == G_HAS) return f_i(CALL(hasReturnValue)() != 0 ? 1 : 0); \
    if (g.kind == G_TYPED) switch (g.t) { \
        case V_BOOL: return f_i(CALL(boolReturnValue)() != 0 ? 1 : 0);   /* C booleans are ints: compared by truth value */ \
        case V_INT: return f_i(CALL(intReturnValue)()); \
        case V_UINT: return f_u(CALL(unsignedIntReturnValue)()); \
        case V_LONG: return f_i(CALL(longIntReturnValue)()); \
        case V_ULONG: return f_u(CALL(unsignedLongIntReturnValue)()); \
        case V_LL: return f_i(CALL(longLongIntReturnValue)()); \
        case V_ULL: return f_u(CALL(unsignedLongLongIntReturnValue)()); \
        case V_DOUBLE: return f_d(CALL(doubleReturnValue)()); \
        case V_STR: return f_s(CALL(stringReturnValue)()); \
        case V_PTR: return f_p(CALL(pointerReturnValue)()); \
        case V_CPTR: return f_p(CALL(constPointerReturnValue)()); \
        default: return fptr_name((fptr_t) CALL(functionPointerReturnValue)()); \
    } \
    switch (g.t) { \
    case V_BOOL: return f_i(CALL(returnBoolValueOrDefault)((int) d.u) != 0 ? 1 : 0); \
    case V_INT: return f_i(CALL(returnIntValueOrDefault)((int) d.u)); \
    case V_UINT: return f_u(CALL(returnUnsignedIntValueOrDefault)((unsigned int) d.u)); \
    case V_LONG: return f_i(CALL(returnLongIntValueOrDefault)((long int) d.u)); \
    case V_ULONG: return f_u(CALL(returnUnsignedLongIntValueOrDefault)((unsigned long int) d.u)); \
    case V_LL: return f_i(CALL(returnLongLongIntValueOrDefault)((long long) d.u)); \
    case V_ULL: return f_u(CALL(returnUnsignedLongLongIntValueOrDefault)((unsigned long long) d.u)); \
    case V_DOUBLE: return f_d(CALL(returnDoubleValueOrDefault)(d.d)); \
    case V_STR: return f_s(CALL(returnStringValueOrDefault)(sc.strs[d.si].c_str())); \
    case V_PTR: return f_p(CALL(returnPointerValueOrDefault)(ptr_of(d.pi))); \
    case V_CPTR: return f_p(CALL(returnConstPointerValueOrDefault)((const void*) ptr_of(d.pi))); \
    default: return fptr_name((fptr_t) CALL(returnFunctionPointerValueOrDefault)(fptr_of(d.pi))); \
    }
static std::string c_getter_actual(MockActualCall_c* A, const Scenario& sc, const Getter& g) { C_GETTERS(ACT) }
static std::string c_getter_support(MockSupport_c* S, const Scenario& sc, const Getter& g) { C_GETTERS(SUP) }

static void c_stmt(const Scenario& sc, const Stmt& st, int i) {
    g_executed_kinds.push_back(st.k);
    MockSupport_c* S = c_entry(st);
    switch (st.k) {
    case S_EXPECT: {
        if (st.ecount == -2) { SUP(expectNoCall)(st.fn.c_str()); break; }
        MockExpectedCall_c* E = st.ecount == -1 ? SUP(expectOneCall)(st.fn.c_str()) : SUP(expectNCalls)((unsigned int) st.ecount, st.fn.c_str());
        for (const Param& p : st.ps) E = c_exp_param(E, sc, p);
        if (st.ignoreOtherParams) E = EXPC(ignoreOtherParameters)();
        if (st.hasRet) E = c_ret(E, sc, st.ret);
        break;
    }
    case S_ACTUAL: {
        MockActualCall_c* A = SUP(actualCall)(st.fn.c_str());
        // interludes: the handle A is kept while a support-level operation (possibly of another scope) is issued through mock_c() / mock_scope_c()
        for (const Param& p : st.ps) {
            if (p.il >= 0) { const Stmt& il = sc.ils[p.il]; g_il_tally[il.k][il.scope != st.scope][0]++; c_stmt(sc, il, i); }
            A = c_act_param(A, sc, p);
        }
        for (const Getter& g : st.getters) {
            if (g.il >= 0) { const Stmt& il = sc.ils[g.il]; g_il_tally[il.k][il.scope != st.scope][1]++; c_stmt(sc, il, i); }
            std::string lbl = getter_label(g);
            std::string v = g.level == L_ACTUAL ? c_getter_actual(A, sc, g) : c_getter_support(c_entry(st), sc, g);
            if (g.foreign && g.kind == G_HAS) g_x->unjudged_has.push_back(v); else logev(i, "get", lbl, v);
        }
        log_outs_of(i, st);
        break;
    }
    case S_STRICT: SUP(strictOrder)(); break;
    case S_IGNORE_OTHERS: SUP(ignoreOtherCalls)(); break;
    case S_DISABLE: SUP(disable)(); break;
    case S_ENABLE: SUP(enable)(); break;
    case S_SETDATA: {
        const char* n = st.fn.c_str(); const Val& v = st.dval;
        switch (v.t) {
        case V_BOOL: SUP(setBoolData)(n, (int) v.u); break;
        case V_INT: SUP(setIntData)(n, (int) v.u); break;
        case V_UINT: SUP(setUnsignedIntData)(n, (unsigned int) v.u); break;
        case V_DOUBLE: SUP(setDoubleData)(n, v.d); break;
        case V_STR: SUP(setStringData)(n, sc.strs[v.si].c_str()); break;
        case V_PTR: SUP(setPointerData)(n, ptr_of(v.pi)); break;
        case V_CPTR: SUP(setConstPointerData)(n, (const void*) ptr_of(v.pi)); break;
        case V_FPTR: SUP(setFunctionPointerData)(n, fptr_of(v.pi)); break;
        default: if (st.dconst) SUP(setDataConstObject)(n, OT_NAME[v.ot], obj_of(v.ot, v.pi)); else SUP(setDataObject)(n, OT_NAME[v.ot], (void*) obj_of(v.ot, v.pi)); break;
        }
        break;
    }
    case S_GETDATA: logev(i, "data", st.fn, fmt_cvalue(SUP(getData)(st.fn.c_str()))); break;
    case S_CHECK: SUP(checkExpectations)(); break;
    case S_CLEAR: SUP(clear)(); break;
    case S_LEFT: logev(i, "left", SCOPE[st.scope], f_i(SUP(expectedCallsLeft)() != 0 ? 1 : 0)); break;
    case S_INSTALL_CMP: SUP(installComparator)(OT_NAME[st.ot], EQ[st.ot][st.fm], STR[st.ot]); break;
    case S_INSTALL_CPY: SUP(installCopier)(OT_NAME[st.ot], CPY[st.fm]); break;
    case S_REMOVE_ALL: SUP(removeAllComparatorsAndCopiers)(); break;
    case S_CRASH: if (st.crash) SUP(crashOnFailure)(1); if (st.crash != 2) { S = c_entry(st); SUP(crashOnFailure)(0); } break;
    }
}
static void body_c() {
    const Scenario& sc = *g_sc;
    for (size_t i = 0; i < sc.stmts.size(); i++) { g_cur_stmt = (int) i; c_stmt(sc, sc.stmts[i], (int) i); logev((int) i, "done", "", ""); }
    g_x->bodyDone = true;
}
static void teardown_c() {
    int T = (int) g_sc->stmts.size(); g_cur_stmt = T;
    MockSupport_c* S = mock_c();
    logev(T, "left", "teardown", f_i(SUP(expectedCallsLeft)() != 0 ? 1 : 0));
    for (int b = 0; b < OUT_BUFS; b++) logev(T, "out", "final-buf" + std::to_string(b), out_hex(b));
    S = mock_c();
    SUP(checkExpectations)();
    logev(T, "done", "", "");
    g_x->tearDone = true;
}

// ---------------------------------------------------------------- running one execution and comparing two
static std::string mask_summary(const char* text) {
    // the summary line carries the check counter (not compared, DESIGN.md section 5) and milliseconds
    std::string in = text, out;
    size_t pos = 0;
    while (pos <= in.size()) {
        size_t nl = in.find('\n', pos);
        std::string line = in.substr(pos, nl == std::string::npos ? std::string::npos : nl - pos);
        if (line.compare(0, 8, "Errors (") == 0 || line.compare(0, 4, "OK (") == 0) {
            for (const char* unit : { " checks", " ms" }) {
                size_t u = line.find(unit);
                if (u != std::string::npos) { size_t b = u; while (b > 0 && isdigit((unsigned char) line[b - 1])) b--; line.replace(b, u - b, "#"); }
            }
        }
        out += line;
        if (nl == std::string::npos) break;
        out += '\n'; pos = nl + 1;
    }
    return out;
}

static Exec run_exec(const Scenario& sc, bool viaC) {
    Exec x;
    memset(g_out, 0xEE, sizeof g_out);
    g_sc = &sc; g_x = &x; g_viaC = viaC;
    UtestShell::setCrashMethod(counting_crash_method);
    {
        TestTestingFixture fx;
        fx.setTestFunction(viaC ? body_c : body_cpp);
        fx.setTeardown(viaC ? teardown_c : teardown_cpp);
        fx.runAllTests();
        x.failures = fx.getFailureCount();
        x.text = mask_summary(fx.getOutput().asCharString());
    }
    UtestShell::resetCrashMethod();
    int P = (int) sc.stmts.size() + 1; g_cur_stmt = P;
    // crashOnFailure may have been left on: switch it off on both reporters (the C interface's and the C++ one's)
    { MockSupport_c* S = mock_c(); SUP(crashOnFailure)(0); mock("").crashOnFailure(false); }
    // clean up through the same interface, outside any test (what a C / C++ teardown would do)
    if (viaC) { MockSupport_c* S = mock_c(); SUP(clear)(); S = mock_c(); SUP(removeAllComparatorsAndCopiers)(); }
    else { mock("").clear(); mock("").removeAllComparatorsAndCopiers(); }
    // ... and look at the result through the C++ interface in both cases
    logev(P, "left", "after-clear", f_i(mock("").expectedCallsLeft() ? 1 : 0));
    logev(P, "data", "after-clear", fmt_named(mock("").getData("d0")));
    mock("").clear(); mock("").removeAllComparatorsAndCopiers();
    g_sc = nullptr; g_x = nullptr; g_viaC = false;
    return x;
}

static std::string sanitize(const std::string& s, size_t maxlen = 40) {
    std::string o; bool lastdash = false;
    for (char ch : s) {
        char c = (char) tolower((unsigned char) ch);
        if (isdigit((unsigned char) c)) { if (o.empty() || o.back() != 'N') o += 'N'; lastdash = false; }
        else if (isalpha((unsigned char) c) || c == '*' || c == '(' || c == ')' || c == '_') { o += c; lastdash = false; }
        else if (!lastdash && !o.empty()) { o += '-'; lastdash = true; }
        if (o.size() >= maxlen) break;
    }
    while (!o.empty() && o.back() == '-') o.pop_back();
    return o.empty() ? "empty" : o;
}
// class of the (first) failure in a test output
static std::string msgclass(const Exec& x) {
    if (x.failures == 0) return "pass";
    size_t p = x.text.find("Mock Failure: "); size_t skip = 14;
    if (p == std::string::npos) { p = x.text.find("MockFailure: "); skip = 13; }
    if (p != std::string::npos) {
        std::string m = x.text.substr(p + skip, 90);
        size_t e = m.find_first_of(":\"<\n.");
        if (e != std::string::npos) m = m.substr(0, e);
        size_t a = m.find('('), b = m.find(')');
        if (a != std::string::npos && b != std::string::npos && b > a) m.erase(a, b - a + 1);
        return sanitize(m, 60);
    }
    if (x.text.find("MockNamedValue.cpp") != std::string::npos) return "getter-type-mismatch";
    return "other-failure";
}
static bool is_intlike_name(const std::string& n) { for (int t = V_INT; t <= V_ULL; t++) if (n == VT_NAME[t]) return true; return false; }
static std::string ev_str(const Ev& e) { return "[stmt " + std::to_string(e.stmt) + " " + e.kind + " " + e.label + " = " + e.value + "]"; }
static std::string stmt_class(const Scenario& sc, int i) {
    if (i < 0) return "none";
    if (i == (int) sc.stmts.size()) return "teardown";
    if (i > (int) sc.stmts.size()) return "after-clear";
    const Stmt& st = sc.stmts[i];
    if (st.k == S_SETDATA) return std::string("setData.") + VT_NAME[st.dval.t] + (st.dval.t == V_OBJ && st.dconst ? "-const" : "");
    return SK_NAME[st.k];
}

// returns true when a divergence was reported
static bool compare_execs(vf::Ctx& c, const Scenario& sc, const Exec& cpp, const Exec& cc) {
    std::string key, detail;
    size_t n = std::min(cpp.ev.size(), cc.ev.size()), k = 0;
    while (k < n && cpp.ev[k].stmt == cc.ev[k].stmt && cpp.ev[k].kind == cc.ev[k].kind && cpp.ev[k].label == cc.ev[k].label && cpp.ev[k].value == cc.ev[k].value) k++;
    bool same_events = k == cpp.ev.size() && k == cc.ev.size();
    if (!same_events && k < n && cpp.ev[k].stmt == cc.ev[k].stmt && cpp.ev[k].kind == cc.ev[k].kind && cpp.ev[k].label == cc.ev[k].label) {
        // the same observation was made by both executions and its value differs
        const Ev& a = cpp.ev[k]; const Ev& b = cc.ev[k];
        std::string sk = stmt_class(sc, a.stmt);
        if (a.kind == "get") {
            const Stmt& st = sc.stmts[a.stmt];
            std::string rt = st.hasRet ? VT_NAME[st.ret.t] : "unknown";
            // the expectation that supplied the value: look it up for the key (first expectation of that name with a return value)
            if (!st.hasRet) for (const Stmt& e : sc.stmts) if (e.k == S_EXPECT && e.fn == st.fn && e.scope == st.scope) { rt = e.hasRet ? VT_NAME[e.ret.t] : "none"; break; }
            bool tagdiff = a.value.compare(0, 4, "tag=") == 0 && a.value.substr(0, a.value.find(' ')) != b.value.substr(0, b.value.find(' '));
            // read through a kept handle while another scope is selected: which call was read is the question, not how its value was converted
            bool kept = a.label.find(":other-scope-selected") != std::string::npos;
            key = std::string(tagdiff ? "returned-tag:" : "returned-value:") + a.label + (kept ? "" : ":ret=" + rt);
        } else if (a.kind == "out") {
            key = "output-bytes:" + sk;
            if (a.stmt < (int) sc.stmts.size()) for (const Param& p : sc.stmts[a.stmt].ps) if (p.kind != P_IN && "buf" + std::to_string(p.buf) == a.label) { key += p.kind == P_OUT_TYPED ? ":typed" : ":raw"; break; }
        } else if (a.kind == "data") {
            std::string setter = "unset";
            for (int j = a.stmt - 1; j >= 0 && a.stmt < (int) sc.stmts.size(); j--) if (sc.stmts[j].k == S_SETDATA && sc.stmts[j].fn == a.label && sc.stmts[j].scope == sc.stmts[a.stmt].scope) { setter = stmt_class(sc, j); break; }
            bool tagdiff = a.value.substr(0, a.value.find(' ')) != b.value.substr(0, b.value.find(' '));
            key = std::string(tagdiff ? "data-tag:" : "data-value:") + (a.stmt > (int) sc.stmts.size() ? "after-clear" : setter);
        } else if (a.kind == "left") key = "expected-calls-left:" + sk;
        else key = "observation:" + a.kind + ":" + sk;
        detail = "C++ " + ev_str(a) + " vs C " + ev_str(b);
    } else if (!same_events || cpp.failures != cc.failures) {
        // control flow differs: one execution left a statement (a failure jumps to the teardown) where the other went on
        std::string mc = msgclass(cc), mp = msgclass(cpp);
        int stP = k < cpp.ev.size() ? cpp.ev[k].stmt : INT_MAX, stC = k < cc.ev.size() ? cc.ev[k].stmt : INT_MAX;
        const Exec* first = same_events ? nullptr : stP > stC ? &cpp : stC > stP ? &cc : nullptr;      // the one that jumped ahead
        // statement in progress at the end of the common prefix
        int at = same_events ? -1 : k == 0 ? 0 : (cpp.ev[k - 1].kind == "done" ? cpp.ev[k - 1].stmt + 1 : cpp.ev[k - 1].stmt);
        std::string where = stmt_class(sc, at);
        if (first && at >= 0 && at < (int) sc.stmts.size() && sc.stmts[at].k == S_ACTUAL && msgclass(*first) == "getter-type-mismatch") {
            const Stmt& st = sc.stmts[at];
            size_t done_getters = 0;
            for (size_t j = 0; j < k; j++) if (cpp.ev[j].stmt == at && cpp.ev[j].kind == "get") done_getters++;
            if (done_getters < st.getters.size()) where += ":" + getter_label(st.getters[done_getters]);
        }
        if (first && first->failures) key = std::string("verdict:") + (first == &cc ? "c" : "cpp") + "-fails-first:" + msgclass(*first) + ":at=" + where;
        else if (cpp.failures != cc.failures) key = "verdict:failure-count:" + mp + "~" + mc + ":at=" + where;
        else key = "control-flow:" + mp + "~" + mc + ":at=" + where;
        // one execution invoked the crash method (crashOnFailure was left on) where the other did not
        {
            bool crP = k < cpp.ev.size() && cpp.ev[k].kind == "crash-method", crC = k < cc.ev.size() && cc.ev[k].kind == "crash-method";
            if (crP != crC) key = std::string("crash-method:invoked-only-by-") + (crP ? "cpp" : "c") + ":crashOnFailure-left-on:at=" + where;
        }
        // the repaired defect D19 has exactly this shape: its enumerated table gets the short key family (random scenarios keep the generic key,
        // an ignore/disable statement somewhere in a scenario does not prove that this call was the ignored one)
        const std::string d19 = "verdict:cpp-fails-first:getter-type-mismatch:at=actual:support.typed.";
        if (sc.key_override == "support-getter-after-ignored-call:" && key.compare(0, d19.size(), d19) == 0 && !is_intlike_name(key.substr(d19.size()))) key = "support-getter-after-ignored-call:typed." + key.substr(d19.size());
        detail = "C++: failures=" + std::to_string(cpp.failures) + " class=" + mp + " events=" + std::to_string(cpp.ev.size()) + "; C: failures=" + std::to_string(cc.failures) + " class=" + mc + " events=" + std::to_string(cc.ev.size());
        if (k < cpp.ev.size()) detail += "; next C++ event " + ev_str(cpp.ev[k]);
        if (k < cc.ev.size()) detail += "; next C event " + ev_str(cc.ev[k]);
        detail += "\n--- C++ output ---\n" + cpp.text + "\n--- C output ---\n" + cc.text;
    } else if (cpp.text != cc.text) {
        // same verdict, same observations, different text: name the first differing token pair
        std::string mp = msgclass(cpp);
        size_t i = 0; while (i < cpp.text.size() && i < cc.text.size() && cpp.text[i] == cc.text[i]) i++;
        auto token_at = [](const std::string& t, size_t i) {
            size_t b = i; while (b > 0 && !isspace((unsigned char) t[b - 1])) b--;
            size_t e = i; while (e < t.size() && !isspace((unsigned char) t[e])) e++;
            return t.substr(b, e - b);
        };
        // a type name in front of the token ("long int a: <5>") is more telling than the value
        auto line_at = [](const std::string& t, size_t i) {
            size_t b = t.rfind('\n', i ? i - 1 : 0); b = b == std::string::npos ? 0 : b + 1;
            size_t e = t.find('\n', i); return t.substr(b, e == std::string::npos ? std::string::npos : e - b);
        };
        std::string tp = token_at(cpp.text, i), tc = token_at(cc.text, i);
        auto is_type_word = [](const std::string& t) {
            static const char* W[] = { "bool", "int", "unsigned", "long", "double", "const", "char*", "void*", "void", "(*)()", "TypeA", "double_t", "int32_t" };
            for (const char* w : W) if (t == w) return true;
            return false;
        };
        auto is_value = [](const std::string& t) { for (char ch : t) if (isdigit((unsigned char) ch)) return true; return false; };
        if (mp == "getter-type-mismatch" && msgclass(cc) == mp) key = "failure-text:getter-type-mismatch";        // another getter's check failed
        else if (is_type_word(tp) && is_type_word(tc)) key = "failure-text:type:" + sanitize(tp, 12) + "~" + sanitize(tc, 12);
        else if (is_value(tp) && is_value(tc)) key = "failure-text:value";
        else key = "failure-text:wording";
        detail = "C++ token <" + token_at(cpp.text, i) + "> C token <" + token_at(cc.text, i) + ">\nC++ line: " + line_at(cpp.text, i) + "\nC   line: " + line_at(cc.text, i);
    } else if (cpp.bodyDone != cc.bodyDone || cpp.tearDone != cc.tearDone) {
        key = "control-flow:completion-flags"; detail = "body/teardown completion differs with equal logs";
    } else return false;
    if (!sc.key_override.empty() && key.compare(0, sc.key_override.size(), sc.key_override) != 0) key = sc.key_override + key;
    c.violation(key, detail);
    return true;
}

static void run_scenario(vf::Ctx& c, const Scenario& sc) {
    c.begin([&sc] { return scenario_json(sc); });
    g_executed_kinds.clear();
    Exec cpp = run_exec(sc, false);
    Exec cc = run_exec(sc, true);
    bool diverged = compare_execs(c, sc, cpp, cc);
    { unsigned long np = 0, nc = 0; for (const Ev& e : cpp.ev) if (e.kind == "crash-method") np++; for (const Ev& e : cc.ev) if (e.kind == "crash-method") nc++;
      if (np) c.count("crash_method_invocations_with_crashOnFailure_left_on:cpp", np); if (nc) c.count("crash_method_invocations_with_crashOnFailure_left_on:c", nc);
      if (np && nc) { bool scoped = false; for (const Stmt& st : sc.stmts) if (st.k == S_CRASH && st.crash == 2 && st.scope != 0) scoped = true; if (scoped) c.count("scenarios_with_crash_method_invoked_by_both_after_crashOnFailure_through_a_scope"); } }
    // evidence
    static bool first = true;
    if (first) { first = false; for (const std::string& n : g_slot_names) c.count(n, 0); }
    for (size_t i = 0; i < g_slot_hits.size(); i++) if (g_slot_hits[i]) { c.count(g_slot_names[i], g_slot_hits[i]); g_slot_hits[i] = 0; }
    for (int k : g_executed_kinds) c.count(std::string("stmt_executed:") + SK_NAME[k]);
    // calls that reached the user's C equality / copy functions through the adaptors (C execution), by family member and argument relationship
    for (int m = 0; m < CM_N; m++) for (int same = 0; same < 2; same++) for (int eq = 0; eq < 2; eq++) if (g_cmp_tally[m][same][eq]) {
        c.count(std::string("c_equal_fn_call:") + CM_NAME[m] + (same ? ":same-object" : ":distinct-objects") + (eq ? ":equal" : ":unequal"), g_cmp_tally[m][same][eq]);
        if (same && !eq) c.count("c_equal_fn_same_object_judged_unequal", g_cmp_tally[m][same][eq]);
        if (!same && eq) c.count("c_equal_fn_distinct_objects_judged_equal", g_cmp_tally[m][same][eq]);
        g_cmp_tally[m][same][eq] = 0;
    }
    for (int m = 0; m < CP_N; m++) for (int same = 0; same < 2; same++) if (g_cpy_tally[m][same]) {
        c.count(std::string("c_copy_fn_call:") + CP_NAME[m] + (same ? ":dst-is-src" : ":dst-differs"), g_cpy_tally[m][same]);
        g_cpy_tally[m][same] = 0;
    }
    for (int m = 0; m < CP_N; m++) if (g_cpy_null_tally[m]) { c.count(std::string("c_copy_fn_call:") + CP_NAME[m] + ":dst-null", g_cpy_null_tally[m]); g_cpy_null_tally[m] = 0; }
    // NULL passed as the actual output pointer (C execution), and what became of the scenarios that do so
    bool nullout = g_null_out_tally[0] || g_null_out_tally[1];
    for (int ty = 0; ty < 2; ty++) if (g_null_out_tally[ty]) { c.count(ty ? "actual_output_pointer_null:typed" : "actual_output_pointer_null:raw", g_null_out_tally[ty]); g_null_out_tally[ty] = 0; }
    if (nullout) c.count(diverged ? "null_output_pointer_pairs:diverged" : cpp.failures ? "null_output_pointer_pairs:agree_failing" : "null_output_pointer_pairs:agree_passing");
    // kept handles: support-level operations issued inside an actual-call chain (C execution), and what was read through the handle afterwards
    for (int k = 0; k < S_KINDS; k++) for (int other = 0; other < 2; other++) for (int pos = 0; pos < 2; pos++) if (g_il_tally[k][other][pos]) {
        c.count(std::string("handle_kept_across:") + SK_NAME[k] + (other ? ":other-scope" : ":own-scope") + (pos ? ":before-getter" : ":before-parameter"), g_il_tally[k][other][pos]);
        g_il_tally[k][other][pos] = 0;
    }
    if (!diverged) for (const Ev& e : cpp.ev) if (e.kind == "get" && e.label.find(":other-scope-selected") != std::string::npos) {
        c.count("kept_handle_getters_judged_after_other_scope_selected");
        if (e.label.compare(0, 18, "actual.returnValue") == 0) c.count(e.value == "tag=INTEGER val=0" ? "kept_handle_returnValue_judged:empty-value" : "kept_handle_returnValue_judged:call-with-return-value");
        else c.count(e.value == "0" ? "kept_handle_typed_getter_judged:zero" : "kept_handle_typed_getter_judged:non-zero");
    }
    for (size_t j = 0; j < cpp.unjudged_has.size() && j < cc.unjudged_has.size(); j++)
        c.count(cpp.unjudged_has[j] == cc.unjudged_has[j] ? "unjudged:kept_handle_hasReturnValue_after_other_scope_selected:c-agrees" : "unjudged:kept_handle_hasReturnValue_after_other_scope_selected:c-differs");
    c.count("execution_pairs");
    c.count(diverged ? "pairs_diverged" : cpp.failures ? "pairs_agree_failing" : "pairs_agree_passing");
    c.count("verdict_class:" + msgclass(cpp));
    for (const Ev& e : cpp.ev) { if (e.kind == "get") c.count("getter_observed:" + e.label); else if (e.kind == "out" && e.stmt < (int) sc.stmts.size()) c.count("output_buffers_compared"); else if (e.kind == "data") c.count("data_readbacks_compared"); }
    // non-trivial: a value outside int range, an output parameter, or a failing verdict
    bool big = false, outp = false;
    for (const Stmt& st : sc.stmts) {
        for (const Param& p : st.ps) { if (p.kind != P_IN) outp = true; else if (outside_int(p.v)) big = true; }
        if (st.hasRet && outside_int(st.ret)) big = true;
        for (const Getter& g : st.getters) if (g.kind == G_ORDEFAULT && outside_int(g.def)) big = true;
        if (st.k == S_SETDATA && outside_int(st.dval)) big = true;
    }
    if (big) c.count("scenarios_with_value_outside_int");
    if (outp) c.count("scenarios_with_output_parameter");
    if (sc.ignoredPossible) c.count("scenarios_with_ignore_or_disable");
    if (big || outp || cpp.failures) c.nontrivial(scenario_json(sc));
}

// ---------------------------------------------------------------- generators
static const char* STRPOOL[] = { "", "abc", "abd", "hello world", "x\ty", "caf\xc3\xa9", "\x80\xff", "line1\nline2",
    "a much longer string value that does not fit in any small buffer ........................................................................ end" };
static const double DPOOL[] = { 0.0, -0.0, 1.0, 1.004, 1.006, 1.0 + DBL_EPSILON, -1.5, 3.14159, 1e300, 1e-300, DBL_MAX, std::numeric_limits<double>::infinity(), -std::numeric_limits<double>::infinity(), std::numeric_limits<double>::quiet_NaN() };
static const double TPOOL[] = { 0.0, 1e-9, 0.005, 0.01, 1.0, std::numeric_limits<double>::infinity(), std::numeric_limits<double>::quiet_NaN() };
static const char* FNAMES[] = { "f", "g", "h" };
static const char* PNAMES[] = { "a", "b", "c" };
static const char* ONAMES[] = { "o", "p" };
static const char* DNAMES[] = { "d0", "d1" };

static uint64_t canon(int t, uint64_t raw) { return (uint64_t) ival(t, raw); }
static uint64_t gen_int(vf::Rng& r, int t) {
    if (t == V_BOOL) return LAT[V_BOOL][r.below(LAT[V_BOOL].size())];
    int k = (int) r.below(100);
    if (k < 45) return r.pick(LAT[t]);
    if (k < 78) { i128 v = r.range(-3, 100); if (v < tmin(t)) v = -v; return (uint64_t) v; }
    uint64_t raw = r.next();
    switch (r.below(3)) { case 0: raw >>= r.below(64); break; case 1: raw = (1ull << r.below(64)) + (uint64_t) (int64_t) r.range(-3, 3); break; default: break; }
    return canon(t, raw);
}
static int add_str(Scenario& sc, const std::string& s) { sc.strs.push_back(s); return (int) sc.strs.size() - 1; }
static int add_mem(Scenario& sc, const std::string& s) { sc.mems.push_back(s); return (int) sc.mems.size() - 1; }
static std::string gen_bytes(vf::Rng& r, size_t maxlen) {
    std::string b; size_t n = r.below(maxlen + 1);
    static const unsigned char AL[] = { 0x00, 0x01, 0x7f, 0x80, 0xff, 'a', 0xEE };
    for (size_t i = 0; i < n; i++) b += (char) (r.chance(70) ? AL[r.below(sizeof AL)] : (unsigned char) r.below(256));
    return b;
}
static Val gen_val(vf::Rng& r, Scenario& sc, int t) {
    Val v; v.t = t;
    switch (t) {
    case V_DOUBLE: v.d = r.chance(75) ? DPOOL[r.below(sizeof DPOOL / sizeof DPOOL[0])] : (double) r.range(-1000, 1000) / 8.0; break;
    case V_STR: v.si = add_str(sc, STRPOOL[r.below(sizeof STRPOOL / sizeof STRPOOL[0])]); break;
    case V_PTR: case V_CPTR: v.pi = r.chance(12) ? -1 : (int) r.below(4); break;
    case V_FPTR: v.pi = r.chance(12) ? -1 : (int) r.below(3); break;
    case V_MEM: v.si = add_mem(sc, gen_bytes(r, 8)); break;
    case V_OBJ: v.ot = r.chance(8) ? OT_U : (int) r.below(2); v.pi = (int) r.below(4); break;
    default: v.u = gen_int(r, t); break;
    }
    return v;
}
static int gen_param_type(vf::Rng& r, bool useObjs, int objShare = 0) {
    if (useObjs && objShare && r.chance(objShare)) return V_OBJ;
    int k = (int) r.below(100);
    if (k < 52) return V_INT + (int) r.below(6);
    if (k < 58) return V_BOOL;
    if (k < 66) return V_DOUBLE;
    if (k < 76) return V_STR;
    if (k < 80) return V_PTR;
    if (k < 83) return V_CPTR;
    if (k < 86) return V_FPTR;
    if (k < 91) return V_MEM;
    return useObjs ? V_OBJ : V_INT + (int) r.below(6);
}
static int gen_ret_type(vf::Rng& r) { int k = (int) r.below(100); return k < 60 ? V_INT + (int) r.below(6) : k < 68 ? V_BOOL : k < 76 ? V_DOUBLE : k < 86 ? V_STR : V_PTR + (int) r.below(3); }

// a different value of the same type (wrap candidates first: same low 32 bits, different number)
static Val neighbour(vf::Rng& r, Scenario& sc, const Val& v) {
    Val w = v;
    switch (v.t) {
    case V_BOOL: w.u = ((int) v.u != 0) ? 0 : 1; break;
    case V_DOUBLE: w.d = (std::isnan(v.d) || std::isinf(v.d)) ? 0.0 : v.d + (r.chance(50) ? 1.0 : 0.004); break;
    case V_STR: w.si = add_str(sc, sc.strs[v.si] + "x"); break;
    case V_PTR: case V_CPTR: w.pi = v.pi < 0 ? 0 : (v.pi + 1) & 3; break;
    case V_FPTR: w.pi = v.pi < 0 ? 0 : (v.pi + 1) % 3; break;
    case V_MEM: { std::string b = sc.mems[v.si]; if (b.empty() || r.chance(30)) b += (char) 0x55; else b[r.below(b.size())] ^= 0x01; w.si = add_mem(sc, b); break; }
    case V_OBJ: w.pi = (v.pi & 3) == 2 ? 0 : 2; break;   // objects 0/1 equal content, 2 differs
    default: {
        uint64_t u = v.u;
        int k = (int) r.below(3);
        uint64_t cand = k == 0 ? u + 1 : k == 1 ? (u ^ (1ull << 32)) : (uint64_t) (-(int64_t) u);
        cand = canon(v.t, cand);
        if (cand == canon(v.t, u)) cand = canon(v.t, u ^ 1);
        w.u = cand; break;
    }
    }
    return w;
}
// the same number in another integer type, when representable
static Val retype(vf::Rng& r, const Val& v) {
    if (!is_intlike(v.t)) return v;
    i128 x = ival(v.t, v.u);
    for (int tries = 0; tries < 4; tries++) { int t = V_INT + (int) r.below(6); if (t != v.t && x >= tmin(t) && x <= tmax(t)) { Val w = v; w.t = t; w.u = (uint64_t) x; return w; } }
    return v;
}

struct Plan { int scope; std::string fn; std::vector<Param> ps; bool ignoreOther; bool hasRet; Val ret; int ecount; };

static Getter gen_getter(vf::Rng& r, Scenario& sc, const Plan* pl) {
    Getter g;
    g.level = r.chance(40) ? L_SUPPORT : L_ACTUAL;
    int k = (int) r.below(100);
    g.kind = k < 25 ? G_RETVAL : k < 33 ? G_HAS : k < 68 ? G_TYPED : G_ORDEFAULT;
    bool hasRet = pl && pl->hasRet;
    int k2 = (int) r.below(100);
    if (hasRet && k2 < 62) g.t = pl->ret.t;
    else if (hasRet && k2 < 85 && is_intlike(pl->ret.t)) g.t = V_INT + (int) r.below(6);
    else if (!hasRet && k2 < 70) g.t = V_INT + (int) r.below(6);     // a call without return value reads back as int 0
    else g.t = (int) r.below(N_GETTER_TYPES);
    g.def = gen_val(r, sc, g.t);
    if (g.t == V_STR && r.chance(50)) g.def.si = add_str(sc, "dflt");
    return g;
}

static Stmt mk(int k, int scope, vf::Rng* r = nullptr) { Stmt s; s.k = k; s.scope = scope; s.entry = (r && scope == 0 && r->chance(30)) ? 1 : 0; return s; }

static Stmt expect_of(const Plan& pl, vf::Rng& r) {
    Stmt s = mk(S_EXPECT, pl.scope, &r); s.fn = pl.fn; s.ecount = pl.ecount; s.ps = pl.ps; s.ignoreOtherParams = pl.ignoreOther; s.hasRet = pl.hasRet; s.ret = pl.ret;
    if (pl.ecount == -2) { s.ps.clear(); s.ignoreOtherParams = false; s.hasRet = false; }
    return s;
}
// Derives, link by link, which scope is the selected one when an actual-level getter is issued: an interlude selects its own scope, a
// support-level getter re-selects the call's. In the "foreign" state only the getters that the C facade reads through the chained call
// are judged (returnValue, the typed getters): ...OrDefault is replaced by the typed getter, hasReturnValue by returnValue - except in the
// enumerated table, whose calls are all fulfilled (hasReturnValue() of an unfulfilled call fails the test in C++), where it is observed unjudged.
static void finish_chain(Stmt& s, const Scenario& sc, bool keepUnjudgedHas = false) {
    bool foreign = false;
    for (const Param& p : s.ps) if (p.il >= 0) foreign = sc.ils[p.il].scope != s.scope;
    for (Getter& g : s.getters) {
        if (g.il >= 0) foreign = sc.ils[g.il].scope != s.scope;
        if (g.level == L_SUPPORT) foreign = false;
        g.foreign = foreign;
        if (g.foreign && g.kind == G_ORDEFAULT) g.kind = G_TYPED;
        if (g.foreign && g.kind == G_HAS && !keepUnjudgedHas) g.kind = G_RETVAL;
    }
}
static int add_interlude(Scenario& sc, const Stmt& il) { sc.ils.push_back(il); return (int) sc.ils.size() - 1; }
static int gen_interlude(vf::Rng& r, Scenario& sc, int ownScope) {
    int k = (int) r.below(100);
    int scope = r.chance(78) ? (ownScope + 1 + (int) r.below(2)) % 3 : (int) r.below(3);
    Stmt s = mk(k < 55 ? S_GETDATA : k < 75 ? S_SETDATA : S_LEFT, scope, &r);
    if (s.k != S_LEFT) s.fn = DNAMES[r.below(2)];
    if (s.k == S_SETDATA) {
        static const int DT[] = { V_BOOL, V_INT, V_UINT, V_DOUBLE, V_STR, V_PTR, V_CPTR, V_FPTR, V_OBJ };
        s.dval = gen_val(r, sc, DT[r.below(9)]); s.dconst = r.chance(50);
    }
    return add_interlude(sc, s);
}
static Stmt actual_of(const Plan& pl, vf::Rng& r, Scenario& sc, bool mutate) {
    Stmt s = mk(S_ACTUAL, pl.scope, &r); s.fn = pl.fn;
    for (const Param& e : pl.ps) {
        Param a = e;
        if (e.kind == P_IN) {
            if (r.chance(28)) a.v = retype(r, a.v);
            if (a.v.t == V_DOUBLE) a.v.hasTol = false;
            // by default the actual call hands over the very object of the expectation; sometimes its twin (#0/#1 equal content, #2/#3 not)
            if (a.v.t == V_OBJ && r.chance(30)) a.v.pi = (a.v.pi & 3) ^ 1;
        }
        else if (e.kind == P_OUT_UNMODIFIED) a.kind = P_OUT_RAW;
        a.buf = (int) r.below(OUT_BUFS);
        if (e.kind == P_OUT_TYPED && e.oi < 0 && r.chance(60)) a.buf = (-1 - e.oi) % OUT_BUFS;      // receive into the object that is being returned
        s.ps.push_back(a);
    }
    if (r.chance(12) && s.ps.size() > 1) std::swap(s.ps[0], s.ps[s.ps.size() - 1]);
    if (pl.ignoreOther && r.chance(50)) { Param x; x.kind = P_IN; x.name = "z"; x.v = gen_val(r, sc, gen_param_type(r, false)); s.ps.push_back(x); }
    if (mutate) {
        int m = (int) r.below(7);
        if (s.ps.empty() && m < 3) m = 3 + (int) r.below(4);
        switch (m) {
        case 0: { Param& p = s.ps[r.below(s.ps.size())]; if (p.kind == P_IN) p.v = neighbour(r, sc, p.v); else { p.kind = p.kind == P_OUT_RAW ? P_OUT_TYPED : P_OUT_RAW; p.ot = (int) r.below(2); } break; }
        case 1: s.ps.erase(s.ps.begin() + (long) r.below(s.ps.size())); break;
        case 2: s.ps[r.below(s.ps.size())].name = "y"; break;
        case 3: { Param x; x.kind = r.chance(80) ? P_IN : P_OUT_RAW; x.name = "z"; x.v = gen_val(r, sc, gen_param_type(r, false)); x.buf = (int) r.below(OUT_BUFS); s.ps.push_back(x); break; }
        case 4: s.fn = "q"; break;
        case 5: if (!s.ps.empty()) { Param& p = s.ps[r.below(s.ps.size())]; if (p.kind == P_IN) { int t = gen_param_type(r, false); p.v = gen_val(r, sc, t); } } else s.fn = "q"; break;
        default: s.scope = (pl.scope + 1) % 3; break;
        }
    }
    int ng = (int) r.below(100); ng = ng < 25 ? 0 : ng < 72 ? 1 : ng < 94 ? 2 : 3;
    for (int i = 0; i < ng; i++) s.getters.push_back(gen_getter(r, sc, &pl));
    if (r.chance(22)) {
        // the mocked function keeps its handle and consults the data store / expectedCallsLeft (mostly of another scope) in mid-chain
        if (s.getters.empty()) s.getters.push_back(gen_getter(r, sc, &pl));
        for (Param& p : s.ps) if (r.chance(15)) p.il = gen_interlude(r, sc, s.scope);
        bool any = false;
        for (Getter& g : s.getters) if (r.chance(60)) { g.il = gen_interlude(r, sc, s.scope); any = true; }
        if (!any) s.getters[0].il = gen_interlude(r, sc, s.scope);
    }
    finish_chain(s, sc);
    return s;
}

// focusObjs: the custom-type variant of the generator - comparators / copiers are always in play, object parameters and typed outputs dominate
static void gen_random(vf::Rng& r, Scenario& sc, bool thorough, bool focusObjs = false) {
    bool usesIgnore = r.chance(22);
    sc.ignoredPossible = usesIgnore;
    bool useObjs = focusObjs || r.chance(35);
    int objShare = focusObjs ? 50 : 12;
    int mainScope = (int) r.below(3);
    auto pickScope = [&] { return r.chance(75) ? mainScope : (int) r.below(3); };
    int failBias = (int) r.below(100);                   // ~45 % of the scenarios carry no deliberate mutation
    int pmut = failBias < 45 ? 0 : failBias < 80 ? 15 : 40;
    std::vector<Stmt>& S = sc.stmts;

    if (r.chance(9)) { Stmt s = mk(S_CRASH, pickScope(), &r); s.crash = r.chance(35) ? 0 : r.chance(50) ? 1 : 2; S.push_back(s); }
    if (r.chance(4)) S.push_back(mk(S_REMOVE_ALL, 0, &r));
    if (useObjs) for (int ot = 0; ot < 2; ot++) {
        if (r.chance(85)) { Stmt s = mk(S_INSTALL_CMP, r.chance(70) ? 0 : mainScope, &r); s.ot = ot; s.fm = r.chance(50) ? CM_STRUCT : 1 + (int) r.below(CM_N - 1); S.push_back(s); }
        if (r.chance(80)) { Stmt s = mk(S_INSTALL_CPY, r.chance(70) ? 0 : mainScope, &r); s.ot = ot; s.fm = r.chance(65) ? CP_MEMCPY : CP_XOR; S.push_back(s); }
    }
    if (r.chance(15)) { S.push_back(mk(S_STRICT, mainScope, &r)); if (r.chance(30)) S.push_back(mk(S_STRICT, (mainScope + 1) % 3, &r)); }
    auto data_stmt = [&](bool set) {
        Stmt s = mk(set ? S_SETDATA : S_GETDATA, pickScope(), &r); s.fn = DNAMES[r.below(2)];
        if (set) {
            static const int DT[] = { V_BOOL, V_INT, V_UINT, V_DOUBLE, V_STR, V_PTR, V_CPTR, V_FPTR, V_OBJ };
            s.dval = gen_val(r, sc, DT[r.below(9)]); s.dconst = r.chance(50);
        }
        return s;
    };
    if (r.chance(20)) { S.push_back(data_stmt(true)); if (r.chance(50)) S.push_back(data_stmt(true)); }
    if (usesIgnore && r.chance(25)) S.push_back(mk(S_DISABLE, r.chance(50) ? 0 : mainScope, &r));

    int rounds = r.chance(18) ? 2 : 1;
    for (int round = 0; round < rounds; round++) {
        int nplan = 1 + (int) r.below(round ? 2 : (thorough ? 6 : 4));
        std::vector<Plan> plans;
        for (int i = 0; i < nplan; i++) {
            Plan pl; pl.scope = pickScope(); pl.fn = FNAMES[r.below(3)];
            int np = (int) r.below(100); np = np < 20 ? 0 : np < 60 ? 1 : np < 88 ? 2 : 3;
            for (int j = 0; j < np; j++) { Param p; p.kind = P_IN; p.name = r.chance(97) ? PNAMES[j] : PNAMES[0]; p.v = gen_val(r, sc, gen_param_type(r, useObjs, objShare)); if (p.v.t == V_DOUBLE && r.chance(40)) { p.v.hasTol = true; p.v.tol = TPOOL[r.below(sizeof TPOOL / sizeof TPOOL[0])]; } pl.ps.push_back(p); }
            int no = (int) r.below(100); no = no < (focusObjs ? 55 : 72) ? 0 : no < 95 ? 1 : 2;
            for (int j = 0; j < no; j++) {
                Param p; p.name = ONAMES[j];
                int k = (int) r.below(100);
                if (k < (focusObjs ? 15 : 55) || (k < 85 && !useObjs && !r.chance(15))) { p.kind = P_OUT_RAW; p.mi = add_mem(sc, gen_bytes(r, OUT_SIZE)); }
                else if (k < 85) { p.kind = P_OUT_TYPED; p.ot = useObjs ? (int) r.below(2) : (int) r.below(3); p.oi = (int) r.below(4); if (r.chance(20)) p.oi = -1 - (int) r.below(OUT_BUFS); }
                else p.kind = P_OUT_UNMODIFIED;
                pl.ps.push_back(p);
            }
            pl.ignoreOther = r.chance(12);
            pl.hasRet = r.chance(55); if (pl.hasRet) pl.ret = gen_val(r, sc, gen_ret_type(r));
            int k = (int) r.below(100); pl.ecount = k < 80 ? -1 : k < 88 ? 2 : k < 91 ? 3 : k < 94 ? 1 : k < 97 ? 0 : -2;
            plans.push_back(pl);
        }
        for (const Plan& pl : plans) S.push_back(expect_of(pl, r));
        if (r.chance(8)) { Plan extra; extra.scope = pickScope(); extra.fn = "h"; extra.ignoreOther = false; extra.hasRet = false; extra.ecount = -1; S.push_back(expect_of(extra, r)); }
        if (usesIgnore && r.chance(60)) S.push_back(mk(S_IGNORE_OTHERS, r.chance(50) ? 0 : mainScope, &r));
        if (r.chance(15) && plans.size() > 1) std::swap(plans[0], plans[plans.size() - 1]);
        for (const Plan& pl : plans) {
            int ncalls = pl.ecount == -1 ? 1 : pl.ecount == -2 ? 0 : pl.ecount;
            if (r.chance(pmut / 2)) ncalls += r.chance(50) ? 1 : -1;
            if (usesIgnore && r.chance(15)) S.push_back(mk(r.chance(60) ? S_DISABLE : S_ENABLE, r.chance(50) ? 0 : pl.scope, &r));
            for (int cidx = 0; cidx < ncalls; cidx++) {
                S.push_back(actual_of(pl, r, sc, r.chance(pmut)));
                if (r.chance(10)) S.push_back(mk(S_LEFT, pickScope(), &r));
                if (r.chance(8)) S.push_back(data_stmt(false));
                if (r.chance(5)) S.push_back(data_stmt(true));
            }
            if (usesIgnore && r.chance(10)) S.push_back(mk(S_ENABLE, r.chance(50) ? 0 : pl.scope, &r));
        }
        if (usesIgnore && r.chance(40)) { Plan unk; unk.scope = pickScope(); unk.fn = "q"; unk.ignoreOther = false; unk.hasRet = false; unk.ecount = -1; S.push_back(actual_of(unk, r, sc, false)); }
        if (r.chance(25)) S.push_back(mk(S_CHECK, r.chance(50) ? 0 : mainScope, &r));
        if (r.chance(12)) S.push_back(mk(S_LEFT, pickScope(), &r));
        if (round + 1 < rounds || r.chance(6)) {
            bool root = r.chance(60);
            S.push_back(mk(S_CLEAR, root ? 0 : mainScope, &r));
            if (root && r.chance(40)) S.push_back(mk(S_REMOVE_ALL, 0, &r));     // no expectation is alive after a root clear
            if (r.chance(50)) S.push_back(mk(S_LEFT, pickScope(), &r));
            if (r.chance(30)) S.push_back(data_stmt(false));
        }
    }
}
// Boundary value of the actual output pointer: NULL ("the caller does not want this output"). Applied after the scenario is complete, to
// output parameters under whose name no expectation of the scenario returns bytes (see the header comment): the candidates are unmodified /
// zero-size / typed (copier gets the NULL) / undeclared (ignoreOtherParameters, or a failing verdict).
static bool name_returns_bytes(const Scenario& sc, const std::string& name) {
    for (const Stmt& st : sc.stmts) if (st.k == S_EXPECT) for (const Param& p : st.ps) if (p.kind == P_OUT_RAW && p.name == name && !sc.mems[p.mi].empty()) return true;
    return false;
}
static void null_output_pass(vf::Rng& r, Scenario& sc) {
    for (Stmt& st : sc.stmts) if (st.k == S_ACTUAL) for (Param& p : st.ps) if (p.kind != P_IN && !name_returns_bytes(sc, p.name) && r.chance(45)) p.buf = -1;
}
static void sec_random(vf::Ctx& c) {
    Scenario sc;
    gen_random(c.rng, sc, c.thorough);
    null_output_pass(c.rng, sc);
    run_scenario(c, sc);
}
static void sec_random_objs(vf::Ctx& c) {
    Scenario sc;
    gen_random(c.rng, sc, c.thorough, true);
    null_output_pass(c.rng, sc);
    run_scenario(c, sc);
}

// ---------------------------------------------------------------- enumerated tables (independent of the seed)
static std::vector<Scenario> T_FORWARD, T_DATA, T_IGNORED, T_ADAPT, T_KEPT, T_NULLOUT;

static Val mkint(int t, uint64_t u) { Val v; v.t = t; v.u = u; return v; }
static Param in_param(const char* name, const Val& v) { Param p; p.kind = P_IN; p.name = name; p.v = v; return p; }
static Stmt t_expect(int scope, const char* fn, int ecount = -1) { Stmt s = mk(S_EXPECT, scope); s.fn = fn; s.ecount = ecount; return s; }
static Stmt t_actual(int scope, const char* fn) { Stmt s = mk(S_ACTUAL, scope); s.fn = fn; return s; }
static Getter t_getter(int level, int kind, int t, const Val* def = nullptr) { Getter g; g.level = level; g.kind = kind; g.t = t; if (def) g.def = *def; else { g.def.t = t; } return g; }
static void add_installs(Scenario& sc, int scope, bool cmp = true, bool cpy = true, int cm = CM_STRUCT, int cp = CP_MEMCPY) {
    for (int ot = 0; ot < 2; ot++) {
        if (cmp) { Stmt s = mk(S_INSTALL_CMP, scope); s.ot = ot; s.fm = cm; sc.stmts.push_back(s); }
        if (cpy) { Stmt s = mk(S_INSTALL_CPY, scope); s.ot = ot; s.fm = cp; sc.stmts.push_back(s); }
    }
}
// all values the forwarder table walks through, per type
static std::vector<Val> table_values(Scenario& proto, int t) {
    std::vector<Val> o;
    if (t <= V_ULL) { for (uint64_t u : LAT[t]) o.push_back(mkint(t, u)); return o; }
    Val v; v.t = t;
    switch (t) {
    case V_DOUBLE: for (double d : DPOOL) { v.d = d; o.push_back(v); } break;
    case V_STR: for (const char* s : STRPOOL) { v.si = add_str(proto, s); o.push_back(v); } break;
    case V_PTR: case V_CPTR: for (int i = -1; i < 2; i++) { v.pi = i; o.push_back(v); } break;
    case V_FPTR: for (int i = -1; i < 2; i++) { v.pi = i; o.push_back(v); } break;
    case V_MEM: for (const char* b : { "", "\x01", "\x01\x02\xff\x80" }) { v.si = add_mem(proto, b); o.push_back(v); } break;
    case V_OBJ: for (int ot = 0; ot < 3; ot++) for (int i = 0; i < 3; i += 2) { v.ot = ot; v.pi = i; o.push_back(v); } break;
    }
    return o;
}
static Val table_other(Scenario& sc, const Val& v) {
    Val w = v;
    switch (v.t) {
    case V_BOOL: w.u = ((int) v.u != 0) ? 0 : 1; break;
    case V_DOUBLE: w.d = (std::isnan(v.d) || std::isinf(v.d)) ? 0.0 : (v.d == 0 ? 1.0 : v.d * 2 + 1); break;
    case V_STR: w.si = add_str(sc, sc.strs[v.si] + "!"); break;
    case V_PTR: case V_CPTR: w.pi = v.pi == 2 ? 3 : 2; break;
    case V_FPTR: w.pi = 2; break;
    case V_MEM: w.si = add_mem(sc, sc.mems[v.si] + "\x55"); break;
    case V_OBJ: w.pi = (v.pi & 3) == 2 ? 0 : 2; break;
    default: w.u = canon(v.t, v.u ^ 1); break;
    }
    return w;
}

static void build_forward_table() {
    // (a) parameter forwarders of both tables, every type, every lattice value
    for (int t = 0; t < V_N; t++) {
        Scenario proto;
        std::vector<Val> vals = table_values(proto, t);
        for (const Val& v : vals) for (int mode = 0; mode < 2; mode++) {
            Scenario sc = proto;
            if (t == V_OBJ) add_installs(sc, 0);
            if (mode == 0) {
                // expectation matched, a second one left open: the teardown failure lists the fulfilled expectation with type and value
                Stmt e = t_expect(0, "f"); e.ps.push_back(in_param("a", v)); sc.stmts.push_back(e);
                sc.stmts.push_back(t_expect(0, "g"));
                Stmt a = t_actual(0, "f"); a.ps.push_back(in_param("a", v)); sc.stmts.push_back(a);
            } else {
                // the actual value differs: the failure prints the actual parameter with type and value
                Stmt e = t_expect(0, "f"); e.ps.push_back(in_param("a", table_other(sc, v))); sc.stmts.push_back(e);
                Stmt a = t_actual(0, "f"); a.ps.push_back(in_param("a", v)); sc.stmts.push_back(a);
            }
            T_FORWARD.push_back(sc);
        }
    }
    // (b) return-value forwarders x getters, both levels
    for (int t = 0; t < N_GETTER_TYPES; t++) {
        Scenario proto;
        std::vector<Val> vals = table_values(proto, t);
        for (const Val& v : vals) {
            std::vector<Getter> gs;
            for (int level = 0; level < 2; level++) {
                gs.push_back(t_getter(level, G_RETVAL, V_INT));
                gs.push_back(t_getter(level, G_HAS, V_INT));
                if (t <= V_ULL) {
                    for (int gt = V_BOOL; gt <= V_ULL; gt++) { gs.push_back(t_getter(level, G_TYPED, gt)); Val d = mkint(gt, gt == V_BOOL ? 0 : 77); gs.push_back(t_getter(level, G_ORDEFAULT, gt, &d)); }
                } else {
                    gs.push_back(t_getter(level, G_TYPED, t));
                    Val d = table_other(proto, v); gs.push_back(t_getter(level, G_ORDEFAULT, t, &d));
                    gs.push_back(t_getter(level, G_TYPED, V_INT));
                    gs.push_back(t_getter(level, G_TYPED, t == V_PTR ? V_CPTR : t == V_CPTR ? V_PTR : V_STR + (t == V_STR)));
                }
            }
            for (const Getter& g : gs) {
                Scenario sc = proto;
                Stmt e = t_expect(1, "f"); e.hasRet = true; e.ret = v; sc.stmts.push_back(e);
                Stmt a = t_actual(1, "f"); a.getters.push_back(g); sc.stmts.push_back(a);
                T_FORWARD.push_back(sc);
            }
        }
    }
    // (c) ...OrDefault on a call without return value hands back the caller's default, every type and value
    for (int t = 0; t < N_GETTER_TYPES; t++) {
        Scenario proto;
        std::vector<Val> vals = table_values(proto, t);
        for (const Val& v : vals) for (int level = 0; level < 2; level++) for (int ignored = 0; ignored < 2; ignored++) {
            Scenario sc = proto;
            if (ignored) { sc.stmts.push_back(mk(S_IGNORE_OTHERS, 0)); sc.ignoredPossible = true; }
            else sc.stmts.push_back(t_expect(0, "f"));
            Stmt a = t_actual(0, "f"); a.getters.push_back(t_getter(level, G_ORDEFAULT, t, &v)); a.getters.push_back(t_getter(level, G_HAS, V_INT)); a.getters.push_back(t_getter(level, G_RETVAL, V_INT));
            sc.stmts.push_back(a);
            T_FORWARD.push_back(sc);
        }
    }
    // (d) output parameters: expected kind x actual kind x copier installed
    {
        const char* contents[] = { "", "\x01", "\x01\x02\x03\x04\x05\x06\x07\x08", "0123456789abcdef" };
        for (int ek = 0; ek < 6; ek++) for (int ak = 0; ak < 3; ak++) for (int inst = 0; inst < 2; inst++) for (int scope = 0; scope < 2; scope++) {
            Scenario sc;
            if (inst) add_installs(sc, 0);
            Stmt e = t_expect(scope, "f"); Param p; p.name = "o";
            if (ek < 4) { p.kind = P_OUT_RAW; p.mi = add_mem(sc, std::string(contents[ek], ek == 0 ? 0 : ek == 1 ? 1 : ek == 2 ? 8 : 16)); }
            else if (ek == 4) { p.kind = P_OUT_TYPED; p.ot = OT_A; p.oi = 2; }
            else p.kind = P_OUT_UNMODIFIED;
            e.ps.push_back(p);
            if (ek == 4 && ak == 2) { Param p2; p2.name = "p"; p2.kind = P_OUT_TYPED; p2.ot = OT_B; p2.oi = 0; e.ps.push_back(p2); }
            e.hasRet = true; e.ret = mkint(V_INT, 5);
            sc.stmts.push_back(e);
            Stmt a = t_actual(scope, "f"); Param q; q.name = "o"; q.buf = 1;
            if (ak == 0) q.kind = P_OUT_RAW; else { q.kind = P_OUT_TYPED; q.ot = ak == 1 ? OT_A : OT_B; }
            if (ek == 4 && ak == 2) { q.ot = OT_A; }
            a.ps.push_back(q);
            if (ek == 4 && ak == 2) { Param q2; q2.name = "p"; q2.kind = P_OUT_TYPED; q2.ot = OT_B; q2.buf = 2; a.ps.push_back(q2); }
            a.getters.push_back(t_getter(L_ACTUAL, G_TYPED, V_INT));
            sc.stmts.push_back(a);
            T_FORWARD.push_back(sc);
        }
    }
    // (e) double tolerance forwarder
    for (double tol : TPOOL) for (double delta : { 0.0, 0.004, 0.006, 0.5, 2.0 }) {
        Scenario sc; Val ev; ev.t = V_DOUBLE; ev.d = 1.0; ev.hasTol = true; ev.tol = tol; Val av; av.t = V_DOUBLE; av.d = 1.0 + delta;
        Stmt e = t_expect(0, "f"); e.ps.push_back(in_param("a", ev)); sc.stmts.push_back(e);
        Stmt a = t_actual(0, "f"); a.ps.push_back(in_param("a", av)); sc.stmts.push_back(a);
        T_FORWARD.push_back(sc);
    }
    // (f) support-table operations
    for (int scope = 0; scope < 3; scope++) for (int entry = 0; entry < (scope == 0 ? 2 : 1); entry++) {
        auto E = [&](Stmt s) { s.entry = entry; return s; };
        for (int n = 0; n <= 3; n++) for (int k = 0; k <= n + 1; k++) {           // expectNCalls(n) with k calls
            Scenario sc; Stmt e = E(t_expect(scope, "f", n)); e.ps.push_back(in_param("a", mkint(V_LONG, (uint64_t) 1 << 33))); e.hasRet = true; e.ret = mkint(V_ULONG, ~0ull); sc.stmts.push_back(e);
            for (int i = 0; i < k; i++) { Stmt a = E(t_actual(scope, "f")); a.ps.push_back(in_param("a", mkint(V_LL, (uint64_t) 1 << 33))); a.getters.push_back(t_getter(i & 1, G_TYPED, V_ULL)); sc.stmts.push_back(a); sc.stmts.push_back(E(mk(S_LEFT, scope))); }
            T_FORWARD.push_back(sc);
        }
        for (int k = 0; k < 2; k++) { Scenario sc; sc.stmts.push_back(E(t_expect(scope, "f", -2))); if (k) sc.stmts.push_back(E(t_actual(scope, "f"))); T_FORWARD.push_back(sc); }
        for (int strict = 0; strict < 2; strict++) for (int swapped = 0; swapped < 2; swapped++) for (int midcheck = 0; midcheck < 2; midcheck++) {
            Scenario sc; if (strict) sc.stmts.push_back(E(mk(S_STRICT, scope)));
            sc.stmts.push_back(E(t_expect(scope, "f"))); sc.stmts.push_back(E(t_expect(scope, "g")));
            sc.stmts.push_back(E(t_actual(scope, swapped ? "g" : "f"))); sc.stmts.push_back(E(t_actual(scope, swapped ? "f" : "g")));
            if (midcheck) { sc.stmts.push_back(E(mk(S_CHECK, scope))); sc.stmts.push_back(E(mk(S_LEFT, scope))); }
            T_FORWARD.push_back(sc);
        }
        for (int mode = 0; mode < 4; mode++) for (int g = 0; g < 4; g++) {      // ignoreOtherCalls / disable / disable+enable / ignore with a matching expectation
            Scenario sc; sc.ignoredPossible = true;
            if (mode == 3) { Stmt e = E(t_expect(scope, "f")); e.hasRet = true; e.ret = mkint(V_INT, 9); sc.stmts.push_back(e); }
            sc.stmts.push_back(E(mk(mode == 1 || mode == 2 ? S_DISABLE : S_IGNORE_OTHERS, mode == 0 ? 0 : scope)));
            if (mode == 2) sc.stmts.push_back(E(mk(S_ENABLE, scope)));
            if (mode == 1) sc.stmts.push_back(E(t_expect(scope, "g")));
            Stmt a = E(t_actual(scope, mode == 3 ? "f" : "q")); a.ps.push_back(in_param("a", mkint(V_INT, 1)));
            Val d = mkint(V_LONG, (uint64_t) -5);
            a.getters.push_back(g == 0 ? t_getter(L_SUPPORT, G_RETVAL, V_INT) : g == 1 ? t_getter(L_SUPPORT, G_TYPED, V_LONG) : g == 2 ? t_getter(L_SUPPORT, G_ORDEFAULT, V_LONG, &d) : t_getter(L_ACTUAL, G_TYPED, V_STR));
            sc.stmts.push_back(a);
            sc.stmts.push_back(E(mk(S_LEFT, scope)));
            T_FORWARD.push_back(sc);
        }
        for (int crash = 0; crash < 2; crash++) { Scenario sc; Stmt s = E(mk(S_CRASH, scope)); s.crash = crash; sc.stmts.push_back(s); sc.stmts.push_back(E(t_actual(scope, "q"))); T_FORWARD.push_back(sc); }
        // crashOnFailure left on through scope cs, then a failing (unexpected) call in this scope, then another one after the first failure
        for (int cs = 0; cs < 3; cs++) { Scenario sc; Stmt s = E(mk(S_CRASH, cs)); s.crash = 2; sc.stmts.push_back(s); sc.stmts.push_back(E(t_actual(scope, "q"))); T_FORWARD.push_back(sc); }
        for (int what = 0; what < 2; what++) {                                  // clear in the middle
            Scenario sc; sc.stmts.push_back(E(t_expect(scope, "f"))); Stmt d = E(mk(S_SETDATA, scope)); d.fn = "d0"; d.dval = mkint(V_UINT, 4000000000u); sc.stmts.push_back(d);
            sc.stmts.push_back(E(mk(S_CLEAR, what ? 0 : scope))); sc.stmts.push_back(E(mk(S_LEFT, scope))); Stmt gd = E(mk(S_GETDATA, scope)); gd.fn = "d0"; sc.stmts.push_back(gd);
            if (what) sc.stmts.push_back(mk(S_REMOVE_ALL, 0));
            T_FORWARD.push_back(sc);
        }
        for (int extra = 0; extra < 2; extra++) {                               // ignoreOtherParameters
            Scenario sc; Stmt e = E(t_expect(scope, "f")); e.ps.push_back(in_param("a", mkint(V_INT, 1))); e.ignoreOtherParams = true; sc.stmts.push_back(e);
            Stmt a = E(t_actual(scope, "f")); a.ps.push_back(in_param("a", mkint(V_INT, 1))); if (extra) { a.ps.push_back(in_param("b", mkint(V_ULL, ~0ull))); Param q; q.kind = P_OUT_RAW; q.name = "o"; q.buf = 0; a.ps.push_back(q); }
            sc.stmts.push_back(a); T_FORWARD.push_back(sc);
        }
        for (int inst = 0; inst < 4; inst++) {                                   // comparators installed on this scope / root / removed again
            Scenario sc;
            if (inst == 1) add_installs(sc, scope); else if (inst >= 2) add_installs(sc, 0);
            if (inst == 3) sc.stmts.push_back(mk(S_REMOVE_ALL, 0));
            Val o; o.t = V_OBJ; o.ot = OT_B; o.pi = 0; Val o2 = o; o2.pi = 1;
            Stmt e = E(t_expect(scope, "f")); e.ps.push_back(in_param("a", o)); sc.stmts.push_back(e);
            Stmt a = E(t_actual(scope, "f")); a.ps.push_back(in_param("a", o2)); sc.stmts.push_back(a);
            T_FORWARD.push_back(sc);
        }
    }
}

static void build_data_table() {
    static const int DT[] = { V_BOOL, V_INT, V_UINT, V_DOUBLE, V_STR, V_PTR, V_CPTR, V_FPTR, V_OBJ };
    for (int t : DT) {
        Scenario proto;
        std::vector<Val> vals = table_values(proto, t);
        for (const Val& v : vals) for (int scope = 0; scope < 2; scope++) for (int variant = 0; variant < (t == V_OBJ ? 4 : 2); variant++) {
            Scenario sc = proto;
            Stmt d = mk(S_SETDATA, scope); d.fn = "d0"; d.dval = v; d.dconst = (variant & 2) != 0;
            if (variant & 1) { Stmt d0 = mk(S_SETDATA, scope); d0.fn = "d0"; d0.dval.t = V_STR; d0.dval.si = add_str(sc, "old"); sc.stmts.push_back(d0); }   // overwrite an entry of another type
            sc.stmts.push_back(d);
            Stmt g = mk(S_GETDATA, scope); g.fn = "d0"; sc.stmts.push_back(g);
            Stmt g2 = mk(S_GETDATA, scope); g2.fn = "missing"; sc.stmts.push_back(g2);
            Stmt g3 = mk(S_GETDATA, 1 - scope); g3.fn = "d0"; sc.stmts.push_back(g3);                  // another scope does not see it
            T_DATA.push_back(sc);
        }
    }
}

// Defect D19 (repaired in /repo by a fix: commit; its reversal must be caught here): after an ignored actual call the C++ support-level
// typed getters of the non-integer types failed the test (MockNamedValue("") is an int) while the C table entries return the ignored
// call's default. Own key family support-getter-after-ignored-call:*.
static void build_ignored_table() {
    static const int GT[] = { V_BOOL, V_DOUBLE, V_STR, V_PTR, V_CPTR, V_FPTR };
    for (int mode = 0; mode < 2; mode++) for (int scope = 0; scope < 2; scope++) for (int t : GT) {
        Scenario sc; sc.ignoredPossible = true; sc.key_override = "support-getter-after-ignored-call:";
        sc.stmts.push_back(mk(mode ? S_DISABLE : S_IGNORE_OTHERS, scope));
        Stmt a = t_actual(scope, "f"); a.getters.push_back(t_getter(L_SUPPORT, G_TYPED, t)); sc.stmts.push_back(a);
        T_IGNORED.push_back(sc);
    }
}

// The C comparator / copier adaptors hand every call to the user's C function: every member of the equality-function family x every
// ordered pair of pool objects (the same object on both sides included) x installed on the root / on the scope; every member of the
// copy-function family x source object (a pool object, or the receiving buffer itself) x receiving buffer. Own key family
// custom-type-adaptor:<comparator|copier>:<family member>:<argument relationship>:*.
static void build_adaptor_table() {
    for (int ot = 0; ot < 2; ot++) for (int cm = 0; cm < CM_N; cm++) for (int ei = 0; ei < 4; ei++) for (int ai = 0; ai < 4; ai++) for (int scope = 0; scope < 2; scope++) for (int shape = 0; shape < 2; shape++) {
        Scenario sc;
        // relationship of the actual object to the objects of the candidate expectations (shape 1 adds a candidate holding object ei+2)
        bool same = ei == ai || (shape && ((ei + 2) & 3) == ai);
        sc.key_override = std::string("custom-type-adaptor:comparator:") + CM_NAME[cm] + (same ? ":same-object:" : ":distinct-objects:");
        add_installs(sc, shape ? scope : 0, true, false, cm);
        Val e; e.t = V_OBJ; e.ot = ot; e.pi = ei; Val a = e; a.pi = ai;
        Stmt ex = t_expect(scope, "f"); ex.ps.push_back(in_param("a", e)); ex.hasRet = true; ex.ret = mkint(V_INT, 5); sc.stmts.push_back(ex);
        if (shape) {
            // a second candidate expectation for the same function: the matcher has to ask the equality function to tell them apart
            Val e2 = e; e2.pi = (ei + 2) & 3;
            Stmt ex2 = t_expect(scope, "f"); ex2.ps.push_back(in_param("a", e2)); ex2.hasRet = true; ex2.ret = mkint(V_INT, 6); sc.stmts.push_back(ex2);
        }
        Stmt ac = t_actual(scope, "f"); ac.ps.push_back(in_param("a", a)); ac.getters.push_back(t_getter(L_ACTUAL, G_TYPED, V_INT)); sc.stmts.push_back(ac);
        sc.stmts.push_back(mk(S_LEFT, scope));
        T_ADAPT.push_back(sc);
    }
    for (int ot = 0; ot < 2; ot++) for (int cp = -1; cp < CP_N; cp++) for (int src = 0; src < 4; src++) for (int buf = 1; buf < 3; buf++) for (int scope = 0; scope < 2; scope++) {
        // src 0..2: pool objects #0, #2, #3; src 3: the object to return lives in receiving buffer 1
        int oi = src == 3 ? -2 : src == 0 ? 0 : src + 1;
        Scenario sc;
        sc.key_override = std::string("custom-type-adaptor:copier:") + (cp < 0 ? "none" : CP_NAME[cp]) + (oi < 0 && buf == 1 ? ":dst-is-src:" : ":dst-differs:");
        if (cp >= 0) add_installs(sc, 0, false, true, CM_STRUCT, cp);
        Stmt ex = t_expect(scope, "f"); Param p; p.name = "o"; p.kind = P_OUT_TYPED; p.ot = ot; p.oi = oi; ex.ps.push_back(p); sc.stmts.push_back(ex);
        Stmt ac = t_actual(scope, "f"); Param q; q.name = "o"; q.kind = P_OUT_TYPED; q.ot = ot; q.buf = buf; ac.ps.push_back(q); sc.stmts.push_back(ac);
        T_ADAPT.push_back(sc);
    }
}

// Kept handles: call scope x scope of the interlude (every other scope; the call's own scope as the control) x interlude kind (getData,
// set*Data, expectedCallsLeft) x position (before a parameter / before the getter) x return value (none, every return type) x what is read
// through the handle (returnValue, the typed getter of the return type, hasReturnValue - unjudged when another scope is selected -, the
// support-level returnValue of the call's scope), always followed by one more returnValue() through the handle. Own key family kept-handle:*.
static void build_kept_table() {
    for (int cs = 0; cs < 3; cs++) for (int is = 0; is < 3; is++) for (int ik = 0; ik < 3; ik++) for (int pos = 0; pos < 2; pos++) {
        if (is == cs && ik != 0) continue;                                   // control: one interlude kind on the call's own scope
        int centry = cs == 0 ? (is + ik) & 1 : 0, ientry = is == 0 ? (cs + pos) & 1 : 0;
        for (int t = -1; t < N_GETTER_TYPES; t++) {
            Scenario proto; std::vector<Val> vals;
            if (t < 0) vals.push_back(Val());
            else { std::vector<Val> all = table_values(proto, t); if (is_intlike(t)) vals.push_back(all.front()); vals.push_back(t == V_DOUBLE ? all[8] : all.back()); }
            for (const Val& v : vals) for (int gv = 0; gv < 4; gv++) {
                Scenario sc = proto; sc.key_override = "kept-handle:";
                Stmt d = mk(S_SETDATA, is); d.entry = ientry; d.fn = "d0"; d.dval = mkint(V_UINT, 4000000000u); sc.stmts.push_back(d);
                Stmt e = t_expect(cs, "f"); e.entry = centry; e.ps.push_back(in_param("a", mkint(V_LONG, (uint64_t) 1 << 33))); e.hasRet = t >= 0; if (t >= 0) e.ret = v; sc.stmts.push_back(e);
                Stmt il = mk(ik == 0 ? S_GETDATA : ik == 1 ? S_SETDATA : S_LEFT, is); il.entry = ientry;
                if (ik < 2) il.fn = "d0";
                if (ik == 1) il.dval = mkint(V_INT, (uint64_t) -7);
                Stmt a = t_actual(cs, "f"); a.entry = centry; a.ps.push_back(in_param("a", mkint(V_LL, (uint64_t) 1 << 33)));
                int gt = t < 0 ? V_INT : t;
                Getter g = gv == 0 ? t_getter(L_ACTUAL, G_RETVAL, V_INT) : gv == 1 ? t_getter(L_ACTUAL, G_TYPED, gt) : gv == 2 ? t_getter(L_ACTUAL, G_HAS, V_INT) : t_getter(L_SUPPORT, G_RETVAL, V_INT);
                if (pos == 0) a.ps[0].il = add_interlude(sc, il); else g.il = add_interlude(sc, il);
                a.getters.push_back(g);
                a.getters.push_back(t_getter(L_ACTUAL, G_RETVAL, V_INT));
                finish_chain(a, sc, true);
                sc.stmts.push_back(a);
                Stmt rd = mk(S_GETDATA, is); rd.entry = ientry; rd.fn = "d0"; sc.stmts.push_back(rd);
                T_KEPT.push_back(sc);
            }
        }
    }
}

// NULL as the actual output pointer: what the expectation declares under that name (unmodified / returning 0 bytes from a real source / typed
// returning a pool object / typed returning the object in a receiving buffer / nothing, with ignoreOtherParameters / nothing at all) x copier
// installed x how the actual call passes the NULL (raw / typed of the expected type / typed of another type) x an input parameter before / after it
// x scope x candidates (one expectation / a rival expectation of the same function WITHOUT that output and with another return value, declared
// first or second / expectNCalls(2) and two calls / two outputs of one call, one NULL and one real). Every call reads its return value, then
// expectedCallsLeft. Own key family null-output-pointer:*.
static void build_nullout_table() {
    for (int ek = 0; ek < 6; ek++) for (int inst = 0; inst < 2; inst++) for (int ak = 0; ak < 3; ak++) for (int pos = 0; pos < 3; pos++) for (int scope = 0; scope < 2; scope++) for (int cand = 0; cand < 5; cand++) {
        if (inst && ek != 2 && ek != 3) continue;                            // the copier only matters for typed expectations
        Scenario sc; sc.key_override = "null-output-pointer:";
        if (inst) add_installs(sc, 0, false, true, CM_STRUCT, (ak + pos) & 1 ? CP_XOR : CP_MEMCPY);
        Param eo; eo.name = "o";
        switch (ek) {
        case 0: eo.kind = P_OUT_UNMODIFIED; break;
        case 1: eo.kind = P_OUT_RAW; eo.mi = add_mem(sc, ""); break;
        case 2: eo.kind = P_OUT_TYPED; eo.ot = OT_A; eo.oi = 2; break;
        case 3: eo.kind = P_OUT_TYPED; eo.ot = OT_A; eo.oi = -2; break;       // the object to return lives in receiving buffer 1
        default: break;
        }
        Param in = in_param("a", mkint(V_INT, 3));
        auto declare = [&](Stmt& e, bool withOut) {
            if (pos == 1) e.ps.push_back(in);
            if (withOut && ek < 4) e.ps.push_back(eo);
            if (pos == 2) e.ps.push_back(in);
            if (withOut && ek == 4) e.ignoreOtherParams = true;
        };
        Stmt e = t_expect(scope, "f", cand == 3 ? 2 : -1); e.entry = scope == 0 ? (ek + cand) & 1 : 0; declare(e, true); e.hasRet = true; e.ret = mkint(V_INT, 5);
        if (cand == 4) { Param e2 = eo; e2.name = "p"; e2.kind = P_OUT_RAW; e2.mi = add_mem(sc, "\x01\x02\x03"); e.ps.push_back(e2); }
        Stmt rival = t_expect(scope, "f"); rival.entry = e.entry; declare(rival, false); rival.hasRet = true; rival.ret = mkint(V_INT, 6);
        if (cand == 1) sc.stmts.push_back(rival);
        sc.stmts.push_back(e);
        if (cand == 2) sc.stmts.push_back(rival);
        for (int call = 0; call < (cand == 3 ? 2 : 1); call++) {
            Stmt a = t_actual(scope, "f"); a.entry = e.entry;
            Param q; q.name = "o"; q.buf = -1; q.kind = ak == 0 ? P_OUT_RAW : P_OUT_TYPED; q.ot = ak == 2 ? OT_B : OT_A;
            if (pos == 1) a.ps.push_back(in);
            a.ps.push_back(q);
            if (cand == 4) { Param q2; q2.name = "p"; q2.kind = P_OUT_RAW; q2.buf = 2; a.ps.push_back(q2); }
            if (pos == 2) a.ps.push_back(in);
            a.getters.push_back(t_getter(call & 1, G_TYPED, V_INT));
            sc.stmts.push_back(a);
            Stmt l = mk(S_LEFT, scope); l.entry = e.entry; sc.stmts.push_back(l);
        }
        T_NULLOUT.push_back(sc);
    }
}

static void sec_nullout(vf::Ctx& c) { run_scenario(c, T_NULLOUT[c.idx]); }
static void sec_kept(vf::Ctx& c) { run_scenario(c, T_KEPT[c.idx]); }
static void sec_adapt(vf::Ctx& c) { run_scenario(c, T_ADAPT[c.idx]); }
static void sec_forward(vf::Ctx& c) { run_scenario(c, T_FORWARD[c.idx]); }
static void sec_data(vf::Ctx& c) { run_scenario(c, T_DATA[c.idx]); }
static void sec_ignored(vf::Ctx& c) { run_scenario(c, T_IGNORED[c.idx]); }

int main(int argc, char** argv) {
    init_lattice(); init_slots();
    for (int i = 0; i < 2; i++) for (int m = 0; m < CM_N; m++) { g_cmp[i][m].eq = EQ[i][m]; g_cmp[i][m].str = STR[i]; }
    for (int m = 0; m < CP_N; m++) g_cpy[m].cp = CPY[m];
    for (int i = 0; i < 4; i++) g_ptrpool[i] = i;
    build_forward_table(); build_data_table(); build_ignored_table(); build_adaptor_table(); build_kept_table(); build_nullout_table();
    std::vector<vf::Section> S = {
        { "forwarder_table", T_FORWARD.size(), T_FORWARD.size(), sec_forward, true },
        { "data_store_table", T_DATA.size(), T_DATA.size(), sec_data, true },
        { "support_getters_after_ignored_call", T_IGNORED.size(), T_IGNORED.size(), sec_ignored, true },
        { "custom_type_adaptor_table", T_ADAPT.size(), T_ADAPT.size(), sec_adapt, true },
        { "kept_handle_table", T_KEPT.size(), T_KEPT.size(), sec_kept, true },
        { "null_output_pointer_table", T_NULLOUT.size(), T_NULLOUT.size(), sec_nullout, true },
        { "random_scenarios", 30000, 600000, sec_random, false },
        { "random_custom_type_scenarios", 6000, 100000, sec_random_objs, false },
    };
    return vf::harness_main(argc, argv, S, nullptr);
}
