// C11 — separate-process mode contains every way a test can die.
// Real fork() workloads (signals 1..31 x crash points, exit statuses, stops) with a recording
// wrapper around the PlatformSpecificFork/WaitPid seams, plus fully scripted fork/waitpid outcome
// sequences (EINTR runs, errors, synthetic status words). Oracle: the statement's decision table
// applied to the *recorded* status words, independently decoded.
// Workload dimensions beyond the dying test itself: the kind of shell (TEST / IGNORE_TEST run with "run ignored"),
// the route by which separate-process execution was requested (registry flag / per-shell flag), and a second
// runAllTests() pass over the same registry. Two logical monitors replace the wall-clock watchdog for the two ways
// the parent itself can be lost: (1) a deadly action that is about to be executed in the process that called
// runAllTests() is not executed but reported (the test was not isolated: its death would have taken the runner down);
// (2) the wait seam records the `options` of every wait: a stop event that arrives at a wait that did not ask for
// stop notifications is reported (the kernel would never have delivered it: the event is lost and the wait blocks
// forever on a child nobody continues) and then delivered anyway, so that the run ends.
// Fault dimension "what a failing call leaves in errno": a fork seam that fails does so with every errno value a failing
// fork can leave (EAGAIN, ENOMEM, ENOSYS, EINTR, ..., 0, an arbitrary value, or errno not touched at all and still holding
// a stale value from an earlier call), at any test of a registry of real tests (dying ones included), on the first, the
// second or both passes; a failing wait likewise. The statement does not mention errno: a failing fork is one failure of
// that test whatever errno says, the other tests get their children, and the runner-process monitor sees a test that is
// run in the runner instead.
#include "verif.h"
#include <csignal>
#include <deque>
#include <sys/resource.h>
#include <sys/time.h>
#include <time.h>
#include <sys/types.h>
#include <sys/wait.h>

#include "CppUTest/TestHarness.h"
#include "CppUTest/TestRegistry.h"
#include "CppUTest/TestOutput.h"
#include "CppUTest/TestPlugin.h"
#include "CppUTest/TestFailure.h"
#include "CppUTest/PlatformSpecificFunctions.h"

// ------------------------------------------------------------------ what a test does
enum Where { W_CTOR, W_SETUP, W_BODY, W_TEARDOWN, W_DTOR, W_PRE, W_POST, W_N };
static const char* WHERE[] = { "constructor", "setup", "body", "teardown", "destructor", "plugin-pre", "plugin-post" };
enum Act { A_NONE, A_RAISE, A_EXIT, A_UEXIT, A_FAILCHECK, A_ABORT, A_SEGV, A_STOPS, A_PLUGIN_REPORTS, A_MANY_FAILURES, A_SLEEP_MS };
static const char* ACT[] = { "none", "raise", "exit", "_exit", "failing-check", "abort", "null-write", "raise-SIGSTOP", "plugin-reports-failure", "many-non-terminating-failures", "sleep-ms" };
struct Plan { int act = A_NONE; int where = W_BODY; int arg = 0; int after = A_NONE; int after_arg = 0; int ignored = 0;   // `after`: what follows k stops; ignored: the shell is an IGNORE_TEST
              int fork_fault = 0; int fork_errno = 0; int fork_stale = 0; int fork_passes = 3; };   // the fork for this test fails (on the passes of the bit mask) leaving fork_errno; stale: the seam does not touch errno, which still holds fork_errno from an earlier call
struct Cfg { bool run_ignored = false; bool via_shell_flag = false; int repeats = 1; };   // registry "run ignored"; separate process requested per shell instead of by the registry; runAllTests passes

// The process that calls runAllTests(). A deadly action must never get to execute there: in separate-process mode the
// test has to be in a child of its own. The action is skipped and reported instead of taking the harness down.
static int g_parent_pid;
static int g_deadly_in_parent; static int g_deadly_act, g_deadly_where, g_deadly_arg, g_deadly_ignored, g_deadly_fork_fault, g_deadly_fork_errno;
static int g_bodies_in_runner;                  // test bodies (of any kind) that were executed by the process that called runAllTests()
static int g_fork_failed_for_test = -2;         // index of the test whose fork was made to fail last (-2: none in this pass)
static int g_current_test = -1;                 // set by the recording output when a test starts
static int g_pass;                              // which runAllTests() pass over the registry is running (0, 1)

// what a failing fork / wait may leave in errno, as a class for keys and counters
static const char* errno_label(int e) {
    switch (e) {
    case 0: return "0"; case EAGAIN: return "EAGAIN"; case ENOMEM: return "ENOMEM"; case ENOSYS: return "ENOSYS"; case EINTR: return "EINTR";
    case EPERM: return "EPERM"; case ECHILD: return "ECHILD"; case EINVAL: return "EINVAL"; case ENOSPC: return "ENOSPC"; case ESRCH: return "ESRCH"; case EFAULT: return "EFAULT";
    default: return "other";
    }
}
static const int FORK_ERRNOS[] = { 0, EAGAIN, ENOMEM, ENOSYS, EINTR, EPERM, ECHILD, EINVAL, ENOSPC, -1 };      // -1: an arbitrary value 1..133
static const int N_FORK_ERRNOS = 10;
static bool fork_fails_on(const Plan& p, int pass) { return p.fork_fault && ((p.fork_passes >> pass) & 1); }
static bool default_ignored(int sig) { return sig == SIGCHLD || sig == SIGURG || sig == SIGWINCH || sig == SIGCONT; }
static bool deadly(int act, int arg) {
    switch (act) { case A_RAISE: return !default_ignored(arg); case A_EXIT: case A_UEXIT: case A_ABORT: case A_SEGV: case A_STOPS: return true; default: return false; }
}

static void perform(int act, int arg) {
    switch (act) {
    case A_RAISE: raise(arg); break;
    case A_EXIT: exit(arg); break;
    case A_UEXIT: _exit(arg); break;
    case A_FAILCHECK: FAIL("scripted failure"); break;
    case A_ABORT: abort(); break;
    case A_SEGV: { volatile int* p = nullptr; *p = 1; break; }
    case A_SLEEP_MS: { struct timespec t0, t; clock_gettime(CLOCK_MONOTONIC, &t0); for (;;) { struct timespec d = { 0, 5000000 }; nanosleep(&d, nullptr); clock_gettime(CLOCK_MONOTONIC, &t); if ((t.tv_sec - t0.tv_sec) * 1000 + (t.tv_nsec - t0.tv_nsec) / 1000000 >= arg) break; } break; }
    case A_MANY_FAILURES: { UtestShell* sh = UtestShell::getCurrent(); for (int i = 0; i < arg; i++) sh->addFailure(TestFailure(sh, SimpleString("one of many"))); break; }   // the test goes on and ends normally
    default: break;
    }
}
static void act_at(const Plan& p, int where) {
    if (p.where != where) return;
    // (a failing check inside a plugin action is outside the test's own failure handling: it ends the process that executes it)
    if ((deadly(p.act, p.arg) || (p.act == A_FAILCHECK && (where == W_PRE || where == W_POST))) && g_parent_pid && (int) getpid() == g_parent_pid) {
        if (!g_deadly_in_parent++) { g_deadly_act = p.act; g_deadly_where = p.where; g_deadly_arg = p.arg; g_deadly_ignored = p.ignored; g_deadly_fork_fault = g_current_test >= 0 && g_fork_failed_for_test == g_current_test; g_deadly_fork_errno = p.fork_errno; }
        return;
    }
    if (p.act == A_STOPS) { for (int i = 0; i < p.arg; i++) raise(SIGSTOP); perform(p.after, p.after_arg); }
    else perform(p.act, p.arg);
}

static std::map<const UtestShell*, Plan>* g_plans;
static const Plan& plan_of(const UtestShell* s) { static Plan none; auto it = g_plans->find(s); return it == g_plans->end() ? none : it->second; }

class PlanTest : public Utest {
public:
    Plan p_;
    explicit PlanTest(const Plan& p) : p_(p) {}
    ~PlanTest() { act_at(p_, W_DTOR); }
    void setup() CPPUTEST_OVERRIDE { act_at(p_, W_SETUP); }
    void testBody() CPPUTEST_OVERRIDE { if (g_parent_pid && (int) getpid() == g_parent_pid) g_bodies_in_runner++; act_at(p_, W_BODY); }
    void teardown() CPPUTEST_OVERRIDE { act_at(p_, W_TEARDOWN); }
};
class PlanShell : public UtestShell {
public:
    PlanShell(const char* g, const char* n) : UtestShell(g, n, "plan.cpp", 10) {}
    Utest* createTest() CPPUTEST_OVERRIDE { act_at(plan_of(this), W_CTOR); return new PlanTest(plan_of(this)); }
};
// what IGNORE_TEST(G, n) { ... } generates: an IgnoredUtestShell whose createTest() makes the test object
class PlanIgnoredShell : public IgnoredUtestShell {
public:
    PlanIgnoredShell(const char* g, const char* n) : IgnoredUtestShell(g, n, "plan.cpp", 20) {}
    Utest* createTest() CPPUTEST_OVERRIDE { act_at(plan_of(this), W_CTOR); return new PlanTest(plan_of(this)); }
};
class PlanPlugin : public TestPlugin {
public:
    PlanPlugin() : TestPlugin("PlanPlugin") {}
    // a plugin reports its error straight to the TestResult (as the mock and leak plugins do), the test's own checks pass
    static void report(UtestShell& t, TestResult& r, int where) { const Plan& p = plan_of(&t); if (p.act == A_PLUGIN_REPORTS && p.where == where) r.addFailure(TestFailure(&t, "error reported by a plugin action")); }
    void preTestAction(UtestShell& t, TestResult& r) CPPUTEST_OVERRIDE { report(t, r, W_PRE); act_at(plan_of(&t), W_PRE); }
    void postTestAction(UtestShell& t, TestResult& r) CPPUTEST_OVERRIDE { report(t, r, W_POST); act_at(plan_of(&t), W_POST); }
};

// ------------------------------------------------------------------ recording / scripted seams
struct WaitRec { int ret; int status; int err; int opts; };
struct ForkRec { size_t from; int test; };      // index into g_waits at the fork; index of the test that was running (-1 unknown)
static std::vector<WaitRec> g_waits;            // every waitpid result seen by the code under test (all tests of the pass)
static std::vector<ForkRec> g_wait_mark;        // one per fork
static int g_forks = 0;
static int g_blind_stop_waits;                  // stop events that arrived at a wait that had not asked for them (no WUNTRACED)
static int g_waits_after_stop, g_waits_after_stop_asking;   // waits issued after a stop was reported / of those, asking for stop notifications again
static bool g_stop_seen_in_test;
static int (*real_fork)(void);
static int (*real_waitpid)(int, int*, int);

static void note_wait_options(int opts, bool result_is_stop) {
    if (g_stop_seen_in_test) { g_waits_after_stop++; if (opts & WUNTRACED) g_waits_after_stop_asking++; }
    if (result_is_stop) { g_stop_seen_in_test = true; if (!(opts & WUNTRACED)) g_blind_stop_waits++; }
}
static const std::vector<Plan>* g_run_plans;    // plans by test index while a PlanRun is alive
static int g_fork_faults_injected, g_fork_extra_attempts, g_fork_errno_on_entry; static bool g_fork_retry_unbounded;
static int rec_fork() {
    const Plan* p = (g_run_plans && g_current_test >= 0 && (size_t) g_current_test < g_run_plans->size()) ? &(*g_run_plans)[(size_t) g_current_test] : nullptr;
    bool again = g_current_test >= 0 && !g_wait_mark.empty() && g_wait_mark.back().test == g_current_test;     // another attempt for the same test (the first one failed)
    if (again) g_fork_extra_attempts++;
    else { g_wait_mark.push_back(ForkRec{ g_waits.size(), g_current_test }); g_forks++; g_stop_seen_in_test = false; }
    if (p && fork_fails_on(*p, g_pass)) {
        // the fault lasts as long as the test: an implementation that tries again gets the same answer (bounded: after 1000 attempts it is let through)
        if (g_fork_extra_attempts <= 1000) {
            if (!again) { g_fork_faults_injected++; g_fork_errno_on_entry = errno; g_fork_failed_for_test = g_current_test; }
            if (!p->fork_stale) errno = p->fork_errno;
            return -1;
        }
        g_fork_retry_unbounded = true;
    }
    return real_fork();
}
static int rec_waitpid(int pid, int* status, int opts) {
    // The wait is always made WITH stop notifications, so that a stop the code under test did not ask to hear about
    // is seen here (and reported by the oracle) instead of blocking parent and harness for good.
    int st = 0;
    int r = real_waitpid(pid, &st, opts | WUNTRACED);
    int saved = errno;
    if (r > 0 && status) *status = st;
    WaitRec w; w.ret = r; w.status = r > 0 ? st : 0; w.err = r < 0 ? saved : 0; w.opts = opts;
    g_waits.push_back(w);
    note_wait_options(opts, r > 0 && (st & 0xff) == 0x7f);
    errno = saved;
    return r;
}

// scripted: items consumed by waitpid calls
struct Item { int kind; int val; };    // kind: 0 EINTR, 1 other errno(val), 2 status word(val)
static std::vector<Item> g_script; static size_t g_pos; static int g_calls; static bool g_overrun; static int g_fork_result;
static volatile sig_atomic_t g_sigcont;
static void on_cont(int) { g_sigcont++; }
static int scr_fork() { g_wait_mark.push_back(ForkRec{ g_waits.size(), g_current_test }); g_forks++; g_stop_seen_in_test = false; return g_fork_result; }
static int scr_waitpid(int pid, int* status, int opts) {
    g_calls++;
    if (g_calls > 1000 || g_pos >= g_script.size()) {      // script exhausted: end the loop and remember it
        g_overrun = true; if (status) *status = 0; return pid;
    }
    Item it = g_script[g_pos++];
    note_wait_options(opts, it.kind == 2 && (it.val & 0xff) == 0x7f);     // the scripted kernel: a stop is only reported to a wait that asked for it
    if (it.kind == 0) { errno = EINTR; return -1; }
    if (it.kind == 1) { errno = it.val; return -1; }
    if (status) *status = it.val;
    return pid;
}
static int st_exited(int n) { return (n & 0xff) << 8; }
static int st_signaled(int s, bool core) { return (s & 0x7f) | (core ? 0x80 : 0); }
static int st_stopped(int s) { return ((s & 0xff) << 8) | 0x7f; }

// independent decoding of a status word (not using the W* macros the code under test uses)
static bool d_exited(int st) { return (st & 0x7f) == 0; }
static int d_exitcode(int st) { return (st >> 8) & 0xff; }
static bool d_stopped(int st) { return (st & 0xff) == 0x7f; }
static bool d_signaled(int st) { return !d_exited(st) && !d_stopped(st) && (st & 0x7f) != 0x7f; }

static const std::map<const UtestShell*, int>* g_shell_index;      // shell -> index of its plan, while a PlanRun is alive
class RecOutput : public StringBufferTestOutput {
public:
    std::vector<size_t> failures_at_end;
    std::vector<int> started;                    // plan index of every test that was started, in order (-1 unknown)
    void printCurrentTestStarted(const UtestShell& t) CPPUTEST_OVERRIDE {
        g_current_test = -1;
        if (g_shell_index) { auto it = g_shell_index->find(&t); if (it != g_shell_index->end()) g_current_test = it->second; }
        started.push_back(g_current_test);
        // a seam that fails without touching errno: errno still holds what an earlier, unrelated call left there
        if (g_run_plans && g_current_test >= 0 && (size_t) g_current_test < g_run_plans->size()) { const Plan& p = (*g_run_plans)[(size_t) g_current_test]; if (fork_fails_on(p, g_pass) && p.fork_stale) errno = p.fork_errno; }
    }
    void printCurrentTestEnded(const TestResult& res) CPPUTEST_OVERRIDE { failures_at_end.push_back(res.getFailureCount()); }
};

struct CaseRun {
    std::vector<long> deltas;       // failures added per test (parent side), by plan index; -1: the test was never started/ended
    size_t total_failures = 0; size_t run_count = 0; bool is_failure = false; size_t ended = 0;
};

static void reset_pass_records() {
    g_waits.clear(); g_wait_mark.clear(); g_forks = 0; g_current_test = -1;
    g_blind_stop_waits = 0; g_waits_after_stop = 0; g_waits_after_stop_asking = 0; g_stop_seen_in_test = false;
    g_deadly_in_parent = 0; g_deadly_fork_fault = 0; g_bodies_in_runner = 0; g_fork_failed_for_test = -2;
    g_fork_faults_injected = 0; g_fork_extra_attempts = 0; g_fork_errno_on_entry = 0; g_fork_retry_unbounded = false;
}

// a registry of scripted tests that can be run more than once (a later pass sees the shells as the first one left them)
struct PlanRun {
    std::map<const UtestShell*, Plan> pm; std::map<const UtestShell*, int> index;
    std::vector<UtestShell*> shells;             // shells[i] runs plans[i]
    std::deque<std::string> names;
    std::vector<Plan> plans_; int passes_done = 0;
    TestRegistry reg; PlanPlugin plugin;
    PlanRun(const std::vector<Plan>& plans, const Cfg& cfg) : plans_(plans) {
        g_plans = &pm; g_shell_index = &index; g_run_plans = &plans_;
        reg.setCurrentRegistry(&reg);
        reg.installPlugin(&plugin);
        shells.resize(plans.size());
        for (size_t i = plans.size(); i-- > 0;) {      // addTest() prepends: run order is plans[0], plans[1], ...
            names.push_back("t" + std::to_string(i));
            UtestShell* s = plans[i].ignored ? (UtestShell*) new PlanIgnoredShell("G", names.back().c_str()) : (UtestShell*) new PlanShell("G", names.back().c_str());
            pm[s] = plans[i]; index[s] = (int) i; shells[i] = s; reg.addTest(s);
            if (cfg.via_shell_flag) s->setRunInSeperateProcess();          // what a test that asks for a process of its own does
        }
        if (!cfg.via_shell_flag) reg.setRunTestsInSeperateProcess();      // -p
        if (cfg.run_ignored) reg.setRunIgnored();                         // -ri
    }
    ~PlanRun() {
        reg.removePluginByName("PlanPlugin");
        reg.setCurrentRegistry(NULLPTR);
        for (UtestShell* s : shells) delete s;
        g_plans = nullptr; g_shell_index = nullptr; g_run_plans = nullptr; g_pass = 0;
    }
    CaseRun run(bool scripted) {
        CaseRun cr;
        reset_pass_records();
        g_pass = passes_done++;
        real_fork = PlatformSpecificFork; real_waitpid = PlatformSpecificWaitPid;
        PlatformSpecificFork = scripted ? scr_fork : rec_fork;
        PlatformSpecificWaitPid = scripted ? scr_waitpid : rec_waitpid;
        {
            RecOutput out; TestResult res(out);
            reg.runAllTests(res);
            cr.deltas.assign(shells.size(), -1);
            size_t prev = 0;
            for (size_t k = 0; k < out.failures_at_end.size(); k++) {
                size_t f = out.failures_at_end[k];
                if (k < out.started.size() && out.started[k] >= 0 && (size_t) out.started[k] < cr.deltas.size()) cr.deltas[(size_t) out.started[k]] = (long) (f - prev);
                prev = f;
            }
            cr.total_failures = res.getFailureCount(); cr.run_count = res.getRunCount(); cr.is_failure = res.isFailure(); cr.ended = out.failures_at_end.size();
        }
        PlatformSpecificFork = real_fork; PlatformSpecificWaitPid = real_waitpid;
        return cr;
    }
};

static CaseRun run_plans(const std::vector<Plan>& plans, bool scripted) {
    PlanRun pr(plans, Cfg());
    return pr.run(scripted);
}

// expected failures of one test from the recorded wait results, by the statement's table
static size_t expected_from_records(size_t from, size_t to, std::string& trace) {
    size_t fails = 0;
    for (size_t i = from; i < to; i++) {
        const WaitRec& w = g_waits[i];
        char b[64];
        if (w.ret < 0) { snprintf(b, sizeof b, "[err %d]", w.err); trace += b; if (w.err != EINTR) { fails++; } continue; }
        snprintf(b, sizeof b, "[st 0x%x]", w.status); trace += b;
        if (d_stopped(w.status)) fails++;
        else if (d_signaled(w.status)) fails++;
        else if (d_exited(w.status) && d_exitcode(w.status) != 0) fails++;
    }
    return fails;
}

// what the statement demands from the *intent* of the scripted test alone (-1: depends on the kernel / exit handlers, judged from the records only)
static int expected_from_intent(const Plan& p) {
    auto sig_effect = [](int sig) -> int {
        if (default_ignored(sig)) return 0;                                                       // default action: ignore
        if (sig == SIGSTOP) return 1;                                                             // one stop event, then normal completion
        if (sig == SIGTSTP || sig == SIGTTIN || sig == SIGTTOU) return -1;                        // stops, or is discarded in an orphaned process group
        return 1;                                                                                 // terminates the child
    };
    switch (p.act) {
    case A_NONE: return 0;
    case A_SLEEP_MS: return -1;
    case A_RAISE: return sig_effect(p.arg);
    case A_UEXIT: return p.arg != 0;
    case A_EXIT: return p.arg != 0 ? 1 : -1;            // exit(0) runs exit handlers, which may themselves die
    case A_FAILCHECK: case A_ABORT: case A_SEGV: case A_PLUGIN_REPORTS: return 1;
    case A_MANY_FAILURES: return p.arg > 0;          // however many checks failed in the child: the test is recorded as failed (once)
    case A_STOPS: {
        int after;
        switch (p.after) { case A_NONE: after = 0; break; case A_FAILCHECK: after = 1; break; case A_RAISE: after = sig_effect(p.after_arg); break; case A_UEXIT: after = p.after_arg != 0; break; default: after = -1; }
        return after < 0 ? -1 : p.arg + after;
    }
    default: return -1;
    }
}

static std::string plan_json(const Plan& p) {
    vf::J j; j.k("act", ACT[p.act]).k("where", WHERE[p.where]).k("arg", p.arg).k("after", ACT[p.after]).k("after_arg", p.after_arg).k("shell", p.ignored ? "IGNORE_TEST" : "TEST");
    if (p.fork_fault) j.k("fork_fails_with_errno", p.fork_errno).k("errno_class", errno_label(p.fork_errno)).k("errno_left_by", p.fork_stale ? "an earlier call (the seam does not touch errno)" : "the failing fork").k("on_passes_mask", p.fork_passes);
    return j.str();
}
static std::string plans_json(const std::vector<Plan>& ps) { std::vector<std::string> v; for (auto& p : ps) v.push_back(plan_json(p)); return vf::jarr(v); }

static void add_followers(vf::Rng& r, std::vector<Plan>& plans) {
    int n = r.range(1, 3);
    for (int i = 0; i < n; i++) { Plan f; if (r.chance(30)) { f.act = A_FAILCHECK; f.where = (int) r.below(3) + 1; } else if (r.chance(15)) { f.act = A_PLUGIN_REPORTS; f.where = r.chance(50) ? W_PRE : W_POST; } plans.push_back(f); }
}

static std::string cfg_json(const Cfg& g) { return vf::J().k("run_ignored", g.run_ignored).k("separate_process_requested_by", g.via_shell_flag ? "each shell" : "registry").k("passes", g.repeats).str(); }

// the dimensions every real-fork section shares: shell kind per test, "run ignored", the route of the request, a second pass
static void decorate(vf::Rng& r, std::vector<Plan>& plans, Cfg& cfg, bool first_must_run) {
    for (Plan& p : plans) p.ignored = r.chance(25);
    cfg.run_ignored = r.chance(60);
    if (first_must_run && plans[0].ignored) cfg.run_ignored = true;       // the subject of the case has to happen
    cfg.via_shell_flag = r.chance(15);
    cfg.repeats = r.chance(20) ? 2 : 1;
}

static bool wait_range(int test, size_t& from, size_t& to) {
    for (size_t k = 0; k < g_wait_mark.size(); k++) if (g_wait_mark[k].test == test) { from = g_wait_mark[k].from; to = k + 1 < g_wait_mark.size() ? g_wait_mark[k + 1].from : g_waits.size(); return true; }
    from = to = 0; return false;
}

static void judge_pass(vf::Ctx& c, const std::vector<Plan>& plans, const Cfg& cfg, const CaseRun& cr, const char* keyclass, int pass) {
    size_t n = plans.size(), n_run = 0;
    auto runs = [&](size_t i) { return !plans[i].ignored || cfg.run_ignored; };
    for (size_t i = 0; i < n; i++) if (runs(i)) n_run++;
    std::string ctx = " [pass " + std::to_string(pass + 1) + " of " + std::to_string(cfg.repeats) + ", " + cfg_json(cfg) + "]";
    c.count("real_children_forked", (uint64_t) g_forks);
    c.count(pass ? "passes_judged_second" : "passes_judged_first");
    if (g_deadly_in_parent) {
        // the action was skipped: had it been executed, the process running the registry would have died (or stopped) with
        // nothing recorded and no later test run
        Plan d; d.act = g_deadly_act; d.where = g_deadly_where; d.arg = g_deadly_arg;
        bool ign = g_deadly_ignored != 0;
        std::string what = g_deadly_fork_fault ? std::string("after-failed-fork:errno-") + errno_label(g_deadly_fork_errno) : std::string(ign ? "IGNORE_TEST-run-ignored" : "TEST");
        c.violation(std::string("death-not-contained:test-executed-in-the-runner-process:") + keyclass + ":" + what,
                    std::to_string(g_deadly_in_parent) + " deadly action(s) were about to be executed in the process that called runAllTests() (first: " + ACT[d.act] + " " + std::to_string(d.arg) + " @" + WHERE[d.where] + (g_deadly_fork_fault ? "; the fork for that test had failed with errno " + std::to_string(g_deadly_fork_errno) : std::string()) + "); forks=" + std::to_string(g_forks) + " of " + std::to_string(n_run) + " tests that run" + ctx);
        return;
    }
    if (g_fork_retry_unbounded)
        c.violation(std::string("fork-retried-without-bound:") + keyclass, "a fork that keeps failing was attempted more than 1000 times for one test" + ctx);
    c.count("fork_faults_injected", (uint64_t) g_fork_faults_injected);
    c.count("fork_attempts_repeated_after_a_failed_fork", (uint64_t) g_fork_extra_attempts);
    c.count("test_bodies_executed_in_the_runner_process", (uint64_t) g_bodies_in_runner);
    size_t seen = 0; for (size_t i = 0; i < n; i++) if (cr.deltas[i] >= 0) seen++;
    if (cr.run_count != n_run || seen < n_run)
        c.violation(std::string("later-tests-not-run:") + keyclass, "tests that must run=" + std::to_string(n_run) + " of " + std::to_string(n) + " started+ended=" + std::to_string(seen) + " run=" + std::to_string(cr.run_count) + " forks=" + std::to_string(g_forks) + ctx);
    else if ((size_t) g_forks != n_run)
        c.violation(std::string("test-not-given-a-child-process:") + keyclass, "tests that must run=" + std::to_string(n_run) + " forks=" + std::to_string(g_forks) + ctx);
    size_t total = 0;
    for (size_t i = 0; i < n; i++) {
        if (!runs(i)) { c.count("ignored_tests_not_run"); continue; }
        if (plans[i].ignored) { c.count("ignored_tests_run_because_of_run_ignored"); if (deadly(plans[i].act, plans[i].arg)) c.count("ignored_tests_run_ignored_with_a_deadly_action"); }
        if (cr.deltas[i] < 0) continue;                                 // reported above
        size_t got = (size_t) cr.deltas[i];
        size_t from, to; std::string trace;
        bool forked = wait_range((int) i, from, to);
        size_t want = expected_from_records(from, to, trace);
        bool fork_failed = forked && fork_fails_on(plans[i], pass);
        if (fork_failed) {
            // no child: the failing fork is the one event of this test, whatever errno says and whatever the test would have done
            const Plan& p = plans[i];
            c.count(std::string("fork_faults_errno_") + errno_label(p.fork_errno));
            if (p.fork_stale) c.count("fork_faults_errno_left_untouched_by_the_seam"); else c.count("fork_faults_errno_set_by_the_seam");
            if (deadly(p.act, p.arg)) c.count("fork_faults_on_a_test_with_a_deadly_action");
            else if (p.act == A_NONE || (p.act == A_RAISE && default_ignored(p.arg))) c.count("fork_faults_on_a_passing_test");
            else c.count("fork_faults_on_a_test_that_fails_without_dying");
            if (i + 1 < n) c.count("fork_faults_followed_by_further_tests");
            if (cfg.repeats > 1 && p.fork_passes != 3) c.count(pass == 0 ? "fork_fails_on_first_pass_only" : "fork_fails_on_second_pass_only");
            total += 1;
            if (got != 1)
                c.violation(std::string(got < 1 ? "fork-failure-not-recorded:" : "fork-failure-recorded-more-than-once:") + keyclass + ":errno-" + errno_label(p.fork_errno),
                            "test " + std::to_string(i) + " " + plan_json(p) + ": the fork seam returned -1 (errno " + std::to_string(p.fork_errno) + (p.fork_stale ? ", left there by an earlier call and not touched by the seam; errno when the seam was entered for the first fault of the pass: " + std::to_string(g_fork_errno_on_entry) : std::string(", set by the seam")) + ") => exactly 1 failure for this test; parent recorded " + std::to_string(got) + ", wait results for it: " + (trace.empty() ? "none" : trace) + "; test bodies executed in the runner process during this pass: " + std::to_string(g_bodies_in_runner) + ctx);
            continue;
        }
        // classify what was observed for evidence
        if (to > from) {
            const WaitRec& last = g_waits[to - 1];
            if (last.ret > 0 && d_signaled(last.status)) c.count("children_killed_by_signal");
            else if (last.ret > 0 && d_exited(last.status) && d_exitcode(last.status)) c.count("children_exit_nonzero");
            else if (last.ret > 0 && d_exited(last.status)) c.count("children_exit_zero");
            size_t stops = 0;
            for (size_t k = from; k < to; k++) if (g_waits[k].ret > 0 && d_stopped(g_waits[k].status)) { c.count("stop_events"); stops++; }
            if (stops > 1) c.count("real_children_stopped_more_than_once");
        }
        if (forked) {
            total += want;
            if (got != want) {
                std::string kind = got < want ? "death-not-recorded" : "spurious-or-duplicate-failure";
                c.violation(kind + ":" + keyclass + ":" + ACT[plans[i].act] + "@" + WHERE[plans[i].where], "test " + std::to_string(i) + " " + plan_json(plans[i]) + " wait results " + trace + " => expected " + std::to_string(want) + " failure(s), parent recorded " + std::to_string(got) + ctx);
            }
        } else total += got;                                            // not forked (reported above): nothing recorded to judge it by, the intent still applies
        int intent = expected_from_intent(plans[i]);
        if (!forked && plans[i].act == A_MANY_FAILURES) intent = -1;      // "failed once however many checks failed" is a statement about a child
        if (intent >= 0) {
            c.count("intent_checks");
            if ((size_t) intent != got)
                c.violation(std::string((size_t) intent > got ? "death-not-recorded" : "spurious-or-duplicate-failure") + ":intent:" + keyclass + ":" + ACT[plans[i].act] + "@" + WHERE[plans[i].where], "test " + std::to_string(i) + " " + plan_json(plans[i]) + " must add " + std::to_string(intent) + " failure(s); parent recorded " + std::to_string(got) + "; wait results " + trace + ctx);
        }
    }
    if (g_blind_stop_waits)
        c.violation(std::string("stop-event-lost:wait-did-not-ask-for-stop-notifications:") + keyclass, std::to_string(g_blind_stop_waits) + " stop event(s) arrived at a wait whose options lacked WUNTRACED: the kernel would not have reported them, the stopped child would never be continued and the parent would wait forever" + ctx);
    c.count("real_waits_after_a_reported_stop", (uint64_t) g_waits_after_stop);
    c.count("real_waits_after_a_reported_stop_asking_for_stops", (uint64_t) g_waits_after_stop_asking);
    if (cr.total_failures != total) c.violation(std::string("total-failures-wrong:") + keyclass, "sum expected " + std::to_string(total) + " got " + std::to_string(cr.total_failures) + ctx);
    if (cr.is_failure != (total > 0)) c.violation(std::string("overall-verdict-wrong:") + keyclass, std::string("isFailure=") + (cr.is_failure ? "true" : "false") + " with " + std::to_string(total) + " expected failures" + ctx);
}

static void judge_real(vf::Ctx& c, const std::vector<Plan>& plans, const Cfg& cfg, const char* keyclass) {
    PlanRun pr(plans, cfg);
    if (cfg.via_shell_flag) c.count("cases_separate_process_requested_per_shell"); else c.count("cases_separate_process_requested_by_registry");
    if (cfg.run_ignored) c.count("cases_with_run_ignored");
    for (int pass = 0; pass < cfg.repeats; pass++) {
        CaseRun cr = pr.run(false);
        judge_pass(c, plans, cfg, cr, keyclass, pass);
    }
}

// ---- section: signals 1..31 x crash point (exhaustive)
static void sec_signals(vf::Ctx& c) {
    int sig = (int) (c.idx % 31) + 1, where = (int) (c.idx / 31);
    std::vector<Plan> plans; Plan p; p.act = A_RAISE; p.arg = sig; p.where = where; plans.push_back(p);
    add_followers(c.rng, plans);
    Cfg cfg; decorate(c.rng, plans, cfg, true);
    c.begin([=] { return vf::J().k("signal", sig).k("where", WHERE[where]).raw("plans", plans_json(plans)).raw("config", cfg_json(cfg)).str(); });
    judge_real(c, plans, cfg, "signal");
    // the first child must have died of exactly that signal unless the default action is ignore/stop
    bool ignored = default_ignored(sig);
    bool stops = sig == SIGSTOP || sig == SIGTSTP || sig == SIGTTIN || sig == SIGTTOU;
    {
        size_t from, to;
        if (wait_range(0, from, to) && to > from) {
            const WaitRec& last = g_waits[to - 1];
            if (!ignored && !stops && !(last.ret > 0 && d_signaled(last.status) && (last.status & 0x7f) == sig)) c.count("signal_children_not_killed_by_the_raised_signal");
            if (!ignored && !stops) c.count("signal_deaths_observed");
        }
    }
    c.nontrivial("sig" + std::to_string(sig) + "@" + WHERE[where]);
}

// ---- section: exit statuses
static const int QUICK_STATUS[] = { 0, 1, 2, 3, 42, 126, 127, 128, 129, 137, 254, 255 };
static void sec_exit(vf::Ctx& c) {
    int status, act;
    if (c.thorough) { status = (int) (c.idx % 256); act = (c.idx / 256) % 2 ? A_EXIT : A_UEXIT; }
    else if (c.idx < 12) { status = QUICK_STATUS[c.idx]; act = A_UEXIT; }
    else { status = c.rng.range(0, 255); act = c.rng.chance(30) ? A_EXIT : A_UEXIT; }
    int where = (int) c.rng.below(W_N);
    std::vector<Plan> plans; Plan p; p.act = act; p.arg = status; p.where = where; plans.push_back(p);
    add_followers(c.rng, plans);
    Cfg cfg; decorate(c.rng, plans, cfg, true);
    c.begin([=] { return vf::J().k("exit_status", status).k("via", ACT[act]).k("where", WHERE[where]).raw("plans", plans_json(plans)).raw("config", cfg_json(cfg)).str(); });
    judge_real(c, plans, cfg, "exit");
    if (status != 0) c.nontrivial("exit" + std::to_string(status) + ACT[act] + WHERE[where]);
}

// ---- section: checks, crashes, stop/continue
static Plan draw_plan(vf::Rng& rng) {
    Plan p; p.where = (int) rng.below(W_N);
    switch (rng.below(9)) {
    case 8: { static const int N[] = { 2, 3, 127, 128, 255, 256, 257, 511, 512, 768, 1024 }; p.act = A_MANY_FAILURES; p.arg = N[rng.below(11)]; p.where = W_SETUP + (int) rng.below(3); break; }
    case 7: p.act = A_PLUGIN_REPORTS; p.where = rng.chance(50) ? W_PRE : W_POST; break;
    case 0: p.act = A_FAILCHECK; if (p.where == W_CTOR || p.where == W_DTOR) p.where = W_BODY; break;
    case 1: p.act = A_ABORT; break;
    case 2: p.act = A_SEGV; break;
    case 3: p.act = A_STOPS; p.arg = rng.range(1, 3);
            switch (rng.below(4)) { case 0: p.after = A_NONE; break; case 1: p.after = A_FAILCHECK; if (p.where == W_CTOR || p.where == W_DTOR) p.where = W_BODY; break; case 2: p.after = A_RAISE; p.after_arg = SIGKILL; break; default: p.after = A_UEXIT; p.after_arg = rng.range(0, 3); }
            break;
    case 4: p.act = A_RAISE; p.arg = rng.range(1, 31); break;
    case 5: p.act = A_NONE; break;
    default: p.act = A_UEXIT; p.arg = rng.range(0, 2); break;
    }
    return p;
}

static void sec_misc(vf::Ctx& c) {
    std::vector<Plan> plans;
    int ntests = c.rng.range(1, 4);
    std::string sig;
    for (int i = 0; i < ntests; i++) {
        Plan p = draw_plan(c.rng);
        plans.push_back(p);
        sig += std::string(ACT[p.act]) + std::to_string(p.arg) + WHERE[p.where] + ACT[p.after] + ";";
    }
    Cfg cfg; decorate(c.rng, plans, cfg, false);
    for (const Plan& p : plans) sig += p.ignored ? (cfg.run_ignored ? "R" : "I") : "T";
    sig += cfg.via_shell_flag ? "s" : "r"; sig += std::to_string(cfg.repeats);
    c.begin([=] { return vf::J().raw("plans", plans_json(plans)).raw("config", cfg_json(cfg)).str(); });
    judge_real(c, plans, cfg, "mixed");
    c.nontrivial(sig);
}

// ---- section: failing forks. A registry of 1..4 real tests (passing, failing, dying, stopping); the fork for at least one of
// them fails, leaving each errno class in turn (set by the seam, or stale and untouched), on the first, second or both passes.
static void sec_fork_faults(vf::Ctx& c) {
    int forced_cls = (int) (c.idx % N_FORK_ERRNOS); bool forced_stale = (c.idx / N_FORK_ERRNOS) % 2 != 0;
    std::vector<Plan> plans;
    int ntests = c.rng.range(1, 4);
    for (int i = 0; i < ntests; i++) plans.push_back(draw_plan(c.rng));
    Cfg cfg; decorate(c.rng, plans, cfg, false);
    size_t forced = c.rng.below((uint64_t) ntests);
    if (c.rng.chance(50)) { plans[forced].act = c.rng.chance(50) ? A_NONE : A_UEXIT; plans[forced].arg = plans[forced].act == A_UEXIT ? c.rng.range(0, 3) : 0; plans[forced].after = A_NONE; plans[forced].after_arg = 0; }   // the plain cases: a passing test / a test that would have died
    if (plans[forced].ignored) cfg.run_ignored = true;                 // the subject of the case has to happen
    std::string sig;
    for (size_t i = 0; i < plans.size(); i++) {
        Plan& p = plans[i];
        if (i == forced || c.rng.chance(30)) {
            int cls = i == forced ? forced_cls : (int) c.rng.below(N_FORK_ERRNOS);
            p.fork_fault = 1; p.fork_errno = FORK_ERRNOS[cls] >= 0 ? FORK_ERRNOS[cls] : c.rng.range(1, 133);
            p.fork_stale = i == forced ? forced_stale : c.rng.chance(30);
            p.fork_passes = cfg.repeats > 1 ? c.rng.range(1, 3) : 3;
        }
        sig += std::string(ACT[p.act]) + std::to_string(p.arg) + WHERE[p.where] + ACT[p.after] + (p.ignored ? (cfg.run_ignored ? "R" : "I") : "T");
        if (p.fork_fault) sig += "F" + std::to_string(p.fork_errno) + (p.fork_stale ? "s" : "e") + std::to_string(p.fork_passes);
        sig += ";";
    }
    sig += cfg.via_shell_flag ? "s" : "r"; sig += std::to_string(cfg.repeats);
    c.begin([=] { return vf::J().raw("plans", plans_json(plans)).raw("config", cfg_json(cfg)).str(); });
    judge_real(c, plans, cfg, "fork-fault");
    errno = 0;
    c.nontrivial(sig);
}

static int learn_eintr_bound(int& failures_at_giveup);

// ---- section: REAL interrupted waits. The parent gets a SIGALRM every few milliseconds from an interval timer whose
// handler is installed without SA_RESTART while the child sleeps, so the real waitpid() really returns EINTR.
// Whatever implements the wait below the PlatformSpecificWaitPid seam must hand these interruptions to the bounded
// retry logic: either EINTR results are visible at the seam (and the test gives up after the bound with one failure),
// or the child was simply faster. What must not happen: dozens of interruptions and no EINTR ever seen, no give-up.
static volatile sig_atomic_t g_alarms;
static void on_alarm(int) { g_alarms++; }
static int g_storm_interval_us; static int g_storm_child = -1; static long g_alarms_at_first_end = -1;
static int storm_fork() {
    g_wait_mark.push_back(ForkRec{ g_waits.size(), -1 }); g_forks++; g_stop_seen_in_test = false;
    int pid = real_fork();
    if (pid > 0 && g_storm_child < 0) {
        g_storm_child = pid;
        struct itimerval it; it.it_interval.tv_sec = 0; it.it_interval.tv_usec = g_storm_interval_us; it.it_value = it.it_interval;
        setitimer(ITIMER_REAL, &it, nullptr);
    }
    return pid;
}
class StormOutput : public StringBufferTestOutput {
public:
    std::vector<size_t> failures_at_end;
    void printCurrentTestEnded(const TestResult& res) CPPUTEST_OVERRIDE {
        if (failures_at_end.empty()) { struct itimerval off; memset(&off, 0, sizeof off); setitimer(ITIMER_REAL, &off, nullptr); g_alarms_at_first_end = g_alarms; }
        failures_at_end.push_back(res.getFailureCount());
    }
};
static void sec_real_eintr(vf::Ctx& c) {
    int child_ms = c.rng.range(400, 700); g_storm_interval_us = c.rng.range(1000, 3000); int followers = c.rng.range(0, 2);
    bool child_fails = false;
    c.begin([=] { return vf::J().k("child_sleeps_ms", child_ms).k("sigalrm_interval_us", g_storm_interval_us).k("followers", followers).str(); });
    int giveup_failures = 0;
    int k0 = learn_eintr_bound(giveup_failures);
    if (k0 < 1) { c.violation("eintr-retry-unbounded", "waitpid() returning EINTR was retried more than 1000 times"); return; }
    std::vector<Plan> plans((size_t) (1 + followers));
    plans[0] = Plan(); plans[0].act = A_SLEEP_MS; plans[0].arg = child_ms; plans[0].where = W_BODY;
    std::map<const UtestShell*, Plan> pm; g_plans = &pm;
    std::vector<PlanShell*> shells; std::deque<std::string> names;
    TestRegistry reg; reg.setCurrentRegistry(&reg);
    for (size_t i = plans.size(); i-- > 0;) { names.push_back("t" + std::to_string(i)); PlanShell* sh = new PlanShell("G", names.back().c_str()); pm[sh] = plans[i]; shells.push_back(sh); reg.addTest(sh); }
    reg.setRunTestsInSeperateProcess();
    reset_pass_records(); g_alarms = 0; g_storm_child = -1; g_alarms_at_first_end = -1;
    struct sigaction sa, old; memset(&sa, 0, sizeof sa); sa.sa_handler = on_alarm; sa.sa_flags = 0; sigaction(SIGALRM, &sa, &old);
    real_fork = PlatformSpecificFork; real_waitpid = PlatformSpecificWaitPid;
    PlatformSpecificFork = storm_fork; PlatformSpecificWaitPid = rec_waitpid;
    size_t first_delta = 0, ended = 0;
    {
        StormOutput out; TestResult res(out);
        reg.runAllTests(res);
        ended = out.failures_at_end.size();
        if (!out.failures_at_end.empty()) first_delta = out.failures_at_end[0];
    }
    { struct itimerval off; memset(&off, 0, sizeof off); setitimer(ITIMER_REAL, &off, nullptr); }
    PlatformSpecificFork = real_fork; PlatformSpecificWaitPid = real_waitpid;
    sigaction(SIGALRM, &old, nullptr);
    if (g_storm_child > 0) { kill(g_storm_child, SIGKILL); int st; while (waitpid(g_storm_child, &st, 0) < 0 && errno == EINTR) {} }     // the parent may have given up on it
    reg.setCurrentRegistry(NULLPTR);
    for (PlanShell* sh : shells) delete sh;
    g_plans = nullptr;
    // what the seam saw for the first test
    size_t from = g_wait_mark.empty() ? 0 : g_wait_mark[0].from, to = g_wait_mark.size() > 1 ? g_wait_mark[1].from : g_waits.size();
    long eintr_seen = 0; bool final_status = false;
    for (size_t i = from; i < to; i++) { if (g_waits[i].ret < 0 && g_waits[i].err == EINTR) eintr_seen++; else if (g_waits[i].ret > 0) final_status = true; }
    long alarms = g_alarms_at_first_end >= 0 ? g_alarms_at_first_end : (long) g_alarms;
    c.count("real_eintr_results_seen_at_the_seam", (uint64_t) eintr_seen); c.count("real_sigalrm_deliveries_during_the_wait", (uint64_t) alarms);
    if (ended != plans.size()) c.violation("later-tests-not-run:real-eintr", "tests=" + std::to_string(plans.size()) + " ended=" + std::to_string(ended));
    if (eintr_seen >= k0) {           // the bounded retry logic must have given up: exactly one failure, no status decoded
        c.count("real_eintr_giveups");
        if (first_delta != 1) c.violation("eintr-giveup-not-one-failure:real", std::to_string(eintr_seen) + " real EINTR results (bound " + std::to_string(k0) + ") but the test got " + std::to_string(first_delta) + " failure(s)");
    } else if (eintr_seen == 0 && alarms >= k0 + 20 && final_status) {
        c.violation("real-eintr-swallowed-below-the-wait-seam", std::to_string(alarms) + " SIGALRM deliveries (handler without SA_RESTART) interrupted the parent while it waited, yet no EINTR reached the bounded retry logic and the wait went on until the child ended: interrupted waits are retried without bound");
    } else c.count("real_eintr_child_finished_before_the_bound");
    c.nontrivial("storm" + std::to_string(child_ms) + ":" + std::to_string(g_storm_interval_us) + ":" + std::to_string(followers));
}

// ---- scripted fork/waitpid
static int learn_eintr_bound(int& failures_at_giveup) {
    std::vector<Plan> one(1);
    g_script.assign(1200, Item{ 0, 0 }); g_pos = 0; g_calls = 0; g_overrun = false; g_fork_result = (int) getpid();
    CaseRun cr = run_plans(one, true);
    failures_at_giveup = (int) cr.total_failures;
    return g_overrun ? -1 : g_calls;
}

struct ScriptOutcome { size_t failures; size_t calls; int conts; };
static ScriptOutcome model_script(const std::vector<Item>& s, int k0) {
    ScriptOutcome o{ 0, 0, 0 };
    int eintr = 0;
    for (const Item& it : s) {
        o.calls++;
        if (it.kind == 0) { eintr++; if (eintr >= k0) { o.failures++; return o; } continue; }
        if (it.kind == 1) { o.failures++; return o; }
        int st = it.val;
        if (d_stopped(st)) { o.failures++; o.conts++; continue; }
        if (d_signaled(st)) { o.failures++; return o; }
        if (d_exited(st)) { if (d_exitcode(st)) o.failures++; return o; }
    }
    return o;
}
static std::string script_json(const std::vector<Item>& s) {
    std::vector<std::string> v;
    for (const Item& it : s) v.push_back(it.kind == 0 ? "\"EINTR\"" : it.kind == 1 ? "\"errno " + std::to_string(it.val) + "\"" : "\"status 0x" + vf::hexbytes(&it.val, 2) + "\"");
    return vf::jarr(v);
}

static Item terminal(vf::Rng& r, std::string& cls) {
    switch (r.below(4)) {
    case 0: cls = "exit0"; return Item{ 2, st_exited(0) };
    case 1: cls = "exitN"; return Item{ 2, st_exited(r.range(1, 255)) };
    case 2: cls = "signaled"; return Item{ 2, st_signaled(r.range(1, 64) == 64 ? 64 : r.range(1, 31), r.chance(30)) };
    default: {      // a failing wait, with whatever errno (EINTR excepted: that is the retry path)
        static const int E[] = { ECHILD, EINVAL, EPERM, ENOMEM, ENOSYS, EAGAIN, ESRCH, EFAULT, 0, -1 };
        int e = E[r.below(10)]; if (e < 0) { e = r.range(1, 133); if (e == EINTR) e = 134; }
        cls = std::string("wait-errno-") + errno_label(e); return Item{ 1, e };
    }
    }
}

static bool s_fork_fails; static int s_forkcount; static int s_fork_errno = -1;      // -1: the stub leaves errno alone (as the repository's own stub does)
static int first_fork_may_fail_stub() {
    g_wait_mark.push_back(ForkRec{ g_waits.size(), -1 }); g_forks++; g_stop_seen_in_test = false;
    if (s_forkcount++ == 0 && s_fork_fails) { if (s_fork_errno >= 0) errno = s_fork_errno; return -1; }
    return (int) getpid();
}

static void run_script_case(vf::Ctx& c, const std::vector<Item>& script, bool fork_fails, int followers, const std::string& cls, int fork_errno = -1) {
    int giveup_failures = 0;
    int k0 = learn_eintr_bound(giveup_failures);
    if (k0 < 0) { c.violation("eintr-retry-unbounded", "waitpid() returning EINTR was retried more than 1000 times"); return; }
    if (k0 < 1 || giveup_failures != 1) { c.violation("eintr-giveup-malformed", "bound=" + std::to_string(k0) + " failures at give-up=" + std::to_string(giveup_failures)); return; }
    c.count("eintr_bound_learned_sum", (uint64_t) k0); c.count("eintr_bound_learned_n");
    struct sigaction sa, old; memset(&sa, 0, sizeof sa); sa.sa_handler = on_cont; sigaction(SIGCONT, &sa, &old);
    g_sigcont = 0;
    std::vector<Plan> plans((size_t) (1 + followers));
    // followers consume an "exited 0" each
    std::vector<Item> full = script;
    ScriptOutcome want = fork_fails ? ScriptOutcome{ 1, 0, 0 } : model_script(script, k0);
    if (fork_fails) full.clear();                                               // no child: waitpid must not be called for this test
    else if (want.calls < script.size()) full.resize(want.calls);              // items after the terminal one are never consumed
    for (int i = 0; i < followers; i++) full.push_back(Item{ 2, st_exited(0) });
    g_script = full; g_pos = 0; g_calls = 0; g_overrun = false;
    // first test: fork result scripted; followers always fork "successfully"
    g_fork_result = fork_fails ? -1 : (int) getpid();
    s_fork_fails = fork_fails; s_forkcount = 0; s_fork_errno = fork_errno;
    if (fork_fails) { c.count("scripted_fork_failures"); c.count(std::string("scripted_fork_failures_errno_") + (fork_errno < 0 ? "untouched" : errno_label(fork_errno))); }
    for (const Item& it : script) if (it.kind == 1) { if (!fork_fails) c.count(std::string("scripted_wait_failures_errno_") + errno_label(it.val)); break; }
    CaseRun cr;
    {
        // custom fork stub: first call per case may fail
        std::map<const UtestShell*, Plan> pm; g_plans = &pm;
        std::vector<PlanShell*> shells; std::deque<std::string> names;
        TestRegistry reg; reg.setCurrentRegistry(&reg);
        for (size_t i = plans.size(); i-- > 0;) { names.push_back("t" + std::to_string(i)); PlanShell* s = new PlanShell("G", names.back().c_str()); shells.push_back(s); reg.addTest(s); }
        reg.setRunTestsInSeperateProcess();
        reset_pass_records();
        real_fork = PlatformSpecificFork; real_waitpid = PlatformSpecificWaitPid;
        PlatformSpecificFork = first_fork_may_fail_stub; PlatformSpecificWaitPid = scr_waitpid;
        {
            RecOutput out; TestResult res(out);
            reg.runAllTests(res);
            size_t prev = 0;
            for (size_t f : out.failures_at_end) { cr.deltas.push_back((long) (f - prev)); prev = f; }
            cr.total_failures = res.getFailureCount(); cr.run_count = res.getRunCount(); cr.is_failure = res.isFailure(); cr.ended = out.failures_at_end.size();
        }
        PlatformSpecificFork = real_fork; PlatformSpecificWaitPid = real_waitpid;
        reg.setCurrentRegistry(NULLPTR);
        for (PlanShell* s : shells) delete s;
        g_plans = nullptr;
    }
    sigaction(SIGCONT, &old, nullptr);
    size_t n = plans.size();
    if (cr.ended != n || cr.run_count != n || (size_t) g_forks != n)
        c.violation("later-tests-not-run:scripted:" + cls, "tests=" + std::to_string(n) + " ended=" + std::to_string(cr.ended) + " forks=" + std::to_string(g_forks));
    size_t first = cr.deltas.empty() ? 999 : (size_t) cr.deltas[0];
    if (first != want.failures)
        c.violation(std::string(first < want.failures ? "event-not-recorded" : "spurious-or-duplicate-failure") + ":scripted:" + cls, "script " + script_json(script) + (fork_fails ? " fork=-1" : "") + " expected " + std::to_string(want.failures) + " failure(s) for the test, got " + std::to_string(first));
    for (size_t i = 1; i < cr.deltas.size(); i++) if (cr.deltas[i] != 0) c.violation("follower-blamed:scripted:" + cls, "a normally completing follower got " + std::to_string(cr.deltas[i]) + " failure(s)");
    size_t want_calls = want.calls + (size_t) followers;
    if (g_overrun) c.violation("wait-loop-overran-script:" + cls, "waitpid called " + std::to_string(g_calls) + " times; the script " + script_json(script) + " ends after " + std::to_string(want.calls) + " (loop did not stop at the terminal outcome or retried without bound)");
    else if ((size_t) g_calls != want_calls) c.violation("waitpid-call-count:" + cls, "waitpid called " + std::to_string(g_calls) + " times, expected " + std::to_string(want_calls) + " for script " + script_json(script));
    if ((int) g_sigcont != want.conts) c.violation("sigcont-count:" + cls, "stop events in script: " + std::to_string(want.conts) + ", SIGCONT deliveries: " + std::to_string((int) g_sigcont));
    if (cr.is_failure != (want.failures > 0)) c.violation("overall-verdict-wrong:scripted:" + cls, "isFailure mismatch");
    // every stop of the script must arrive at a wait that asked for stop notifications: a child that stops k times is recorded k times
    if (g_blind_stop_waits)
        c.violation("stop-event-lost:wait-did-not-ask-for-stop-notifications:scripted:" + cls, std::to_string(g_blind_stop_waits) + " of the " + std::to_string(want.conts) + " stop event(s) of script " + script_json(script) + " arrived at a wait whose options lacked WUNTRACED: the kernel would not have reported them, the stopped child would never be continued and the parent would wait forever");
    c.count("scripted_waitpid_calls", (uint64_t) g_calls);
    c.count("scripted_stop_events", (uint64_t) want.conts);
    if (want.conts > 1) c.count("scripted_children_stopped_more_than_once");
    c.count("scripted_waits_after_a_reported_stop", (uint64_t) g_waits_after_stop);
    c.count("scripted_waits_after_a_reported_stop_asking_for_stops", (uint64_t) g_waits_after_stop_asking);
}

// EINTR^k followed by each terminal class: complete for k = 0..40
static void sec_eintr(vf::Ctx& c) {
    int k = (int) (c.idx % 41), term = (int) (c.idx / 41);
    std::vector<Item> s((size_t) k, Item{ 0, 0 });
    std::string cls;
    switch (term) {
    case 0: s.push_back(Item{ 2, st_exited(0) }); cls = "eintr+exit0"; break;
    case 1: s.push_back(Item{ 2, st_exited(3) }); cls = "eintr+exitN"; break;
    case 2: s.push_back(Item{ 2, st_signaled(11, true) }); cls = "eintr+signaled"; break;
    case 3: s.push_back(Item{ 1, ECHILD }); cls = "eintr+errno"; break;
    case 4: s.push_back(Item{ 2, st_stopped(19) }); s.push_back(Item{ 2, st_exited(0) }); cls = "eintr+stopped"; break;
    default:      // a child that stops twice, the interrupted waits between the two stops
        s.insert(s.begin(), Item{ 2, st_stopped(SIGSTOP) }); s.push_back(Item{ 2, st_stopped(SIGTSTP) }); s.push_back(Item{ 2, st_exited(0) }); cls = "stopped+eintr+stopped"; break;
    }
    int followers = (int) c.rng.below(3);
    c.begin([=] { return vf::J().k("eintr_run", k).k("class", cls).raw("script", script_json(s)).k("followers", followers).str(); });
    run_script_case(c, s, false, followers, cls);
    c.nontrivial(cls + std::to_string(k));
}

static void sec_scripts(vf::Ctx& c) {
    std::vector<Item> s; std::string cls, sig;
    bool fork_fails = c.rng.chance(8);
    int fork_errno = -1;
    if (fork_fails) { int k = (int) c.rng.below(N_FORK_ERRNOS + 1); fork_errno = k == N_FORK_ERRNOS ? -1 : FORK_ERRNOS[k] >= 0 ? FORK_ERRNOS[k] : c.rng.range(1, 133); }
    int shape = (int) c.rng.below(4);
    // (a) short EINTR prefix (well below any sane bound is not assumed: total EINTR kept <= 5), stops, terminal
    int stops = shape == 0 ? 0 : c.rng.range(0, 4);
    int eintr_budget = 5;
    for (int i = 0; i < stops; i++) {
        while (eintr_budget > 0 && c.rng.chance(30)) { s.push_back(Item{ 0, 0 }); eintr_budget--; }
        static const int SS[] = { SIGSTOP, SIGTSTP, SIGTTIN, SIGTTOU, 1, 64 };
        s.push_back(Item{ 2, st_stopped(SS[c.rng.below(6)]) });
    }
    while (eintr_budget > 0 && c.rng.chance(30)) { s.push_back(Item{ 0, 0 }); eintr_budget--; }
    std::string tcls; s.push_back(terminal(c.rng, tcls));
    // garbage after the terminal item must never be consumed
    if (c.rng.chance(40)) { s.push_back(Item{ 2, st_exited(9) }); s.push_back(Item{ 0, 0 }); }
    cls = fork_fails ? std::string("forkfail:errno-") + (fork_errno < 0 ? "untouched" : errno_label(fork_errno)) : std::string(stops ? "stops+" : "") + tcls;
    int followers = c.rng.range(0, 3);
    c.begin([=] { return vf::J().k("class", cls).k("fork_fails", fork_fails).k("fork_errno", fork_errno).raw("script", script_json(s)).k("followers", followers).str(); });
    run_script_case(c, s, fork_fails, followers, cls, fork_errno);
    errno = 0;
    c.nontrivial(script_json(s) + (fork_fails ? "F" + std::to_string(fork_errno) : ""));
}

int main(int argc, char** argv) {
    struct rlimit nocore = { 0, 0 }; setrlimit(RLIMIT_CORE, &nocore);     // children die of SIGSEGV/SIGABRT/SIGQUIT on purpose
    // Ignored signals and the signal mask are inherited across exec (nohup ignores SIGHUP, a non-interactive shell
    // ignores SIGINT/SIGQUIT for background jobs): start every signal from its default action, unblocked, so that
    // "raise(sig) kills the child" does not depend on how the check was launched.
    for (int sgn = 1; sgn < 32; sgn++) if (sgn != SIGKILL && sgn != SIGSTOP) signal(sgn, SIG_DFL);
    { sigset_t none; sigemptyset(&none); sigprocmask(SIG_SETMASK, &none, nullptr); }
    g_parent_pid = (int) getpid();
    std::vector<vf::Section> S = {
        { "real_signals_x_crashpoints", 31 * W_N, 31 * W_N, sec_signals, true },
        { "real_exit_statuses", 40, 512, sec_exit, false },
        { "real_checks_crashes_stops", 150, 3000, sec_misc, false },
        { "real_tests_failing_forks", 240, 4000, sec_fork_faults, false },
        { "real_eintr_storm", 8, 60, sec_real_eintr, false },
        { "scripted_eintr_runs", 41 * 6, 41 * 6, sec_eintr, true },
        { "scripted_fork_wait_sequences", 2000, 50000, sec_scripts, false },
    };
    return vf::harness_main(argc, argv, S);
}
