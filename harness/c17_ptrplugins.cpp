// C17 — pointers set for a test are restored after it; plugin actions nest properly.
//
// A case is a generated *program*: a universe of plugins (recording plugins, recording / plain
// SetPointerPlugins), a sequence of executions (chain operations, then one scripted test) grouped
// into runs of T tests over one private TestRegistry, and trailing chain operations. Runs go through
// TestRegistry::runAllTests directly or (section command_line_runner_programs) through
// CommandLineTestRunner::runAllTestsMain, which installs its own SetPointerPlugin and removes it by name.
// Sections: remove_by_name_enumerated, limit_enumerated, failing_actions_enumerated, unrestored_then_new_plugin_enumerated, flags_switched_while_a_test_runs_enumerated (all five complete), pointer_programs, chain_programs,
// command_line_runner_programs (random). Build variants: asan (exceptions) and asan-noexc (longjmp only).
//
// Oracles (all independent of the implementation):
//   * shadow copy of the 8 typed targets taken at the entry of the test's setup(); compared when
//     TestOutput::printCurrentTestEnded fires (= after the post actions); canaries between the targets
//   * limit: a 33rd UT_PTR_SET must leave the test (never complete) and the test must count a failure;
//     the table itself is watched by ASan (global red zone)
//   * plugin chain model: a list (install = push front, remove-by-name = erase that element) with
//     enabled flags; expected pre order = list order over enabled plugins, post = exact reverse;
//     structure (getFirstPlugin/getNext walk, countPlugins, isEnabled) compared after every operation,
//     behaviour (order log written by the plugins) compared after every test
//   * plugin actions with an effect on the test's result: in some executions recording plugins report a failure
//     for the test from their pre and/or post action (TestResult::addFailure, what MemoryLeakWarningPlugin /
//     MockSupportPlugin do in their post actions); the expected order is unchanged - every installed, enabled plugin
//     still sees the pre action and the mirrored post action (section failing_actions_enumerated: chains of 1..5 x
//     enabled mask x complaining position x pre/post/both/two failures x test ending; sprinkled over the random sections).
//     Failures added by plugin actions are counted by the harness and subtracted before the limit / spurious-failure oracles.
//   * history shape "unrestored redirections, then a NEW SetPointerPlugin object": tests may call UT_PTR_SET while no installed,
//     enabled SetPointerPlugin is in the chain (disabled / removed / never installed, or the command line runner's own plugin
//     disabled during a run). Nothing restores those pointers and the entries stay in the process-wide table; such tests are
//     NOT judged for restoration / limit (the statement presupposes the facility). The generators guarantee that the next test
//     that runs under an installed, enabled SetPointerPlugin is preceded by the construction of a new SetPointerPlugin object
//     (chain operation newPluginObject = per-scenario plugin object, or the next CommandLineTestRunner::runAllTestsMain call),
//     which empties the table; that test and all later ones are judged as usual: every pointer has, after the post actions,
//     the value it had before the test's first redirection, whatever happened to the location earlier in the process.
//     (Re-activating the OLD plugin object over unrestored entries replays them - out of scope, never generated.)
//   * enabled flags switched WHILE a test runs: scripts may call enable() / disable() on a plugin from any statement of setup / body / teardown, and recording
//     plugins may do so from their pre / post action. The model orders the events (pre actions head first, the test, post actions tail first) and notes the flag of
//     every plugin at the two moments its actions are due. Same flag at both moments: judged as always (both actions / neither, usual order). Different flag:
//     the statement does not say which moment counts ("disabled plugins see neither" vs. "post = exact reverse of pre"), so that plugin's own actions are only counted.
//     Pointers are judged when an installed SetPointerPlugin was enabled at every redirection of the test and one is enabled from the first to the last post action
//     (e.g. the test switches the installed, disabled plugin on and then redirects); otherwise the test is unjudged, and when no SetPointerPlugin was enabled at
//     post-action time its entries are unrestored entries as above.
#include "verif.h"
#include <memory>
#include <stdexcept>
#include <string>
#include <vector>

#include "CppUTest/TestHarness.h"
#include "CppUTest/TestHarness_c.h"
#include "CppUTest/TestRegistry.h"
#include "CppUTest/TestOutput.h"
#include "CppUTest/TestResult.h"
#include "CppUTest/TestPlugin.h"
#include "CppUTest/CommandLineTestRunner.h"

#ifdef VF_NOEXC
static const bool HAVE_EXC = false;
#else
static const bool HAVE_EXC = true;
#endif

// ================================================================ targets
typedef void (*VFn)(void);
typedef int (*IFn)(int);
struct Pod { int a; double b; };

static volatile int g_sink;
#define DEFV(n) static void vfn##n(void) { g_sink = n; }
#define DEFI(n) static int ifn##n(int x) { return x * 7 + n; }
DEFV(1) DEFV(2) DEFV(3) DEFV(4) DEFV(5) DEFV(6)
DEFI(1) DEFI(2) DEFI(3) DEFI(4) DEFI(5) DEFI(6)

static double DVAL[6] = { 1.5, 2.5, 3.5, 4.5, 5.5, 6.5 };
static int IVAL[6] = { 11, 12, 13, 14, 15, 16 };
static const char SVAL[6][4] = { "s1", "s2", "s3", "s4", "s5", "s6" };
static Pod PVAL[6];
static char BVAL[6];
static long AVAL[6];

static const int NT = 8;          // targets
static const int NV = 7;          // values per target (0 = NULL)
static const int LIMIT = 32;      // documented limit (SetPointerPlugin::MAX_SET)

struct TargetBlock {
    void* can0; VFn t0;
    void* can1; IFn t1;
    void* can2; double* t2;
    void* can3; int* t3;
    void* can4; const char* t4;
    void* can5; Pod* t5;
    void* can6; void* t6;
    void* can7; long* arr[3];     // target 7 is arr[1]; arr[0], arr[2] are neighbours that must never change
    void* can8;
};
static TargetBlock G;
static void* POOL[NT][NV];
static const char* TNAME[NT] = { "void(*)()", "int(*)(int)", "double*", "int*", "const char*", "struct*", "void*", "long*[1]" };

static void** taddr(int t) {
    switch (t) {
    case 0: return (void**) &G.t0; case 1: return (void**) &G.t1; case 2: return (void**) &G.t2; case 3: return (void**) &G.t3;
    case 4: return (void**) &G.t4; case 5: return (void**) &G.t5; case 6: return (void**) &G.t6; default: return (void**) &G.arr[1];
    }
}
static void* rd(int t) { void* v; memcpy(&v, taddr(t), sizeof v); return v; }
static void wr(int t, void* v) { memcpy(taddr(t), &v, sizeof v); }
static void** canaddr(int i) {
    switch (i) {
    case 0: return &G.can0; case 1: return &G.can1; case 2: return &G.can2; case 3: return &G.can3; case 4: return &G.can4;
    case 5: return &G.can5; case 6: return &G.can6; case 7: return &G.can7; case 8: return &G.can8;
    case 9: return (void**) &G.arr[0]; default: return (void**) &G.arr[2];
    }
}
static const int NCAN = 11;
static void* canval(int i) { return (void*) (uintptr_t) (0xC0DEC0DE00000000ull + (unsigned) i * 0x101u); }

static void init_pool() {
    VFn vf[6] = { vfn1, vfn2, vfn3, vfn4, vfn5, vfn6 };
    IFn fi[6] = { ifn1, ifn2, ifn3, ifn4, ifn5, ifn6 };
    for (int t = 0; t < NT; t++) POOL[t][0] = nullptr;
    for (int v = 0; v < 6; v++) {
        POOL[0][v + 1] = reinterpret_cast<void*>(vf[v]);
        POOL[1][v + 1] = reinterpret_cast<void*>(fi[v]);
        POOL[2][v + 1] = &DVAL[v]; POOL[3][v + 1] = &IVAL[v]; POOL[4][v + 1] = (void*) SVAL[v];
        POOL[5][v + 1] = &PVAL[v]; POOL[6][v + 1] = &BVAL[v]; POOL[7][v + 1] = &AVAL[v];
    }
}
static void reset_targets() {
    for (int i = 0; i < NCAN; i++) *canaddr(i) = canval(i);
    for (int t = 0; t < NT; t++) wr(t, POOL[t][1]);
}
static std::string pstr(void* p) { char b[32]; snprintf(b, sizeof b, "%p", p); return b; }
static std::string vname(int t, void* p) {
    for (int v = 0; v < NV; v++) if (POOL[t][v] == p) return "v" + std::to_string(v);
    return "foreign(" + pstr(p) + ")";
}

// the redirection itself, written the way a test writes it: typed lvalue, typed value
static void do_set(int t, int v) {
    void* p = POOL[t][v];
    switch (t) {
    case 0: UT_PTR_SET(G.t0, reinterpret_cast<VFn>(p)); break;
    case 1: UT_PTR_SET(G.t1, reinterpret_cast<IFn>(p)); break;
    case 2: UT_PTR_SET(G.t2, (double*) p); break;
    case 3: UT_PTR_SET(G.t3, (int*) p); break;
    case 4: UT_PTR_SET(G.t4, (const char*) p); break;
    case 5: UT_PTR_SET(G.t5, (Pod*) p); break;
    case 6: UT_PTR_SET(G.t6, p); break;
    default: UT_PTR_SET(G.arr[1], (long*) p); break;
    }
}

// ================================================================ program description
enum OpKind { OP_SET, OP_FAIL_CPP, OP_CHECK_CPP, OP_FAIL_C, OP_CHECK_C, OP_THROW_STD, OP_THROW_INT, OP_ENABLE, OP_DISABLE, OP_NKINDS };      // OP_ENABLE / OP_DISABLE: the test itself calls enable() / disable() on plugin `target` (index into the universe)
static const char* OPNAME[] = { "set", "FAIL", "CHECK(false)", "FAIL_TEXT_C", "CHECK_C(0)", "throw std::runtime_error", "throw 42", "enable", "disable" };
static const char* ENDCLASS[] = { "pass", "fail-cpp", "fail-cpp", "fail-c", "fail-c", "throw", "throw", "pass", "pass" };
struct Op { uint8_t kind, target, value; };
static bool is_toggle(int kind) { return kind == OP_ENABLE || kind == OP_DISABLE; }
static bool is_terminator(int kind) { return kind != OP_SET && !is_toggle(kind); }
// a recording plugin calls enable() / disable() on another plugin from its pre or post action
struct ActTog { int by; bool post; int target; bool enable; };

struct Script {
    std::vector<Op> ph[3];
    int8_t baseline[NT];                 // value index written to the target before the test starts (-1: keep)
    int premut_plugin = -1;              // this recording plugin rewrites one target in its pre action (still "before the first redirection")
    int premut_target = 0, premut_value = 0;
    uint32_t pre_fail = 0, post_fail = 0; // bit i: recording plugin i reports a failure for the test (result.addFailure) in its pre / post action
    int complaints = 1;                  // failures added per complaining action
    std::vector<ActTog> atog;            // enabled flags switched from plugin actions while this test runs
    std::vector<char> predicted;         // generator's prediction of all enabled flags after the test (only for scripts that switch flags; self-check of the generator, never an oracle)
    Script() { for (int i = 0; i < NT; i++) baseline[i] = -1; }
    bool switches_flags() const { if (!atog.empty()) return true; for (int p = 0; p < 3; p++) for (const Op& o : ph[p]) if (is_toggle(o.kind)) return true; return false; }
    size_t nsets() const { size_t n = 0; for (int p = 0; p < 3; p++) for (const Op& o : ph[p]) n += o.kind == OP_SET; return n; }
};

enum CK { C_INSTALL, C_REMOVE, C_ENABLE, C_DISABLE, C_ENABLE_BYNAME, C_DISABLE_BYNAME, C_RESET, C_NEWOBJ, C_NK };      // C_NEWOBJ: the (uninstalled) plugin object is replaced by a newly constructed one of the same kind and name
static const char* CKNAME[] = { "install", "removeByName", "enable", "disable", "enableByName", "disableByName", "resetPlugins", "newPluginObject" };
struct ChainOp { int kind; int plugin; std::string name; };      // plugin == -1: `name` is not the name of any plugin of the universe

enum PT { PT_REC, PT_SPP_REC, PT_SPP_PLAIN, PT_RUNNER_SPP };
static const char* PTNAME[] = { "recorder", "recording SetPointerPlugin", "plain SetPointerPlugin", "SetPointerPlugin installed by CommandLineTestRunner::runAllTestsMain" };
static bool is_spp(int type) { return type != PT_REC; }
static bool logs(int type) { return type == PT_REC || type == PT_SPP_REC; }
struct PluginSpec { std::string name; int type; };

struct Step { std::vector<ChainOp> ops; Script script; };
struct RunSpec { int reps = 1; std::vector<std::string> args; };
struct Program {
    std::vector<PluginSpec> U;
    std::vector<Step> steps;             // executions; a run covers T * reps consecutive steps
    int T = 1;
    bool runner = false;                 // runs go through CommandLineTestRunner::runAllTestsMain (which installs / removes its own SetPointerPlugin)
    std::vector<RunSpec> runs;
    std::vector<ChainOp> trailing;
    int runner_idx() const { for (size_t i = 0; i < U.size(); i++) if (U[i].type == PT_RUNNER_SPP) return (int) i; return -1; }
};

struct Model {
    std::vector<int> chain;              // head first
    std::vector<char> enabled;
    const Program* prog = nullptr;
    // redirections made while no installed, enabled SetPointerPlugin was in the chain: nothing restored them, their entries sit in the table
    bool stale = false;
    unsigned stale_mask = 0;             // targets with such an entry
    // ... and a new SetPointerPlugin object has been constructed over them (table emptied); cleared by the first test that runs under an active plugin
    bool discarded = false;
    unsigned discarded_mask = 0;
    explicit Model(const Program* P = nullptr) : enabled(P ? P->U.size() : 0, 1), prog(P) {}
    void fresh_object(int p) {           // a new plugin object takes the place of plugin p: enabled; a SetPointerPlugin constructor empties the table
        enabled[p] = 1;
        if (prog && is_spp(prog->U[p].type)) { if (stale) { discarded = true; discarded_mask |= stale_mask; } stale = false; stale_mask = 0; }
    }
    int pos(int p) const { for (size_t i = 0; i < chain.size(); i++) if (chain[i] == p) return (int) i; return -1; }
    bool spp_active(const Program& P) const { for (int p : chain) if (is_spp(P.U[p].type) && enabled[p]) return true; return false; }
    void apply(const ChainOp& o) {
        switch (o.kind) {
        case C_INSTALL: chain.insert(chain.begin(), o.plugin); break;
        case C_REMOVE: if (o.plugin >= 0) { int i = pos(o.plugin); if (i >= 0) chain.erase(chain.begin() + i); } break;
        case C_ENABLE: enabled[o.plugin] = 1; break;
        case C_DISABLE: enabled[o.plugin] = 0; break;
        case C_ENABLE_BYNAME: if (o.plugin >= 0 && pos(o.plugin) >= 0) enabled[o.plugin] = 1; break;
        case C_DISABLE_BYNAME: if (o.plugin >= 0 && pos(o.plugin) >= 0) enabled[o.plugin] = 0; break;
        case C_RESET: chain.clear(); break;
        case C_NEWOBJ: fresh_object(o.plugin); break;
        }
    }
    std::string str(const Program& P) const {
        std::string s;
        for (int p : chain) { s += P.U[p].name; s += enabled[p] ? "+" : "-"; s += is_spp(P.U[p].type) ? "*" : ""; s += ">"; }
        return s + "null";
    }
};

static std::string op_json(const ChainOp& o, const Program& P) {
    vf::J j; j.k("op", CKNAME[o.kind]);
    if (o.kind != C_RESET) { j.k("name", o.plugin >= 0 ? P.U[o.plugin].name : o.name); if (o.plugin < 0) j.k("absent", true); }
    return j.str();
}
static std::string script_json(const Script& s) {
    static const char* PH[3] = { "setup", "body", "teardown" };
    vf::J j;
    std::string b;
    for (int t = 0; t < NT; t++) { if (t) b += ","; b += std::to_string((int) s.baseline[t]); }
    j.raw("baseline", "[" + b + "]");
    if (s.premut_plugin >= 0) j.raw("pre_action_rewrites", vf::J().k("plugin", s.premut_plugin).k("target", s.premut_target).k("value", s.premut_value).str());
    if (s.pre_fail | s.post_fail) {
        auto bits = [](uint32_t m) { std::string x; for (int i = 0; i < 32; i++) if (m >> i & 1) { if (!x.empty()) x += ","; x += std::to_string(i); } return x; };
        j.raw("plugin_actions_reporting_a_failure", vf::J().k("pre_action_of_plugins", bits(s.pre_fail)).k("post_action_of_plugins", bits(s.post_fail)).k("failures_each", s.complaints).str());
    }
    if (!s.atog.empty()) {
        std::vector<std::string> v;
        for (const ActTog& a : s.atog) v.push_back(vf::J().k("action", a.post ? "post" : "pre").k("of_plugin", a.by).k("calls", a.enable ? "enable" : "disable").k("on_plugin", a.target).str());
        j.raw("plugin_actions_switching_enabled_flags", vf::jarr(v));
    }
    for (int p = 0; p < 3; p++) {
        std::string a;
        for (const Op& o : s.ph[p]) {
            if (!a.empty()) a += " ";
            if (o.kind == OP_SET) a += "T" + std::to_string(o.target) + "=v" + std::to_string(o.value);
            else if (is_toggle(o.kind)) a += std::string(OPNAME[o.kind]) + "(plugin#" + std::to_string(o.target) + ")";
            else a += std::string("<") + OPNAME[o.kind] + ">";
        }
        j.k(PH[p], a);
    }
    return j.str();
}
static std::string prog_json(const Program& P) {
    std::vector<std::string> u, st, tr;
    for (const PluginSpec& p : P.U) u.push_back(vf::J().k("name", p.name).k("type", PTNAME[p.type]).str());
    for (const Step& s : P.steps) {
        std::vector<std::string> ops;
        for (const ChainOp& o : s.ops) ops.push_back(op_json(o, P));
        st.push_back(vf::J().raw("ops", vf::jarr(ops)).raw("test", script_json(s.script)).str());
    }
    for (const ChainOp& o : P.trailing) tr.push_back(op_json(o, P));
    std::vector<std::string> rs;
    for (const RunSpec& r : P.runs) { std::string a; for (const std::string& x : r.args) { if (!a.empty()) a += " "; a += x; } rs.push_back(vf::J().k("repetitions", r.reps).k("args", a).str()); }
    return vf::J().raw("plugins", vf::jarr(u)).k("tests_in_registry", P.T).k("through_command_line_runner", P.runner).raw("runs", vf::jarr(rs)).raw("executions", vf::jarr(st)).raw("trailing_ops", vf::jarr(tr)).str();
}

// ================================================================ runtime state of the running case (static, no allocation inside tests)
enum LK { L_PRE, L_POST, L_TEST };
struct LogE { uint8_t kind; int8_t plugin; int16_t test; };
static const int LOGMAX = 8192;
static LogE g_log[LOGMAX];
static int g_nlog;
static bool g_log_overflow;
static void logev(int kind, int plugin, int test) {
    if (g_nlog >= LOGMAX) { g_log_overflow = true; return; }
    g_log[g_nlog].kind = (uint8_t) kind; g_log[g_nlog].plugin = (int8_t) plugin; g_log[g_nlog].test = (int16_t) test; g_nlog++;
}

struct ExecRec {
    int attempted, completed, terminators;
    int last_term_kind;
    int att_target[NT], done_target[NT];
    bool snapshot_taken;
    void* before[NT];
    int teardown_entered;
    int plugin_failures;                 // failures added to the TestResult by plugin actions of this execution (not by the test)
    int pre_complaints, post_complaints; // plugin actions that reported a failure
    int sets_on, sets_off;               // UT_PTR_SETs attempted while an installed SetPointerPlugin was enabled / while none was (the flag may change while the test runs)
    void* first_was[NT];                 // value of the location right before this test's first completed redirection of it
    // enable() / disable() calls made by the test itself (setup / body / teardown), in execution order
    struct { int8_t plugin; int8_t en; } tog[32];
    int ntog;
    int tog_setup, tog_body, tog_teardown, tog_by_pre_action, tog_by_post_action, tog_dropped;
};

class ScriptShell;
struct Run {
    vf::Ctx* c = nullptr;
    const Program* P = nullptr;
    Model M;
    TestRegistry* reg = nullptr;
    std::vector<TestPlugin*> plug;       // nullptr: not known / not alive (the runner's own SetPointerPlugin outside a run)
    std::vector<std::unique_ptr<TestPlugin>> own;   // the plugin objects of the universe (slot of the runner's plugin stays empty)
    void* unrestored_orig[NT];           // value each location had before its first unrestored redirection (what a replay of the stale entries would write)
    size_t failures = 0;                 // failures printed so far (TestOutput::printFailure)
    size_t run_first_exec = 0;
    UtestShell* cur_shell = nullptr;
    std::vector<ScriptShell*> shells;
    size_t exec = 0;
    const Script* script = nullptr;      // script of the test being executed
    ExecRec E;
    bool abandoned = false;              // a structural violation was reported: stop judging (avoid cascades)
    // per execution
    int log_start = 0;
    size_t failures_before = 0;
    int cur_test_id = -1;
    std::vector<int> exp_pre;
    Model M_at_test;
};
static Run* g_run;

// ================================================================ scripted test
// enable() / disable() called while a test is running (by the test or by a plugin action); the model follows the call
static bool switch_flag(int p, bool en) {
    Run& g = *g_run;
    if (p < 0 || p >= (int) g.plug.size() || !g.plug[p]) return false;      // no live object (never generated)
    if (en) g.plug[p]->enable(); else g.plug[p]->disable();
    g.M.enabled[p] = en;
    return true;
}
static void run_phase(int ph) {
    Run& g = *g_run;
    if (!g.script || g.abandoned) return;
    ExecRec& E = g.E;
    if (ph == 0) {
        for (int t = 0; t < NT; t++) E.before[t] = rd(t);     // "the value it had before the test's first redirection"
        E.snapshot_taken = true;
        logev(L_TEST, -1, g.cur_test_id);
    }
    if (ph == 2) E.teardown_entered++;
    const std::vector<Op>& ops = g.script->ph[ph];
    const size_t n = ops.size();
    for (size_t i = 0; i < n; i++) {
        const Op o = ops[i];
        switch (o.kind) {
        case OP_SET:
            E.attempted++; E.att_target[o.target]++;
            if (g.M.spp_active(*g.P)) E.sets_on++; else E.sets_off++;
            {
                void* was = rd(o.target);
                do_set(o.target, o.value);
                if (E.done_target[o.target] == 0) E.first_was[o.target] = was;
            }
            E.completed++; E.done_target[o.target]++;
            break;
        case OP_ENABLE:
        case OP_DISABLE:
            if (switch_flag(o.target, o.kind == OP_ENABLE)) {
                if (E.ntog < 32) { E.tog[E.ntog].plugin = (int8_t) o.target; E.tog[E.ntog].en = o.kind == OP_ENABLE; E.ntog++; } else E.tog_dropped++;
                if (ph == 0) E.tog_setup++; else if (ph == 1) E.tog_body++; else E.tog_teardown++;
            }
            break;
        case OP_FAIL_CPP: E.terminators++; E.last_term_kind = o.kind; FAIL("c17 scripted FAIL"); break;
        case OP_CHECK_CPP: E.terminators++; E.last_term_kind = o.kind; CHECK(g_sink == -12345); break;
        case OP_FAIL_C: E.terminators++; E.last_term_kind = o.kind; FAIL_TEXT_C("c17 scripted FAIL_TEXT_C"); break;
        case OP_CHECK_C: E.terminators++; E.last_term_kind = o.kind; CHECK_C(g_sink == -12345); break;
#ifndef VF_NOEXC
        case OP_THROW_STD: E.terminators++; E.last_term_kind = o.kind; throw std::runtime_error("c17 scripted exception");
        case OP_THROW_INT: E.terminators++; E.last_term_kind = o.kind; throw 42;
#endif
        default: break;
        }
    }
}

class ScriptTest : public Utest {
public:
    void setup() CPPUTEST_OVERRIDE { run_phase(0); }
    void testBody() CPPUTEST_OVERRIDE { run_phase(1); }
    void teardown() CPPUTEST_OVERRIDE { run_phase(2); }
};
static const char* TESTNAMES[] = { "t0", "t1", "t2", "t3", "t4", "t5", "t6", "t7" };
class ScriptShell : public UtestShell {
public:
    int id;
    explicit ScriptShell(int i) : UtestShell("C17", TESTNAMES[i], "c17_script.cpp", (size_t) (100 + i)), id(i) {}
    virtual Utest* createTest() CPPUTEST_OVERRIDE { return new ScriptTest; }
};
static int shell_id(UtestShell& t) {
    Run& g = *g_run;
    for (ScriptShell* s : g.shells) if (static_cast<UtestShell*>(s) == &t) return s->id;
    return -2;
}

// ================================================================ recording plugins
// a plugin action that reports a failure for the test, the way the stock plugins do it (TestResult::addFailure with a TestFailure naming the test)
static void plugin_complain(int idx, UtestShell& t, TestResult& r, bool pre) {
    Run& g = *g_run;
    if (!g.script || g.abandoned) return;
    uint32_t m = pre ? g.script->pre_fail : g.script->post_fail;
    if (idx < 0 || idx >= 32 || !(m >> idx & 1)) return;
    for (int k = 0; k < g.script->complaints; k++) {
        g.E.plugin_failures++;
        r.addFailure(TestFailure(&t, pre ? "c17: pre action of a plugin reports a failure" : "c17: post action of a plugin reports a failure"));
    }
    if (pre) g.E.pre_complaints++; else g.E.post_complaints++;
}
static void plugin_switches(int idx, bool post) {
    Run& g = *g_run;
    if (!g.script || g.abandoned) return;
    const std::vector<ActTog>& v = g.script->atog;
    for (size_t i = 0; i < v.size(); i++)
        if (v[i].by == idx && v[i].post == post && switch_flag(v[i].target, v[i].enable)) { if (post) g.E.tog_by_post_action++; else g.E.tog_by_pre_action++; }
}
static void plugin_pre(int idx, UtestShell& t, TestResult& r) {
    Run& g = *g_run;
    logev(L_PRE, idx, shell_id(t));
    if (g.script && g.script->premut_plugin == idx) wr(g.script->premut_target, POOL[g.script->premut_target][g.script->premut_value]);
    plugin_switches(idx, false);
    plugin_complain(idx, t, r, true);
}
static void plugin_post(int idx, UtestShell& t, TestResult& r) {
    logev(L_POST, idx, shell_id(t));
    plugin_switches(idx, true);
    plugin_complain(idx, t, r, false);
}
class RecPlugin : public TestPlugin {
public:
    int idx;
    RecPlugin(const SimpleString& name, int i) : TestPlugin(name), idx(i) {}
    virtual void preTestAction(UtestShell& t, TestResult& r) CPPUTEST_OVERRIDE { plugin_pre(idx, t, r); }
    virtual void postTestAction(UtestShell& t, TestResult& r) CPPUTEST_OVERRIDE { plugin_post(idx, t, r); }
};
class RecSPP : public SetPointerPlugin {
public:
    int idx;
    RecSPP(const SimpleString& name, int i) : SetPointerPlugin(name), idx(i) {}
    virtual void preTestAction(UtestShell& t, TestResult& r) CPPUTEST_OVERRIDE { plugin_pre(idx, t, r); }
    virtual void postTestAction(UtestShell& t, TestResult& r) CPPUTEST_OVERRIDE { plugin_post(idx, t, r); SetPointerPlugin::postTestAction(t, r); }
};

// ================================================================ structural check after a chain operation
static const char* posclass(int pos, size_t len) {
    if (pos < 0) return "absent";
    if (pos == 0) return "head";
    if (pos == 1) return "depth1";
    (void) len;
    return "deep";
}

// returns false when the chain no longer matches the model (violation already reported)
static bool check_structure(Run& g, const ChainOp& op, const Model& before, int oppos, TestPlugin* dead = nullptr) {
    vf::Ctx& c = *g.c;
    c.count("structural_checks");
    std::vector<TestPlugin*> walk;
    TestPlugin* p = g.reg->getFirstPlugin();
    int steps = 0;
    bool dangling = false;            // `dead` is a plugin object that no longer exists (the runner's own plugin after the run): never dereferenced
    while (p && p != NullTestPlugin::instance() && steps < 64) { if (p == dead) { dangling = true; break; } walk.push_back(p); p = p->getNext(); steps++; }
    bool corrupt = p != NullTestPlugin::instance();
    std::vector<TestPlugin*> want, was;
    for (int i : g.M.chain) want.push_back(g.plug[i]);
    for (int i : before.chain) was.push_back(g.plug[i]);
    auto names = [&](const std::vector<TestPlugin*>& v) { std::string s; for (TestPlugin* q : v) { s += q->getName().asCharString(); s += ">"; } return s; };
    std::string ctx = "chain before: " + before.str(*g.P) + "; operation " + op_json(op, *g.P) + "; expected " + names(want) + "null; observed " + names(walk) + (dangling ? "<the destroyed plugin of the command line runner is still linked here>" : corrupt ? (p ? "<unterminated>" : "<NULL link>") : "null");
    bool ok = true;
    if (corrupt || walk != want) {
        ok = false;
        std::string key;
        if (op.kind == C_REMOVE) {
            std::string eff = dangling ? "nothing-removed" : corrupt ? "chain-corrupt" : (walk == was ? "nothing-removed" : (oppos < 0 ? "absent-name-removed-something" : "wrong-or-extra-plugin-removed"));
            key = std::string("remove-by-name:pos=") + posclass(oppos, before.chain.size()) + ":" + eff;
        } else if (op.kind == C_INSTALL) key = corrupt ? "install:chain-corrupt" : "install:chain-wrong";
        else if (op.kind == C_RESET) key = "reset-plugins:chain-not-empty";
        else key = std::string("chain-changed-by:") + CKNAME[op.kind];
        c.violation(key, ctx);
    } else {
        int n = g.reg->countPlugins();
        if (n != (int) want.size()) { ok = false; c.violation("count-plugins-wrong", ctx + "; countPlugins()=" + std::to_string(n)); }
    }
    if (ok) {
        for (size_t i = 0; i < g.plug.size(); i++)
            if (g.plug[i] && g.plug[i]->isEnabled() != (bool) g.M.enabled[i]) {
                ok = false;
                c.violation(std::string("enabled-flag-wrong-after:") + CKNAME[op.kind], ctx + "; plugin " + g.P->U[i].name + " isEnabled()=" + std::to_string(g.plug[i]->isEnabled()));
                break;
            }
    }
    return ok;
}

static TestPlugin* make_plugin(const PluginSpec& u, int i) {
    if (u.type == PT_REC) return new RecPlugin(u.name.c_str(), i);
    if (u.type == PT_SPP_REC) return new RecSPP(u.name.c_str(), i);
    if (u.type == PT_SPP_PLAIN) return new SetPointerPlugin(u.name.c_str());
    return nullptr;
}

static void apply_op(Run& g, const ChainOp& op, bool between_tests) {
    if (g.abandoned) return;
    vf::Ctx& c = *g.c;
    const Program& P = *g.P;
    Model before = g.M;
    int oppos = op.plugin >= 0 ? before.pos(op.plugin) : -1;
    std::string nm = op.plugin >= 0 ? P.U[op.plugin].name : op.name;
    switch (op.kind) {
    case C_INSTALL: g.reg->installPlugin(g.plug[op.plugin]); c.count("chain_op_install"); break;
    case C_REMOVE:
        g.reg->removePluginByName(nm.c_str());
        c.count(oppos >= 0 ? "chain_op_remove_present" : "chain_op_remove_absent");
        if (oppos >= 0) {
            c.count(std::string("remove_pos_") + posclass(oppos, before.chain.size()));
            if (oppos == (int) before.chain.size() - 1) c.count("remove_pos_is_tail");
        } else c.count(op.plugin >= 0 ? "remove_absent_name_of_uninstalled_plugin" : "remove_absent_foreign_name");
        break;
    case C_ENABLE: g.plug[op.plugin]->enable(); c.count("chain_op_enable"); break;
    case C_DISABLE: g.plug[op.plugin]->disable(); c.count("chain_op_disable"); break;
    case C_ENABLE_BYNAME:
    case C_DISABLE_BYNAME: {
        TestPlugin* q = g.reg->getPluginByName(nm.c_str());
        TestPlugin* want = oppos >= 0 ? g.plug[op.plugin] : nullptr;
        c.count("chain_op_lookup_by_name");
        if (q != want) { c.count("lookup_by_name_mismatch_observed"); q = want; }     // the lookup itself is not part of C17: observed only
        if (q) { if (op.kind == C_ENABLE_BYNAME) q->enable(); else q->disable(); c.count(op.kind == C_ENABLE_BYNAME ? "chain_op_enable_by_name" : "chain_op_disable_by_name"); }
        else c.count("lookup_absent_returned_null");
        break;
    }
    case C_RESET: g.reg->resetPlugins(); c.count("chain_op_reset"); break;
    case C_NEWOBJ:
        if (oppos >= 0 || P.U[op.plugin].type == PT_RUNNER_SPP) { c.count("new_plugin_object_for_an_installed_plugin_skipped"); return; }    // caller obligation (never generated): an installed object must not be destroyed
        g.own[op.plugin].reset(make_plugin(P.U[op.plugin], op.plugin));       // the new object is constructed first, then the old one is destroyed
        g.plug[op.plugin] = g.own[op.plugin].get();
        c.count("chain_op_new_plugin_object");
        if (is_spp(P.U[op.plugin].type)) {
            c.count("new_set_pointer_plugin_objects_constructed");
            if (g.M.stale) { c.count("new_set_pointer_plugin_objects_constructed_over_unrestored_entries"); c.count("new_set_pointer_plugin_object_over_unrestored_entries_by_chain_operation"); }
        }
        break;
    }
    g.M.apply(op);
    if (between_tests) c.count("chain_ops_between_tests_of_one_run"); else c.count("chain_ops_between_runs");
    if (oppos >= 2 && (op.kind == C_REMOVE || op.kind == C_ENABLE || op.kind == C_DISABLE || op.kind == C_ENABLE_BYNAME || op.kind == C_DISABLE_BYNAME)) {
        c.nontrivial("chainop|" + before.str(P) + "|" + CKNAME[op.kind] + "|" + std::to_string(oppos));
        c.count("chain_ops_at_depth_ge2");
    }
    if (!check_structure(g, op, before, oppos)) {
        g.abandoned = true;
        g.reg->resetPlugins();     // make the rest of the run harmless
    }
}

// ================================================================ judging one test execution
// enabled_then: the enabled flag each plugin had when its action was due (= the flag at the start of the test unless flags were switched while the test ran)
static void judge_order(Run& g, const char* which, const std::vector<int>& act, const std::vector<int>& exp, const std::string& ctx, const std::vector<char>& enabled_then, const std::string& shape) {
    if (act == exp) return;
    vf::Ctx& c = *g.c;
    Model M = g.M_at_test;
    M.enabled = enabled_then;
    auto has = [](const std::vector<int>& v, int x) { return std::find(v.begin(), v.end(), x) != v.end(); };
    std::string key;
    for (int a : act) if (M.pos(a) < 0) { key = std::string("called-while-not-installed:") + which; break; }
    if (key.empty()) for (int a : act) if (!M.enabled[a]) { key = std::string("disabled-plugin-called:") + which; break; }
    if (key.empty()) for (size_t i = 0; i < act.size(); i++) if (std::count(act.begin(), act.end(), act[i]) > 1) { key = std::string("plugin-called-twice:") + which; break; }
    if (key.empty()) for (int e : exp) if (!has(act, e)) {
        key = std::string("enabled-plugin-skipped:") + which;
        // a different history shape (and defect class): the chain walk reacted to a failure that a plugin action reported
        bool is_pre = std::string(which) == "pre";
        if (!is_pre && g.E.post_complaints) key += ":after-a-post-action-reported-a-failure";
        else if (g.E.pre_complaints) key += ":after-a-pre-action-reported-a-failure";
        break;
    }
    if (key.empty()) key = std::string(which) == "pre" ? "order:pre-not-installation-reversed" : "order:post-not-reverse-of-pre";
    auto lst = [&](const std::vector<int>& v) { std::string s; for (int x : v) { s += (x >= 0 && x < (int) g.P->U.size()) ? g.P->U[x].name : "?"; s += " "; } return s; };
    c.violation(key + shape, ctx + "; " + which + " actions expected [" + lst(exp) + "] observed [" + lst(act) + "]");
}

static const char* setsclass(int attempted) { return attempted > LIMIT ? "overflow" : "le32"; }



static void on_test_start(UtestShell* t) {
    Run& g = *g_run;
    if (g.exec >= g.P->steps.size()) { g.script = nullptr; return; }
    const Step& st = g.P->steps[g.exec];
    vf::Ctx& c = *g.c;
    if (g.exec != g.run_first_exec) for (const ChainOp& o : st.ops) apply_op(g, o, true);
    else if (g.P->runner && !g.abandoned) {
        // the runner has just installed its own SetPointerPlugin: it must be the head of the chain
        int ri = g.P->runner_idx();
        TestPlugin* head = g.reg->getFirstPlugin();
        ChainOp o; o.kind = C_INSTALL; o.plugin = ri;
        Model before = g.M; before.chain.erase(before.chain.begin());
        if (head && head != NullTestPlugin::instance() && strcmp(head->getName().asCharString(), DEF_PLUGIN_SET_POINTER) == 0) {
            g.plug[ri] = head;
            if (!check_structure(g, o, before, -1)) { g.abandoned = true; g.reg->resetPlugins(); }
        } else {
            c.violation("install:chain-wrong", "the SetPointerPlugin installed by the command line runner is not the first plugin; chain before: " + before.str(*g.P));
            g.abandoned = true; g.reg->resetPlugins();
        }
    }
    if (g.abandoned) { g.script = nullptr; return; }
    for (int i = 0; i < NT; i++) if (st.script.baseline[i] >= 0) { wr(i, POOL[i][st.script.baseline[i]]); c.count("baseline_rewritten_between_tests"); }
    memset(&g.E, 0, sizeof g.E);
    g.script = &st.script;
    g.log_start = g_nlog;
    g.failures_before = g.failures;
    g.cur_shell = t;
    g.cur_test_id = shell_id(*t);
    g.M_at_test = g.M;
    g.exp_pre.clear();          // computed when the test has ended (on_test_end): enabled flags may be switched while the test runs
}

static void on_test_end() {
    Run& g = *g_run;
    if (!g.script || g.abandoned) { g.exec++; g.script = nullptr; return; }
    UtestShell* t = g.cur_shell;
    vf::Ctx& c = *g.c;
    const Program& P = *g.P;
    ExecRec& E = g.E;
    const Script& S = *g.script;
    size_t fails_all = g.failures - g.failures_before;
    size_t fails = fails_all >= (size_t) E.plugin_failures ? fails_all - (size_t) E.plugin_failures : 0;     // failures reported by the test itself
    const char* ending = E.terminators == 0 ? (E.attempted > LIMIT ? "limit-fail" : "pass") : ENDCLASS[E.last_term_kind];
    std::string ctx = "execution " + std::to_string(g.exec) + " (test t" + std::to_string(g.cur_test_id) + "), chain " + g.M_at_test.str(P) + ", UT_PTR_SETs attempted " + std::to_string(E.attempted) +
                      " completed " + std::to_string(E.completed) + ", ending " + ending + ", failures counted " + std::to_string(fails) +
                      (E.plugin_failures ? " (+" + std::to_string(E.plugin_failures) + " reported by " + std::to_string(E.pre_complaints) + " pre / " + std::to_string(E.post_complaints) + " post actions of plugins)" : "");
    c.count("tests_executed");
    c.count(std::string("tests_ending_") + ending);
    if (E.terminators > 1) c.count("tests_with_two_failing_phases");
    if (E.teardown_entered) c.count("teardown_entered");

    // ---------------- enabled flags switched while the test ran (by the test itself or by plugin actions): what was each plugin's flag when its actions were due?
    // Model of the sequence only: pre actions head first, then the test, then post actions tail first; an action that is due is decided by the flag at that moment.
    // A plugin whose flag differs between its two decision points ("unsettled": enabled at pre-action time and disabled at post-action time or vice versa) is
    // NOT judged - the statement ("disabled plugins see neither", "post = exact reverse of pre") does not say which of the two moments counts for it. Every other
    // plugin has one unambiguous flag for this test and is judged as usual; plugins that switch flags from their actions are never themselves switched (guarded).
    const Model& MT = g.M_at_test;
    const size_t NU = P.U.size();
    std::vector<char> fl = MT.enabled, pre_dec(NU, 0), post_dec(NU, 0), switched(NU, 0);
    auto actions_of = [&](int p, bool post) { for (const ActTog& a : S.atog) if (a.by == p && a.post == post && a.target >= 0 && a.target < (int) NU && g.plug[a.target]) { if (fl[a.target] != (char) a.enable) switched[a.target] = 1; fl[a.target] = a.enable; } };
    for (int p : MT.chain) { pre_dec[p] = fl[p]; if (fl[p] && logs(P.U[p].type)) actions_of(p, false); }
    for (int i = 0; i < E.ntog; i++) { int p = E.tog[i].plugin; if (fl[p] != (char) E.tog[i].en) switched[p] = 1; fl[p] = E.tog[i].en; }
    const std::vector<char> post_start = fl;
    for (auto it = MT.chain.rbegin(); it != MT.chain.rend(); ++it) { int p = *it; post_dec[p] = fl[p]; if (fl[p] && logs(P.U[p].type)) actions_of(p, true); }
    const std::vector<char>& post_end = fl;
    bool any_switch = false, installed_switch = false, spp_switched = false, unsettled_any = false, ambiguous = E.tog_dropped > 0;
    std::vector<char> settled(NU, 1);
    for (size_t p = 0; p < NU; p++) {
        if (switched[p]) { any_switch = true; if (MT.pos((int) p) >= 0) { installed_switch = true; if (is_spp(P.U[p].type)) spp_switched = true; } }
        if (MT.pos((int) p) >= 0 && pre_dec[p] != post_dec[p]) { settled[p] = 0; unsettled_any = true; }
    }
    for (const ActTog& a : S.atog) if (a.by >= 0 && a.by < (int) NU && MT.pos(a.by) >= 0 && (!settled[a.by] || switched[a.by])) ambiguous = true;      // never generated
    bool consumed = false, post_on = false;      // consumed: some installed SetPointerPlugin was enabled when its post action was due; post_on: ... and enabled from the first to the last post action
    for (int p : MT.chain) if (is_spp(P.U[p].type)) { if (post_dec[p]) consumed = true; if (post_start[p] && post_dec[p] && post_end[p]) post_on = true; }
    if (ambiguous) c.count("tests_unjudged_a_plugin_that_switches_flags_was_itself_switched");       // expected 0
    for (int p : MT.chain) if (pre_dec[p] && logs(P.U[p].type) && settled[p]) g.exp_pre.push_back(p);     // installation-reversed = head first

    // ---------------- scope: the facility is the plugin plus the macro
    // (a) redirections without an installed, enabled SetPointerPlugin: nothing restores them (expected), their entries stay in the table
    // (b) an OLD plugin object active over such entries replays them (unchanged code too): never generated, guarded here
    // (c) flags switched while the test runs: judged when an installed SetPointerPlugin was enabled at every redirection of the test and one is enabled
    //     from the first to the last post action ("every pointer a test redirects through the facility ... after the test's post actions"); otherwise unjudged
    const bool active = post_on && consumed && E.sets_off == 0 && !ambiguous;
    const bool unjudged = (E.attempted > 0 && !active) || (MT.stale && consumed) || ambiguous;
    const bool fresh = active && !MT.stale && MT.discarded;       // first judged test after a new SetPointerPlugin object was constructed over unrestored entries
    const std::string shape = fresh ? ":after-unrestored-redirections-and-a-new-plugin-object" : spp_switched ? ":set-pointer-plugin-switched-while-the-test-ran" : "";
    const std::string oshape = installed_switch ? ":flags-switched-while-the-test-ran" : "";
    if (fresh) ctx += "; earlier tests redirected pointers while no enabled SetPointerPlugin was installed (never restored), then a new SetPointerPlugin object was constructed";
    if (any_switch) {
        ctx += "; enabled flags switched while the test ran (" + std::to_string(E.ntog) + " calls by the test, " + std::to_string(E.tog_by_pre_action) + " by pre actions, " + std::to_string(E.tog_by_post_action) + " by post actions): flags at the start of the test / when the pre action was due / when the post action was due / after the test:";
        for (int p : MT.chain) { ctx += " " + P.U[p].name + "=" + (MT.enabled[p] ? "1" : "0") + (pre_dec[p] ? "1" : "0") + (post_dec[p] ? "1" : "0") + (post_end[p] ? "1" : "0"); }
        ctx += "; UT_PTR_SETs with / without an enabled SetPointerPlugin " + std::to_string(E.sets_on) + " / " + std::to_string(E.sets_off);
    }
    if (E.attempted > 0 && !active) {
        c.count("tests_redirecting_without_an_active_set_pointer_plugin_unjudged");
        if (spp_switched) c.count("tests_redirecting_with_the_set_pointer_plugin_switched_meanwhile_unjudged");
        if (consumed) c.count("tests_unjudged_but_restored_by_an_enabled_plugin_at_post_action_time");
    }
    if (E.attempted > 0 && !consumed) {
        c.count("redirections_left_unrestored", (uint64_t) E.completed);
        if (E.terminators == 0 && fails > 0) c.count("table_filled_up_by_unrestored_redirections_test_failed");
        for (int i = 0; i < NT; i++) if (E.done_target[i] > 0 && rd(i) != E.before[i]) c.count("unrestored_locations_left_with_the_redirected_value");
    }
    if ((E.completed > 0 && !consumed) || (ambiguous && E.completed > 0)) {
        for (int i = 0; i < NT; i++) if (E.done_target[i] > 0) { if (!(g.M.stale_mask >> i & 1)) g.unrestored_orig[i] = E.first_was[i]; g.M.stale_mask |= 1u << i; }
        g.M.stale = true;
    }
    if (consumed && MT.stale) c.count("tests_under_an_old_plugin_object_over_unrestored_entries_unjudged");      // expected 0
    if (consumed) { g.M.discarded = false; g.M.discarded_mask = 0; }
    if (fresh) {
        c.count("tests_judged_under_a_new_plugin_object_after_unrestored_redirections");
        bool same = false; int visible = 0;
        for (int i = 0; i < NT; i++) if (MT.discarded_mask >> i & 1) {
            if (E.done_target[i] > 0) same = true;
            if (E.snapshot_taken && g.unrestored_orig[i] != E.before[i]) visible++;      // a replay of the discarded entry would be seen
        }
        if (same) c.count("tests_redirecting_a_location_with_a_discarded_unrestored_entry");
        c.count("discarded_unrestored_entries_whose_replay_would_be_visible", (uint64_t) visible);
        if (visible) { c.count("tests_after_a_new_plugin_object_in_which_a_replay_would_be_visible"); c.nontrivial("fresh|" + MT.str(P) + "|" + std::to_string(MT.discarded_mask) + "|" + script_json(S)); }
    }

    // ---------------- pointers restored
    if (!E.snapshot_taken) c.count("setup_not_entered_unjudged");
    else if (unjudged) c.count("pointer_comparison_skipped_outside_the_facility");
    else {
        bool repeated = false;
        for (int i = 0; i < NT; i++) {
            void* after = rd(i);
            c.count("targets_compared");
            if (E.done_target[i] > 0) c.count("redirected_targets_compared");
            if (E.done_target[i] >= 2) { c.count("repeatedly_redirected_targets_compared"); repeated = true; }
            if (after != E.before[i]) {
                std::string d = ctx + "; target " + std::to_string(i) + " (" + TNAME[i] + ") redirected " + std::to_string(E.done_target[i]) + "x: before " + vname(i, E.before[i]) + " after the post actions " + vname(i, after);
                if (E.done_target[i] > 0)
                    c.violation(!shape.empty() ? "not-restored" + shape        // the ending / repetition classes do not matter for these history shapes: one key each
                                      : std::string("not-restored:redirected=") + (E.done_target[i] >= 2 ? "multi" : "once") + ":ending=" + ending, d + "; table " + setsclass(E.attempted));
                else
                    c.violation("untouched-target-modified" + shape, d);
            }
        }
        if (repeated) { c.nontrivial("ptrtest|" + script_json(S)); c.count("tests_redirecting_a_target_repeatedly"); }
    }
    for (int i = 0; i < NCAN; i++)
        if (*canaddr(i) != canval(i)) { c.violation("canary-clobbered", ctx + "; canary " + std::to_string(i) + " next to the targets holds " + pstr(*canaddr(i))); *canaddr(i) = canval(i); }

    // ---------------- limit
    c.count("ut_ptr_sets_attempted", (uint64_t) E.attempted);
    c.count("ut_ptr_sets_completed", (uint64_t) E.completed);
    c.count(E.attempted == 0 ? "tests_sets_0" : E.attempted <= 8 ? "tests_sets_1_8" : E.attempted < LIMIT ? "tests_sets_9_31" : E.attempted == LIMIT ? "tests_sets_exactly_32" : "tests_sets_over_32");
    if (E.completed > LIMIT) c.violation("limit:redirection-beyond-limit-completed", ctx);
    if (E.attempted > LIMIT && !unjudged) {
        c.count("limit_exceeding_attempts", (uint64_t) (E.attempted - LIMIT));
        if (fails == 0 || !t->hasFailed()) c.violation("limit:exceeding-did-not-fail-test", ctx + "; hasFailed=" + std::to_string(t->hasFailed()));
        else c.count("limit_exceeded_test_failed");
    }
    if (!unjudged && E.terminators == 0 && E.attempted <= LIMIT && (fails > 0 || t->hasFailed())) c.violation("spurious-failure:within-limit" + shape, ctx);
    if (!unjudged && E.completed == LIMIT && fails == 0) { c.count("tests_filling_the_table_exactly_and_passing"); if (fresh) c.count("tests_filling_the_table_exactly_after_a_new_plugin_object"); }

    // ---------------- plugin order
    std::vector<int> pre, post;
    bool seen_test = false, nesting_bad = false, wrong_test = false;
    for (int i = g.log_start; i < g_nlog; i++) {
        const LogE& e = g_log[i];
        if (e.kind == L_TEST) { seen_test = true; continue; }
        bool skip = e.plugin >= 0 && e.plugin < (int) NU && !settled[e.plugin];      // flag differs between its two decision points: not judged, only counted
        if (e.kind == L_PRE) { if (seen_test) nesting_bad = true; if (skip) c.count("pre_actions_seen_by_unsettled_plugins_unjudged"); else pre.push_back(e.plugin); }
        else { if (!seen_test) nesting_bad = true; if (skip) c.count("post_actions_seen_by_unsettled_plugins_unjudged"); else post.push_back(e.plugin); }
        if (e.test != g.cur_test_id) wrong_test = true;
    }
    std::vector<int> exp_post(g.exp_pre.rbegin(), g.exp_pre.rend());
    if (E.snapshot_taken && nesting_bad) c.violation("action-outside-nesting", ctx + "; a pre action ran after the test started or a post action before it");
    if (wrong_test) c.violation("action-got-wrong-test", ctx + "; a plugin action received a different test shell");
    if (!ambiguous) {
        judge_order(g, "pre", pre, g.exp_pre, ctx, pre_dec, oshape);
        judge_order(g, "post", post, exp_post, ctx, pre_dec, oshape);
    }
    // ---------------- flags switched while the test ran: storage of the flag, evidence
    if (any_switch || S.switches_flags()) {
        for (size_t i = 0; i < g.plug.size(); i++)
            if (g.plug[i] && g.plug[i]->isEnabled() != (bool) g.M.enabled[i]) {
                c.violation("enabled-flag-wrong-after:switch-while-a-test-ran", ctx + "; plugin " + P.U[i].name + " isEnabled()=" + std::to_string(g.plug[i]->isEnabled()));
                break;
            }
        c.count("tests_with_enable_or_disable_calls_while_the_test_ran");
        if (any_switch) c.count("tests_in_which_an_enabled_flag_changed_while_the_test_ran");
        if (installed_switch) c.count("tests_in_which_the_flag_of_an_installed_plugin_changed_while_the_test_ran");
        c.count("flag_switches_by_the_test_in_setup", (uint64_t) E.tog_setup);
        c.count("flag_switches_by_the_test_in_body", (uint64_t) E.tog_body);
        c.count("flag_switches_by_the_test_in_teardown", (uint64_t) E.tog_teardown);
        c.count("flag_switches_by_pre_actions_of_plugins", (uint64_t) E.tog_by_pre_action);
        c.count("flag_switches_by_post_actions_of_plugins", (uint64_t) E.tog_by_post_action);
        size_t judged_switched = 0;
        for (int p : MT.chain) {
            const bool rec = logs(P.U[p].type);
            if (!settled[p]) c.count(pre_dec[p] ? (rec ? "unsettled_recording_plugins_enabled_at_pre_disabled_at_post_action_time_unjudged" : "unsettled_plain_plugins_unjudged") : (rec ? "unsettled_recording_plugins_disabled_at_pre_enabled_at_post_action_time_unjudged" : "unsettled_plain_plugins_unjudged"));
            else if (switched[p] || pre_dec[p] != MT.enabled[p] || post_end[p] != MT.enabled[p]) {
                judged_switched++;
                if (rec) c.count(pre_dec[p] ? "switched_but_settled_recording_plugins_judged_as_enabled" : "switched_but_settled_recording_plugins_judged_as_disabled");
            }
        }
        if (spp_switched) {
            c.count("tests_with_the_set_pointer_plugin_switched_while_the_test_ran");
            bool on_at_start = false; for (int p : MT.chain) if (is_spp(P.U[p].type) && MT.enabled[p]) on_at_start = true;
            if (!unjudged && E.completed > 0) {
                c.count("tests_judged_for_restoration_with_the_set_pointer_plugin_switched_while_the_test_ran");
                if (!on_at_start) {
                    c.count("tests_judged_for_restoration_whose_set_pointer_plugin_was_disabled_when_the_pre_actions_ran");
                    bool by_action = false; for (const ActTog& a : S.atog) if (a.target >= 0 && a.target < (int) NU && is_spp(P.U[a.target].type)) by_action = true;
                    c.count(by_action ? "set_pointer_plugin_switched_on_by_a_plugin_action_then_judged" : "set_pointer_plugin_switched_on_by_the_test_then_judged");
                    for (int i = 0; i < NT; i++) if (E.done_target[i] >= 2) { c.count("tests_judged_with_a_repeated_target_and_the_set_pointer_plugin_switched_on_meanwhile"); break; }
                }
            }
            if (consumed && E.completed > 0 && post_start != post_end) c.count("tests_with_flags_switched_by_post_actions_and_redirections");
        }
        if (!S.predicted.empty() && S.predicted != g.M.enabled) c.count("generator_prediction_of_the_flags_after_the_test_wrong");      // expected 0 (self-check of the generator, not an oracle)
        if (installed_switch && !ambiguous) c.nontrivial("switch|" + MT.str(P) + "|" + script_json(S));
        (void) judged_switched; (void) unsettled_any;
    }
    c.count("order_logs_compared");
    c.count("pre_actions_seen", pre.size());
    c.count("post_actions_seen", post.size());
    c.count("chain_len_" + std::to_string(g.M_at_test.chain.size()));
    size_t disabled = 0;
    for (int p : g.M_at_test.chain) if (!g.M_at_test.enabled[p]) disabled++;
    c.count("disabled_installed_plugins_during_tests", disabled);
    // ---------------- evidence: plugin actions that reported a failure for this test, and what was still due after them
    if (E.pre_complaints || E.post_complaints) {
        c.count("tests_with_a_plugin_action_reporting_a_failure");
        c.count("failures_reported_by_plugin_actions", (uint64_t) E.plugin_failures);
        c.count("pre_actions_reporting_a_failure", (uint64_t) E.pre_complaints);
        c.count("post_actions_reporting_a_failure", (uint64_t) E.post_complaints);
        if (E.terminators == 0 && E.attempted <= LIMIT) c.count("tests_passing_by_themselves_but_failed_by_a_plugin_action");
        if (E.completed > 0) c.count("tests_redirecting_pointers_with_a_plugin_action_reporting_a_failure");
        bool deep = false;
        for (size_t i = 0; i < g.exp_pre.size(); i++) {
            int p = g.exp_pre[i];
            size_t behind = g.exp_pre.size() - 1 - i, infront = i;      // enabled recording plugins whose pre (post) action is due after this one's
            if ((S.pre_fail >> p & 1) && behind) { c.count("pre_action_failures_with_enabled_plugins_behind"); c.count("pre_actions_due_after_a_reported_failure", behind); deep = true; }
            if ((S.post_fail >> p & 1) && infront) { c.count("post_action_failures_with_enabled_plugins_in_front"); c.count("post_actions_due_after_a_reported_failure", infront); deep = true; }
            if ((S.pre_fail >> p & 1) && i > 0) c.count("pre_action_failures_not_at_the_head");
        }
        if (deep) c.nontrivial("complain|" + g.M_at_test.str(P) + "|" + std::to_string(S.pre_fail) + "|" + std::to_string(S.post_fail) + "|" + std::to_string(S.complaints) + "|" + ending);
    }
    // where does the (first active) SetPointerPlugin sit
    for (size_t i = 0; i < g.M_at_test.chain.size(); i++) {
        int p = g.M_at_test.chain[i];
        if (is_spp(P.U[p].type) && g.M_at_test.enabled[p]) {
            size_t n = g.M_at_test.chain.size();
            c.count(n == 1 ? "spp_pos_only" : i == 0 ? "spp_pos_head" : i == n - 1 ? "spp_pos_tail" : "spp_pos_middle");
            c.count(P.U[p].type == PT_SPP_PLAIN ? "spp_kind_plain" : P.U[p].type == PT_RUNNER_SPP ? "spp_kind_installed_by_runner" : "spp_kind_recording");
            break;
        }
    }
    g.exec++;
    g.script = nullptr;
}

// The hooks sit in the TestOutput: TestResult::currentTestStarted/Ended call it right before runOneTest and right after it
// (= after the post actions), on every path (private registry runs and the command line runner, which makes its own TestResult).
class HookOutput : public StringBufferTestOutput {
public:
    virtual void printCurrentTestStarted(const UtestShell& t) CPPUTEST_OVERRIDE { on_test_start(const_cast<UtestShell*>(&t)); StringBufferTestOutput::printCurrentTestStarted(t); }
    virtual void printCurrentTestEnded(const TestResult& r) CPPUTEST_OVERRIDE { StringBufferTestOutput::printCurrentTestEnded(r); on_test_end(); }
    virtual void printFailure(const TestFailure& f) CPPUTEST_OVERRIDE { if (g_run) g_run->failures++; StringBufferTestOutput::printFailure(f); }
};
class HookRunner : public CommandLineTestRunner {
public:
    HookRunner(int ac, const char* const* av, TestRegistry* r) : CommandLineTestRunner(ac, av, r) {}
protected:
    virtual TestOutput* createConsoleOutput() CPPUTEST_OVERRIDE { return new HookOutput; }
};

// ================================================================ running a program
static void run_program(vf::Ctx& c, std::shared_ptr<Program> PP) {
    c.begin([PP] { return prog_json(*PP); });
    const Program& P = *PP;
    g_nlog = 0; g_log_overflow = false;
    UtestShell::setRethrowExceptions(false);
    Run g;
    g.c = &c; g.P = &P; g.M = Model(&P);
    for (int i = 0; i < NT; i++) g.unrestored_orig[i] = nullptr;
    g_run = &g;
    HookOutput out;
    TestResult res(out);
    {
        // cases stay independent: whatever an earlier case left in the process-wide table is dropped by the constructor of a new
        // SetPointerPlugin and, independently of that, consumed by a post action (the targets are re-initialised afterwards)
        SetPointerPlugin scrub("scrub");
        ScriptShell nobody(0);
        scrub.postTestAction(nobody, res);
    }
    reset_targets();
    TestRegistry reg;
    g.reg = &reg;
    for (size_t i = 0; i < P.U.size(); i++) {
        g.own.emplace_back(make_plugin(P.U[i], (int) i));
        g.plug.push_back(g.own.back().get());
    }
    std::vector<std::unique_ptr<ScriptShell>> shells;
    for (int i = 0; i < P.T; i++) { shells.emplace_back(new ScriptShell(i)); g.shells.push_back(shells.back().get()); }
    for (int i = P.T - 1; i >= 0; i--) reg.addTest(g.shells[i]);      // addTest pushes to the front: t0 runs first
    size_t k0 = 0;
    for (size_t r = 0; r < P.runs.size() && !g.abandoned; r++) {
        const RunSpec& rs = P.runs[r];
        g.run_first_exec = k0;
        for (const ChainOp& o : P.steps[k0].ops) apply_op(g, o, false);
        if (g.abandoned) break;
        if (!P.runner) reg.runAllTests(res);
        else {
            int ri = P.runner_idx();
            ChainOp inst; inst.kind = C_INSTALL; inst.plugin = ri;
            if (g.M.stale) { c.count("new_set_pointer_plugin_objects_constructed_over_unrestored_entries"); c.count("new_set_pointer_plugin_object_over_unrestored_entries_by_the_command_line_runner"); }
            g.M.fresh_object(ri);             // a new SetPointerPlugin object, enabled
            g.M.apply(inst);                  // what runAllTestsMain is about to do; verified at the first test of the run
            std::vector<const char*> av;
            for (const std::string& a : rs.args) av.push_back(a.c_str());
            {
                HookRunner runner((int) av.size(), av.data(), &reg);
                runner.runAllTestsMain();
            }
            c.count("runs_through_command_line_runner");
            if (!g.abandoned) {
                // ... and it must have removed exactly its own plugin again (by name), wherever that plugin sits by now
                Model before = g.M;
                ChainOp rem; rem.kind = C_REMOVE; rem.plugin = ri;
                int pos = before.pos(ri);
                g.M.apply(rem);
                TestPlugin* dead = g.plug[ri];
                g.plug[ri] = nullptr;         // destroyed with the runner
                c.count(std::string("runner_removed_its_plugin_at_") + posclass(pos, before.chain.size()));
                if (pos >= 2) { c.nontrivial("runner-remove|" + before.str(P)); c.count("chain_ops_at_depth_ge2"); }
                if (!check_structure(g, rem, before, pos, dead)) { g.abandoned = true; reg.resetPlugins(); }
            }
        }
        c.count("runs");
        k0 += (size_t) P.T * (size_t) rs.reps;
    }
    if (!g.abandoned && g.exec != P.steps.size()) c.count("programs_with_unexecuted_steps");
    for (const ChainOp& o : P.trailing) apply_op(g, o, false);
    if (g.abandoned) c.count("programs_abandoned_after_structural_violation");
    if (g_log_overflow) c.count("order_log_overflow_unjudged");
    c.count("programs");
    reg.resetPlugins();
    UtestShell::setRethrowExceptions(false);
    g_run = nullptr;
}

// ================================================================ generators
static const char* NAMEPOOL[] = { "A", "AA", "AAA", "B", "a", "A ", "R1", "R10", "R", "MemoryLeakPlugin", "SetPointerPlugin", "NullPlugin", "nul", "nulll", "Null", "x y", "P#1",
                                  "a-plugin-with-a-rather-long-name-0123456789-0123456789", "R1 ", " R1", "B2", "b" };
static const size_t NNAMES = sizeof(NAMEPOOL) / sizeof(NAMEPOOL[0]);

static std::vector<int> allowed_term_kinds() {
    std::vector<int> k = { OP_FAIL_CPP, OP_CHECK_CPP, OP_FAIL_C, OP_CHECK_C };
    if (HAVE_EXC) { k.push_back(OP_THROW_STD); k.push_back(OP_THROW_INT); }
    return k;
}

// nsets < 0: choose from the distribution
// force_switch: 0 = by chance, 2 = an installed, disabled SetPointerPlugin is switched on while the test runs
static Script gen_script(vf::Rng& r, const Program& P, bool spp_active, int nsets, bool small, const Model* M = nullptr, bool outside_ok = false, int force_switch = 0) {
    Script s;
    for (int t = 0; t < NT; t++) if (r.chance(50)) s.baseline[t] = (int8_t) r.below(NV);
    // enabled flags switched while the test runs (enable() / disable() called by the test or by an action of another plugin):
    // 1 = recording plugins only, 2 = an installed, disabled SetPointerPlugin is switched on, 3 = the active SetPointerPlugin is switched off (and perhaps on again)
    int tk = 0, q = -1;
    bool on_late = false;                // tk == 2: the switch-on sits anywhere in the test (redirections in front of it happen without the facility: unjudged)
    if (M && !M->chain.empty() && (force_switch || r.chance(small ? 14 : 10))) {
        int d = (int) r.below(100);
        tk = force_switch ? force_switch : d < 45 ? 1 : d < 80 ? 2 : 3;
        std::vector<int> cand;
        if (tk == 2) for (int p : M->chain) if (is_spp(P.U[(size_t) p].type) && !M->enabled[(size_t) p]) cand.push_back(p);
        if (tk == 3 && outside_ok) for (int p : M->chain) if (is_spp(P.U[(size_t) p].type) && M->enabled[(size_t) p]) cand.push_back(p);
        if (tk >= 2) { if (cand.empty() || M->stale) tk = 1; else q = r.pick(cand); }      // an old plugin object is never switched on over unrestored entries
        if (tk == 2) { on_late = outside_ok && r.chance(20); spp_active = true; }
    }
    if (nsets < 0) {
        int d = (int) r.below(100);
        if (small) nsets = d < 40 ? 0 : r.range(1, 4);
        else if (d < 12) nsets = 0; else if (d < 50) nsets = r.range(1, 8); else if (d < 72) nsets = r.range(9, 31); else if (d < 84) nsets = LIMIT; else nsets = r.range(LIMIT + 1, LIMIT + 4);
    }
    // the facility is the plugin plus the macro: tests redirect while a SetPointerPlugin is installed and enabled; in programs with the
    // "unrestored redirections" history also outside (those tests are not judged, a new SetPointerPlugin object precedes the next judged test)
    if (!spp_active) {
        if (!outside_ok) nsets = 0;
        else { int d = (int) r.below(100); nsets = d < 25 ? 0 : d < 75 ? r.range(1, 4) : d < 92 ? r.range(5, 20) : r.range(28, LIMIT + 2); }
    }
    static const int W[] = { 0, 1, 3 };
    int w[3] = { W[r.below(3)], W[r.below(3)], W[r.below(3)] };
    if (w[0] + w[1] + w[2] == 0) w[1] = 1;
    int k = r.range(1, NT);
    std::vector<int> subset;
    { std::vector<int> all; for (int t = 0; t < NT; t++) all.push_back(t); for (int i = 0; i < k; i++) { size_t j = r.below(all.size()); subset.push_back(all[j]); all.erase(all.begin() + (long) j); } }
    for (int i = 0; i < nsets; i++) {
        int x = (int) r.below((uint64_t) (w[0] + w[1] + w[2]));
        int ph = x < w[0] ? 0 : x < w[0] + w[1] ? 1 : 2;
        Op o; o.kind = OP_SET; o.target = (uint8_t) subset[r.below(subset.size())]; o.value = (uint8_t) r.below(NV);
        s.ph[ph].push_back(o);
    }
    int d = (int) r.below(100);
    int nterm = d < 55 ? 0 : d < 93 ? 1 : 2;
    std::vector<int> kinds = allowed_term_kinds();
    int phs[3] = { 0, 1, 2 };
    for (int i = 2; i > 0; i--) std::swap(phs[i], phs[r.below((uint64_t) i + 1)]);
    for (int i = 0; i < nterm; i++) {
        Op o; o.kind = (uint8_t) r.pick(kinds); o.target = 0; o.value = 0;
        std::vector<Op>& v = s.ph[phs[i]];
        size_t at = r.chance(70) ? v.size() : (size_t) r.below(v.size() + 1);
        v.insert(v.begin() + (long) at, o);
    }
    if (tk) {
        std::vector<int> togglers;       // installed, enabled recording plugins: their actions can call enable() / disable() on other plugins (they are never switched themselves)
        for (int p : M->chain) if (M->enabled[(size_t) p] && logs(P.U[(size_t) p].type) && p != q) togglers.push_back(p);
        const int tg = (!togglers.empty() && r.chance(45)) ? r.pick(togglers) : -1;
        auto in_test = [&](int plugin, bool en, int where) {      // where: 0 = first statement of setup (always reached), 1 = anywhere, 2 = last statement of teardown
            Op o; o.kind = en ? OP_ENABLE : OP_DISABLE; o.target = (uint8_t) plugin; o.value = 0;
            if (where == 0 || (M->stale && where == 1)) s.ph[0].insert(s.ph[0].begin(), o);
            else if (where == 2) s.ph[2].push_back(o);
            else { std::vector<Op>& v = s.ph[r.below(3)]; v.insert(v.begin() + (long) r.below(v.size() + 1), o); }
        };
        auto by_action = [&](int plugin, bool en, bool post) { ActTog a; a.by = tg; a.post = post; a.target = plugin; a.enable = en; s.atog.push_back(a); };
        if (tk == 2) {
            if (tg >= 0 && r.chance(30)) by_action(q, true, false); else in_test(q, true, on_late ? 1 : 0);
        }
        if (tk == 3) {
            int d = (int) r.below(100);
            if (tg >= 0 && d < 15) by_action(q, false, false); else if (tg >= 0 && d < 35) by_action(q, false, true); else in_test(q, false, 1);
            if (r.chance(35)) { if (tg >= 0 && r.chance(30)) by_action(q, true, true); else in_test(q, true, 2); }
        }
        if (tk == 1 || r.chance(30)) {
            std::vector<int> inst, any;
            for (size_t i = 0; i < P.U.size(); i++) if (P.U[i].type == PT_REC && (int) i != tg) { any.push_back((int) i); if (M->pos((int) i) >= 0) inst.push_back((int) i); }
            int n = any.empty() ? 0 : r.range(1, 3);
            for (int i = 0; i < n; i++) {
                int t = (!inst.empty() && r.chance(85)) ? r.pick(inst) : r.pick(any);
                bool en = r.chance(50);
                if (tg >= 0 && r.chance(40)) by_action(t, en, r.chance(50)); else in_test(t, en, r.chance(15) ? 0 : 1);
            }
        }
    }
    if (r.chance(15)) {
        std::vector<int> cand;
        for (size_t i = 0; i < P.U.size(); i++) if (P.U[i].type != PT_SPP_PLAIN) cand.push_back((int) i);
        if (!cand.empty()) { s.premut_plugin = r.pick(cand); s.premut_target = (int) r.below(NT); s.premut_value = (int) r.below(NV); }
    }
    // plugin actions that report a failure for the test (pre, post, both, several plugins); mostly plugins that will really be called
    if (r.chance(small ? 16 : 9)) {
        std::vector<int> cand;
        if (M) for (int p : M->chain) if (M->enabled[p] && logs(P.U[p].type) && p < 32) cand.push_back(p);
        if (cand.empty() || r.chance(8)) { cand.clear(); for (size_t i = 0; i < P.U.size() && i < 32; i++) if (logs(P.U[i].type)) cand.push_back((int) i); }
        if (!cand.empty()) {
            int mode = (int) r.below(5);
            int a = r.chance(35) ? cand.front() : r.pick(cand);     // towards the head: pre actions are still due behind it
            int b = r.chance(35) ? cand.back() : r.pick(cand);      // towards the tail: post actions are still due in front of it
            if (mode == 0 || mode >= 3) s.pre_fail |= 1u << a;
            if (mode == 1 || mode >= 3) s.post_fail |= 1u << b;
            if (mode == 2) { s.pre_fail |= 1u << a; s.post_fail |= 1u << a; }
            if (mode == 4) { s.pre_fail |= 1u << r.pick(cand); s.post_fail |= 1u << r.pick(cand); }
            s.complaints = r.chance(20) ? 2 : 1;
        }
    }
    return s;
}

static std::string absent_name(vf::Rng& r, const Program& P) {
    static const char* EXTRA[] = { "", "null ", "ZZ", "NULL", "nu", "Set", "A\tB" };
    for (int tries = 0; tries < 20; tries++) {
        std::string n = r.chance(60) ? std::string(NAMEPOOL[r.below(NNAMES)]) : std::string(EXTRA[r.below(sizeof(EXTRA) / sizeof(EXTRA[0]))]);
        bool used = n == "null";
        for (const PluginSpec& p : P.U) if (p.name == n) used = true;
        if (!used) return n;
    }
    return "ZZ";
}

// one chain operation that respects the caller obligations (a plugin is installed at most once; names are unique)
static bool gen_op(vf::Rng& r, const Program& P, const Model& M, bool allow_spp, ChainOp& out) {
    auto ok = [&](int p) { return P.U[p].type != PT_RUNNER_SPP && (allow_spp || P.U[p].type == PT_REC); };
    std::vector<int> in, notin, any;
    for (size_t i = 0; i < P.U.size(); i++) { if (!ok((int) i)) continue; any.push_back((int) i); if (M.pos((int) i) >= 0) in.push_back((int) i); else notin.push_back((int) i); }
    std::vector<int> inpos;           // in chain order, filtered
    for (int p : M.chain) if (ok(p)) inpos.push_back(p);
    for (int tries = 0; tries < 12; tries++) {
        int d = (int) r.below(100);
        out.name.clear(); out.plugin = -1;
        if (d < 24) { if (notin.empty()) continue; out.kind = C_INSTALL; out.plugin = r.pick(notin); return true; }
        if (d < 50) {
            if (inpos.empty()) continue;
            out.kind = C_REMOVE;
            int m = (int) r.below(3);
            out.plugin = m == 0 ? inpos.front() : m == 1 ? inpos.back() : r.pick(inpos);
            return true;
        }
        if (d < 60) {
            out.kind = C_REMOVE;
            if (!notin.empty() && r.chance(50)) out.plugin = r.pick(notin); else out.name = absent_name(r, P);
            return true;
        }
        if (d < 75) { if (any.empty()) continue; out.kind = r.chance(50) ? C_ENABLE : C_DISABLE; out.plugin = (!in.empty() && r.chance(80)) ? r.pick(in) : r.pick(any); return true; }
        if (d < 96) {
            out.kind = r.chance(50) ? C_ENABLE_BYNAME : C_DISABLE_BYNAME;
            if (!inpos.empty() && r.chance(80)) { int m = (int) r.below(3); out.plugin = m == 0 ? inpos.back() : r.pick(inpos); }
            else if (!notin.empty() && r.chance(50)) out.plugin = r.pick(notin);
            else out.name = absent_name(r, P);
            return true;
        }
        if (d < 98) {                  // a per-scenario plugin object: the uninstalled plugin is replaced by a newly constructed one
            if (notin.empty()) continue;
            out.kind = C_NEWOBJ; out.plugin = r.pick(notin); return true;
        }
        if (!allow_spp) continue;
        out.kind = C_RESET; return true;
    }
    return false;
}

// Unrestored redirections are in the table (model: M.stale). Before the next test may run under an installed, enabled SetPointerPlugin
// a NEW SetPointerPlugin object has to be constructed (its constructor empties the table; an old object would replay the entries).
// force: bring an active new plugin in now; otherwise only repair a chain in which an old object has just become active.
static void new_object_over_unrestored(vf::Rng& r, const Program& P, Model& M, std::vector<ChainOp>& ops, bool force) {
    if (!M.stale || !(force || M.spp_active(P))) return;
    std::vector<int> out, act, in;
    for (size_t i = 0; i < P.U.size(); i++) {
        if (!is_spp(P.U[i].type) || P.U[i].type == PT_RUNNER_SPP) continue;
        if (M.pos((int) i) < 0) out.push_back((int) i); else if (M.enabled[i]) act.push_back((int) i); else in.push_back((int) i);
    }
    auto add = [&](int kind, int p) { ChainOp o; o.kind = kind; o.plugin = p; ops.push_back(o); M.apply(o); };
    if (!act.empty()) {
        // an old object is active: either a new object of another (uninstalled) SetPointerPlugin is constructed, or this one is taken out, replaced, installed again
        if (!out.empty() && r.chance(50)) add(C_NEWOBJ, r.pick(out));
        else { int q = r.pick(act); add(C_REMOVE, q); add(C_NEWOBJ, q); add(C_INSTALL, q); }
    } else if (!out.empty()) { int q = r.pick(out); add(C_NEWOBJ, q); add(C_INSTALL, q); }
    else if (!in.empty()) { int q = r.pick(in); add(C_REMOVE, q); add(C_NEWOBJ, q); add(C_INSTALL, q); }
}
// takes the facility away for a while: the (an) active SetPointerPlugin is disabled, disabled by name or removed
static void deactivate_spp(vf::Rng& r, const Program& P, Model& M, std::vector<ChainOp>& ops) {
    for (int guard = 0; guard < 4 && M.spp_active(P); guard++) {
        std::vector<int> act;
        for (int p : M.chain) if (is_spp(P.U[p].type) && M.enabled[p] && P.U[p].type != PT_RUNNER_SPP) act.push_back(p);
        if (act.empty()) return;
        ChainOp o; int k = (int) r.below(3); o.kind = k == 0 ? C_DISABLE : k == 1 ? C_DISABLE_BYNAME : C_REMOVE; o.plugin = r.pick(act);
        ops.push_back(o); M.apply(o);
    }
}
// Generator-side bookkeeping of what a script does to the chain model: which enable() / disable() calls are reached (a phase ends at a failing
// statement or at the 33rd redirection; a failed setup skips the body; teardown always runs), whether some installed SetPointerPlugin is enabled when
// its post action is due. Used to choose the following workload (and for the self-check Script::predicted) - never as an oracle.
// Exact as long as the table is empty when the test starts (the generators place switches in the test only then, or in front of every redirection).
static void after_script(const Program& P, Model& M, Script& s) {
    std::vector<char>& fl = M.enabled;
    auto actions_of = [&](int p, bool post) { for (const ActTog& a : s.atog) if (a.by == p && a.post == post) fl[(size_t) a.target] = a.enable; };
    for (int p : M.chain) if (fl[(size_t) p] && logs(P.U[(size_t) p].type)) actions_of(p, false);
    int count = 0, attempted = 0;
    bool setup_cut = false;
    for (int ph = 0; ph < 3; ph++) {
        if (ph == 1 && setup_cut) continue;
        for (const Op& o : s.ph[ph]) {
            bool cut = false;
            if (o.kind == OP_SET) { attempted++; if (count >= LIMIT) cut = true; else count++; }
            else if (is_toggle(o.kind)) fl[o.target] = o.kind == OP_ENABLE;
            else cut = true;
            if (cut) { if (ph == 0) setup_cut = true; break; }
        }
    }
    bool consumed = false;
    for (auto it = M.chain.rbegin(); it != M.chain.rend(); ++it) {
        int p = *it;
        if (!fl[(size_t) p]) continue;
        if (is_spp(P.U[(size_t) p].type)) consumed = true;
        if (logs(P.U[(size_t) p].type)) actions_of(p, true);
    }
    if (!consumed) { if (attempted > 0) M.stale = true; }
    else { M.discarded = false; M.discarded_mask = 0; }
    if (s.switches_flags()) s.predicted = fl;
}

static void pick_names(vf::Rng& r, Program& P, size_t n, const std::vector<int>& types, const char* exclude = nullptr) {
    std::vector<size_t> idx; for (size_t i = 0; i < NNAMES; i++) if (!exclude || strcmp(NAMEPOOL[i], exclude) != 0) idx.push_back(i);
    for (size_t i = 0; i < n; i++) { size_t j = i + r.below(idx.size() - i); std::swap(idx[i], idx[j]); PluginSpec s; s.name = NAMEPOOL[idx[i]]; s.type = types[i]; P.U.push_back(s); }
}

// ---------------------------------------------------------------- section: pointer-heavy programs
static void sec_ptr_programs(vf::Ctx& c) {
    vf::Rng& r = c.rng;
    auto P = std::make_shared<Program>();
    int nrec = r.range(0, 4);
    std::vector<int> types((size_t) nrec, PT_REC);
    types.push_back(r.chance(50) ? PT_SPP_REC : PT_SPP_PLAIN);
    if (r.chance(8)) types.push_back(r.chance(50) ? PT_SPP_REC : PT_SPP_PLAIN);
    for (size_t i = types.size() - 1; i > 0; i--) std::swap(types[i], types[r.below(i + 1)]);
    pick_names(r, *P, types.size(), types);
    int maxexec = c.thorough ? 12 : 8;
    P->T = r.range(1, 4);
    int runs = r.range(1, 3); while (P->T * runs > maxexec) runs--;
    P->runs.resize((size_t) runs);
    bool window = r.chance(14);            // programs in which the SetPointerPlugin itself is disabled / removed for a while (tests may redirect meanwhile: unrestored, unjudged)
    Model M(P.get());
    size_t n = (size_t) (P->T * runs);
    for (size_t k = 0; k < n; k++) {
        Step st;
        if (k == 0) {
            std::vector<int> order; for (size_t i = 0; i < P->U.size(); i++) order.push_back((int) i);
            for (size_t i = order.size() - 1; i > 0; i--) std::swap(order[i], order[r.below(i + 1)]);
            for (int p : order) { ChainOp o; o.kind = C_INSTALL; o.plugin = p; st.ops.push_back(o); M.apply(o); }
            for (size_t i = 0; i < P->U.size(); i++) if (P->U[i].type == PT_REC && r.chance(25)) { ChainOp o; o.kind = C_DISABLE; o.plugin = (int) i; st.ops.push_back(o); M.apply(o); }
        } else if (r.chance(30)) {
            int m = r.range(1, 2);
            for (int i = 0; i < m; i++) { ChainOp o; if (gen_op(r, *P, M, window, o)) { st.ops.push_back(o); M.apply(o); } }
        }
        if (window && k > 0) {
            if (!M.stale && k + 1 < n && r.chance(25)) deactivate_spp(r, *P, M, st.ops);
            new_object_over_unrestored(r, *P, M, st.ops, r.chance(45));
        }
        // the SetPointerPlugin is installed but disabled when the test starts; the test (first statement of setup) or the pre action of another plugin
        // switches it on, then the test redirects as usual (full distribution of redirection counts and endings, judged)
        int force = 0;
        if (!window && k > 0 && !M.stale && r.chance(6)) {
            for (int p : std::vector<int>(M.chain)) if (is_spp(P->U[(size_t) p].type) && M.enabled[(size_t) p]) { ChainOp o; o.kind = r.chance(50) ? C_DISABLE : C_DISABLE_BYNAME; o.plugin = p; st.ops.push_back(o); M.apply(o); }
            force = 2;
        }
        st.script = gen_script(r, *P, M.spp_active(*P), -1, false, &M, window, force);
        after_script(*P, M, st.script);
        P->steps.push_back(st);
    }
    run_program(c, P);
}

// ---------------------------------------------------------------- section: chain-heavy programs
static void sec_chain_programs(vf::Ctx& c) {
    vf::Rng& r = c.rng;
    auto P = std::make_shared<Program>();
    size_t U = (size_t) r.range(1, 9);
    std::vector<int> types(U, PT_REC);
    if (r.chance(40)) { types[r.below(U)] = r.chance(70) ? PT_SPP_REC : PT_SPP_PLAIN; if (U > 1 && r.chance(25)) types[r.below(U)] = PT_SPP_REC; }
    pick_names(r, *P, U, types);
    bool outside = false;                  // tests may redirect while no SetPointerPlugin is active (unrestored, unjudged); a new plugin object precedes the next judged test
    for (int t : types) if (t != PT_REC) outside = true;
    if (outside) outside = r.chance(50);
    int maxexec = c.thorough ? 16 : 10;
    P->T = r.range(1, c.thorough ? 5 : 3);
    int runs = r.range(1, 4); while (P->T * runs > maxexec) runs--;
    P->runs.resize((size_t) runs);
    Model M(P.get());
    size_t n = (size_t) (P->T * runs);
    for (size_t k = 0; k < n; k++) {
        Step st;
        if (k == 0) {
            std::vector<int> order; for (size_t i = 0; i < U; i++) order.push_back((int) i);
            for (size_t i = order.size() - 1; i > 0; i--) std::swap(order[i], order[r.below(i + 1)]);
            int keep = r.chance(60) ? 100 : 60;
            for (int p : order) if (r.chance(keep)) { ChainOp o; o.kind = C_INSTALL; o.plugin = p; st.ops.push_back(o); M.apply(o); }
            for (size_t i = 0; i < U; i++) if (r.chance(30)) { ChainOp o; o.kind = C_DISABLE; o.plugin = (int) i; st.ops.push_back(o); M.apply(o); }
        }
        int m = k == 0 ? r.range(0, 1) : r.range(0, 3);
        for (int i = 0; i < m; i++) { ChainOp o; if (gen_op(r, *P, M, true, o)) { st.ops.push_back(o); M.apply(o); } }
        if (outside) new_object_over_unrestored(r, *P, M, st.ops, M.stale && r.chance(35));
        st.script = gen_script(r, *P, M.spp_active(*P), -1, true, &M, outside);
        after_script(*P, M, st.script);
        P->steps.push_back(st);
    }
    int m = r.range(0, 2);
    for (int i = 0; i < m; i++) { ChainOp o; if (gen_op(r, *P, M, true, o)) { P->trailing.push_back(o); M.apply(o); } }
    run_program(c, P);
}

// ---------------------------------------------------------------- section: the real entry path (CommandLineTestRunner::runAllTestsMain)
static void sec_runner_programs(vf::Rng& r, vf::Ctx& c) {
    auto P = std::make_shared<Program>();
    P->runner = true;
    int nrec = r.range(0, 4);
    std::vector<int> types((size_t) nrec, PT_REC);
    pick_names(r, *P, types.size(), types, DEF_PLUGIN_SET_POINTER);
    { PluginSpec s; s.name = DEF_PLUGIN_SET_POINTER; s.type = PT_RUNNER_SPP; P->U.push_back(s); }
    int ri = nrec;
    P->T = r.range(1, 3);
    int runs = r.range(1, 3);
    bool outside = r.chance(30);
    Model M(P.get());
    static const char* EXTRA[] = { "-v", "-c", "-b", "-vv", "-ri" };
    for (int run = 0; run < runs; run++) {
        RunSpec rs;
        rs.reps = r.chance(25) ? 2 : 1;
        rs.args.push_back("c17"); rs.args.push_back("-e");          // -e: unexpected exceptions fail the test instead of being rethrown out of the run
        if (rs.reps == 2) rs.args.push_back("-r2");
        if (r.chance(40)) rs.args.push_back(EXTRA[r.below(5)]);
        size_t n = (size_t) (P->T * rs.reps);
        for (size_t k = 0; k < n; k++) {
            Step st;
            if (k == 0) {
                if (run == 0) {
                    int keep = r.chance(50) ? 85 : 35;
                    for (int p = 0; p < nrec; p++) if (r.chance(keep)) { ChainOp o; o.kind = C_INSTALL; o.plugin = p; st.ops.push_back(o); M.apply(o); }
                    for (int p = 0; p < nrec; p++) if (r.chance(25)) { ChainOp o; o.kind = C_DISABLE; o.plugin = p; st.ops.push_back(o); M.apply(o); }
                } else {
                    int m = r.range(0, 2);
                    for (int i = 0; i < m; i++) { ChainOp o; if (gen_op(r, *P, M, false, o)) { st.ops.push_back(o); M.apply(o); } }
                }
                M.fresh_object(ri);                                                          // every runAllTestsMain call constructs a new SetPointerPlugin (enabled; the table is emptied)
                ChainOp inst; inst.kind = C_INSTALL; inst.plugin = ri; M.apply(inst);       // done by the runner
            } else {
                // the runner's own plugin is switched off while the run is under way (it stays off until the run ends): the remaining tests of this run
                // may still redirect (unrestored, unjudged); the next run gets a new plugin object
                if (outside && M.enabled[ri] && r.chance(22)) { ChainOp o; o.kind = r.chance(50) ? C_DISABLE : C_DISABLE_BYNAME; o.plugin = ri; st.ops.push_back(o); M.apply(o); }
                if (r.chance(35)) {         // a plugin installed while the run is under way ends up in front of the runner's own plugin
                    std::vector<int> notin; for (int p = 0; p < nrec; p++) if (M.pos(p) < 0) notin.push_back(p);
                    if (!notin.empty()) { ChainOp o; o.kind = C_INSTALL; o.plugin = r.pick(notin); st.ops.push_back(o); M.apply(o); }
                }
                if (r.chance(35)) {
                    int m = r.range(1, 2);
                    for (int i = 0; i < m; i++) { ChainOp o; if (gen_op(r, *P, M, false, o)) { st.ops.push_back(o); M.apply(o); } }
                }
            }
            st.script = gen_script(r, *P, M.spp_active(*P), -1, false, &M, outside);
            after_script(*P, M, st.script);
            P->steps.push_back(st);
        }
        ChainOp rem; rem.kind = C_REMOVE; rem.plugin = ri; M.apply(rem);                     // done by the runner
        P->runs.push_back(rs);
    }
    run_program(c, P);
}
static void sec_runner(vf::Ctx& c) { sec_runner_programs(c.rng, c); }

// ---------------------------------------------------------------- section: removal enumerated (chains of 1..6, every enabled mask, every position + absent)
static const int ENUM_MAXN = 6;
static uint64_t remove_enum_total() { uint64_t t = 0; for (int n = 1; n <= ENUM_MAXN; n++) t += (1ull << n) * (uint64_t) (n + 1); return t; }
static void sec_remove_enum(vf::Ctx& c) {
    uint64_t i = c.idx; int n = 1;
    for (; n <= ENUM_MAXN; n++) { uint64_t sz = (1ull << n) * (uint64_t) (n + 1); if (i < sz) break; i -= sz; }
    unsigned mask = (unsigned) (i % (1ull << n)); int target = (int) (i / (1ull << n));      // target == n: absent name
    auto P = std::make_shared<Program>();
    static const char* NM[] = { "P0", "P1", "P2", "P3", "P4", "P5" };
    for (int k = 0; k < n; k++) { PluginSpec s; s.name = NM[k]; s.type = PT_REC; P->U.push_back(s); }
    P->T = 1;
    Step a, b;
    for (int k = 0; k < n; k++) { ChainOp o; o.kind = C_INSTALL; o.plugin = k; a.ops.push_back(o); }
    for (int k = 0; k < n; k++) if (!(mask >> k & 1)) { ChainOp o; o.kind = C_DISABLE; o.plugin = k; a.ops.push_back(o); }
    { ChainOp o; o.kind = C_REMOVE; o.plugin = target < n ? target : -1; if (target >= n) o.name = "P9"; b.ops.push_back(o); }
    P->steps.push_back(a); P->steps.push_back(b);
    P->runs.resize(2);
    run_program(c, P);
}

// ---------------------------------------------------------------- section: the limit enumerated
static const int LIM_N0 = 30, LIM_N1 = 36;
static uint64_t limit_enum_total() { return (uint64_t) (LIM_N1 - LIM_N0 + 1) * 4 * (HAVE_EXC ? 5 : 3) * 2; }
static void sec_limit_enum(vf::Ctx& c) {
    uint64_t i = c.idx;
    int nend = HAVE_EXC ? 5 : 3;
    int n = LIM_N0 + (int) (i % (LIM_N1 - LIM_N0 + 1)); i /= (LIM_N1 - LIM_N0 + 1);
    int placement = (int) (i % 4); i /= 4;
    int ending = (int) (i % (uint64_t) nend); i /= (uint64_t) nend;
    int pattern = (int) (i % 2);
    static const int ENDK[] = { -1, OP_FAIL_CPP, OP_FAIL_C, OP_THROW_STD, OP_THROW_INT };
    auto P = std::make_shared<Program>();
    { PluginSpec s; s.name = "before"; s.type = PT_REC; P->U.push_back(s); }
    { PluginSpec s; s.name = "SetPointerPlugin"; s.type = (c.idx & 1) ? PT_SPP_PLAIN : PT_SPP_REC; P->U.push_back(s); }
    { PluginSpec s; s.name = "after"; s.type = PT_REC; P->U.push_back(s); }
    P->T = 3;
    Step A, B, C;
    for (int k = 0; k < 3; k++) { ChainOp o; o.kind = C_INSTALL; o.plugin = k; A.ops.push_back(o); }
    for (int t = 0; t < NT; t++) A.script.baseline[t] = (int8_t) (1 + (t + n) % 6);
    for (int k = 0; k < n; k++) {
        Op o; o.kind = OP_SET; o.target = (uint8_t) (pattern == 0 ? (int) (c.idx % NT) : k % NT); o.value = (uint8_t) ((k * 5 + 2) % NV);
        int ph = placement < 3 ? placement : (k < n / 3 ? 0 : k < 2 * n / 3 ? 1 : 2);
        A.script.ph[ph].push_back(o);
    }
    if (ENDK[ending] >= 0) { Op o; o.kind = (uint8_t) ENDK[ending]; o.target = o.value = 0; A.script.ph[1].push_back(o); }
    // B: a small test with a repeated target; C: exactly the limit, must pass — both only behave if the table was emptied after A
    { Op o; o.kind = OP_SET; o.target = 3; o.value = 2; B.script.ph[0].push_back(o); o.value = 4; B.script.ph[1].push_back(o); o.target = 5; o.value = 0; B.script.ph[2].push_back(o); B.script.baseline[3] = 6; }
    for (int k = 0; k < LIMIT; k++) { Op o; o.kind = OP_SET; o.target = (uint8_t) ((k * 3) % NT); o.value = (uint8_t) ((k + 1) % NV); C.script.ph[1 + (k & 1)].push_back(o); }
    for (int t = 0; t < NT; t++) C.script.baseline[t] = (int8_t) ((t * 2 + n) % NV);
    P->steps.push_back(A); P->steps.push_back(B); P->steps.push_back(C);
    P->runs.resize(1);
    run_program(c, P);
}

// ---------------------------------------------------------------- section: plugin actions that report a failure, enumerated
// chains of 1..5 recording plugins x every enabled mask x every complaining plugin x {pre, post, pre+post, pre (2 failures) + post of the neighbour}
// x test ending {pass, FAIL in the body, CHECK_C in setup}; a second, plain test follows in the same run (nothing may be carried over)
static const int FA_MAXN = 5, FA_MODES = 4, FA_ENDS = 3;
static uint64_t failing_actions_total() { uint64_t t = 0; for (int n = 1; n <= FA_MAXN; n++) t += (1ull << n) * (uint64_t) n * FA_MODES * FA_ENDS; return t; }
static void sec_failing_actions_enum(vf::Ctx& c) {
    uint64_t i = c.idx; int n = 1;
    for (; n <= FA_MAXN; n++) { uint64_t sz = (1ull << n) * (uint64_t) n * FA_MODES * FA_ENDS; if (i < sz) break; i -= sz; }
    unsigned mask = (unsigned) (i % (1ull << n)); i /= (1ull << n);
    int who = (int) (i % (uint64_t) n); i /= (uint64_t) n;
    int mode = (int) (i % FA_MODES); i /= FA_MODES;
    int ending = (int) (i % FA_ENDS);
    auto P = std::make_shared<Program>();
    static const char* NM[] = { "P0", "P1", "P2", "P3", "P4" };
    for (int k = 0; k < n; k++) { PluginSpec s; s.name = NM[k]; s.type = PT_REC; P->U.push_back(s); }
    P->T = 2;
    Step a, b;
    for (int k = 0; k < n; k++) { ChainOp o; o.kind = C_INSTALL; o.plugin = k; a.ops.push_back(o); }
    for (int k = 0; k < n; k++) if (!(mask >> k & 1)) { ChainOp o; o.kind = C_DISABLE; o.plugin = k; a.ops.push_back(o); }
    if (mode == 0 || mode == 2 || mode == 3) a.script.pre_fail = 1u << who;
    if (mode == 1 || mode == 2) a.script.post_fail = 1u << who;
    if (mode == 3) { a.script.post_fail = 1u << ((who + 1) % n); a.script.complaints = 2; }
    if (ending == 1) { Op o; o.kind = OP_FAIL_CPP; o.target = o.value = 0; a.script.ph[1].push_back(o); }
    if (ending == 2) { Op o; o.kind = OP_CHECK_C; o.target = o.value = 0; a.script.ph[0].push_back(o); }
    P->steps.push_back(a); P->steps.push_back(b);
    P->runs.resize(1);
    run_program(c, P);
}

// ---------------------------------------------------------------- section: unrestored redirections, then a new SetPointerPlugin object, enumerated
// private registry: how the facility is absent {installed but disabled, never installed, installed then removed by name} x unrestored redirections
// {1, 3 on one target, 32 (table full), 34 (overflows inside the window)} x the new object {same plugin replaced and installed, another SetPointerPlugin
// constructed and installed} x first judged test {same target once, another target + FAIL, no redirection, exactly 32 redirections (must pass)} x
// location rewritten in between {no, yes} x operations placed {between runs, between tests of one run};
// command line runner: the runner's plugin disabled {directly, by name} during run 1 x the same unrestored / judged / rewritten dimensions, run 2 = new plugin object.
// A second judged test (repeated target) follows.
static const int UR_STALE[] = { 1, 3, 32, 34 };
static uint64_t unrestored_total() { return 3 * 4 * 2 * 4 * 2 * 2 + 2 * 4 * 4 * 2; }
static void sec_unrestored_enum(vf::Ctx& c) {
    uint64_t i = c.idx;
    const uint64_t NPRIV = 3 * 4 * 2 * 4 * 2 * 2;
    bool runner = i >= NPRIV;
    if (runner) i -= NPRIV;
    int absent = (int) (i % (runner ? 2 : 3)); i /= (runner ? 2 : 3);
    int nstale = UR_STALE[i % 4]; i /= 4;
    int newobj = 0; if (!runner) { newobj = (int) (i % 2); i /= 2; }
    int judged = (int) (i % 4); i /= 4;
    int rewrite = (int) (i % 2); i /= 2;
    int between = runner ? 0 : (int) (i % 2);
    const int T0 = (int) (c.idx % NT), T1 = (T0 + 3) % NT;
    auto P = std::make_shared<Program>();
    Script stale, first, second;
    for (int t = 0; t < NT; t++) stale.baseline[t] = (int8_t) (1 + (t + nstale) % 6);
    for (int k = 0; k < nstale; k++) {
        Op o; o.kind = OP_SET; o.target = (uint8_t) (nstale <= 3 ? T0 : (T0 + k) % NT); o.value = (uint8_t) ((k * 3 + 2) % NV);
        stale.ph[k % 3 == 2 ? 2 : k % 3].push_back(o);
    }
    if (rewrite) for (int t = 0; t < NT; t++) first.baseline[t] = (int8_t) ((t + nstale + 3) % NV);       // the program moves on: the locations legitimately get other values
    if (judged == 0) { Op o; o.kind = OP_SET; o.target = (uint8_t) T0; o.value = 5; first.ph[1].push_back(o); }
    if (judged == 1) { Op o; o.kind = OP_SET; o.target = (uint8_t) T1; o.value = 0; first.ph[0].push_back(o); o.kind = OP_FAIL_CPP; first.ph[1].push_back(o); }
    if (judged == 3) for (int k = 0; k < LIMIT; k++) { Op o; o.kind = OP_SET; o.target = (uint8_t) ((T0 + k * 3) % NT); o.value = (uint8_t) ((k + 1) % NV); first.ph[k & 1].push_back(o); }
    { Op o; o.kind = OP_SET; o.target = (uint8_t) T0; o.value = 2; second.ph[0].push_back(o); o.value = 4; second.ph[1].push_back(o); o.target = (uint8_t) T1; o.value = 6; second.ph[2].push_back(o); second.baseline[T0] = 6; }
    auto op = [](int kind, int p) { ChainOp o; o.kind = kind; o.plugin = p; return o; };
    if (!runner) {
        { PluginSpec s; s.name = "before"; s.type = PT_REC; P->U.push_back(s); }
        { PluginSpec s; s.name = "SetPointerPlugin"; s.type = (c.idx & 1) ? PT_SPP_PLAIN : PT_SPP_REC; P->U.push_back(s); }
        { PluginSpec s; s.name = "after"; s.type = PT_REC; P->U.push_back(s); }
        { PluginSpec s; s.name = "SetPointerPlugin2"; s.type = (c.idx & 2) ? PT_SPP_PLAIN : PT_SPP_REC; P->U.push_back(s); }
        Step A, B, C;
        A.ops.push_back(op(C_INSTALL, 0));
        if (absent != 1) A.ops.push_back(op(C_INSTALL, 1));
        A.ops.push_back(op(C_INSTALL, 2));
        if (absent == 0) A.ops.push_back(op((c.idx & 4) ? C_DISABLE : C_DISABLE_BYNAME, 1));
        if (absent == 2) A.ops.push_back(op(C_REMOVE, 1));
        A.script = stale;
        if (newobj == 0) { if (absent == 0) B.ops.push_back(op(C_REMOVE, 1)); B.ops.push_back(op(C_NEWOBJ, 1)); B.ops.push_back(op(C_INSTALL, 1)); }
        else { B.ops.push_back(op(C_NEWOBJ, 3)); B.ops.push_back(op(C_INSTALL, 3)); }
        B.script = first; C.script = second;
        P->steps.push_back(A); P->steps.push_back(B); P->steps.push_back(C);
        if (between == 0) { P->T = 1; P->runs.resize(3); } else { P->T = 3; P->runs.resize(1); }
    } else {
        { PluginSpec s; s.name = "before"; s.type = PT_REC; P->U.push_back(s); }
        { PluginSpec s; s.name = DEF_PLUGIN_SET_POINTER; s.type = PT_RUNNER_SPP; P->U.push_back(s); }
        P->runner = true; P->T = 2;
        Step A0, A1, B0, B1;
        A0.ops.push_back(op(C_INSTALL, 0));
        A0.script = second;
        A1.ops.push_back(op(absent == 0 ? C_DISABLE : C_DISABLE_BYNAME, 1));
        A1.script = stale;
        B0.script = first; B1.script = second;
        P->steps.push_back(A0); P->steps.push_back(A1); P->steps.push_back(B0); P->steps.push_back(B1);
        RunSpec rs; rs.args.push_back("c17"); rs.args.push_back("-e");
        P->runs.push_back(rs); P->runs.push_back(rs);
    }
    run_program(c, P);
}

// ---------------------------------------------------------------- section: enabled flags switched while a test runs, enumerated
// chain H > A > S > B > T (S = SetPointerPlugin, recording / plain; the others recording plugins). One flag is switched while the first test runs:
// target {A, S, B} x switched by {first statement of setup, first statement of the body, last statement of teardown, pre action of H (in front of the target),
// pre action of T (behind it: the target's own pre action has been decided), post action of H (runs last), post action of T (runs first)} x initial flag {enabled, disabled}
// x switched back {never, later in the test / in the post action of the same plugin, in the post action of T} x redirections {none, 3 in the body (one location twice),
// 4 over setup / body / teardown} x ending {pass, FAIL in the body, CHECK_C in setup}. A plain second test (repeated location) follows; when the first test leaves
// unrestored entries a new SetPointerPlugin object is constructed in between.
static uint64_t switch_enum_total() { return 3 * 7 * 2 * 3 * 3 * 3; }
static void sec_switch_enum(vf::Ctx& c) {
    uint64_t i = c.idx;
    int tsel = (int) (i % 3); i /= 3;
    int where = (int) (i % 7); i /= 7;
    int initial = (int) (i % 2); i /= 2;
    int back = (int) (i % 3); i /= 3;
    int sets = (int) (i % 3); i /= 3;
    int ending = (int) (i % 3);
    static const int TARGET[3] = { 3, 2, 1 };
    const int T = 0, S = 2, H = 4, tgt = TARGET[tsel];
    const int T0 = (int) (c.idx % NT), T1 = (T0 + 3) % NT;
    auto P = std::make_shared<Program>();
    static const char* NM[] = { "T", "B", "SetPointerPlugin", "A", "H" };
    for (int k = 0; k < 5; k++) { PluginSpec u; u.name = NM[k]; u.type = k == S ? ((c.idx / 3) & 1 ? PT_SPP_PLAIN : PT_SPP_REC) : PT_REC; P->U.push_back(u); }
    auto op = [](int kind, int p) { ChainOp o; o.kind = kind; o.plugin = p; return o; };
    auto set = [](int t, int v) { Op o; o.kind = OP_SET; o.target = (uint8_t) t; o.value = (uint8_t) v; return o; };
    Step a, b;
    for (int k = 0; k < 5; k++) a.ops.push_back(op(C_INSTALL, k));
    if (!initial) a.ops.push_back(op((c.idx & 1) ? C_DISABLE : C_DISABLE_BYNAME, tgt));
    Script& s = a.script;
    for (int t = 0; t < NT; t++) s.baseline[t] = (int8_t) (1 + (t + where) % 6);
    if (sets == 1) { s.ph[1].push_back(set(T0, 2)); s.ph[1].push_back(set(T0, 4)); s.ph[1].push_back(set(T1, 6)); }
    if (sets == 2) { s.ph[0].push_back(set(T0, 3)); s.ph[1].push_back(set(T0, 5)); s.ph[1].push_back(set(T1, 0)); s.ph[2].push_back(set(T1, 2)); }
    if (ending == 1) { Op o; o.kind = OP_FAIL_CPP; o.target = o.value = 0; s.ph[1].push_back(o); }
    if (ending == 2) { Op o; o.kind = OP_CHECK_C; o.target = o.value = 0; s.ph[0].push_back(o); }
    const bool flip = !initial;
    auto in_test = [&](int ph, bool front, bool en) { Op o; o.kind = en ? OP_ENABLE : OP_DISABLE; o.target = (uint8_t) tgt; o.value = 0; if (front) s.ph[ph].insert(s.ph[ph].begin(), o); else s.ph[ph].push_back(o); };
    auto by_action = [&](int by, bool post, bool en) { ActTog x; x.by = by; x.post = post; x.target = tgt; x.enable = en; s.atog.push_back(x); };
    switch (where) {
    case 0: in_test(0, true, flip); break;
    case 1: in_test(1, true, flip); break;
    case 2: in_test(2, false, flip); break;
    case 3: by_action(H, false, flip); break;
    case 4: by_action(T, false, flip); break;
    case 5: by_action(H, true, flip); break;
    default: by_action(T, true, flip); break;
    }
    if (back == 1) { if (where < 3) in_test(2, false, !flip); else if (where < 5) by_action(where == 3 ? H : T, true, !flip); }
    if (back == 2) by_action(T, true, !flip);
    Model M(P.get());
    for (const ChainOp& o : a.ops) M.apply(o);
    after_script(*P, M, a.script);
    if (M.stale) { b.ops.push_back(op(C_REMOVE, S)); b.ops.push_back(op(C_NEWOBJ, S)); b.ops.push_back(op(C_INSTALL, S)); }
    else if (!M.enabled[S]) b.ops.push_back(op(C_ENABLE, S));
    { b.script.ph[0].push_back(set(T0, 2)); b.script.ph[1].push_back(set(T0, 4)); b.script.ph[2].push_back(set(T1, 6)); b.script.baseline[T0] = 6; }
    P->T = 2;
    P->steps.push_back(a); P->steps.push_back(b);
    P->runs.resize(1);
    run_program(c, P);
}

int main(int argc, char** argv) {
    init_pool();
    reset_targets();
    std::vector<vf::Section> S = {
        { "remove_by_name_enumerated", remove_enum_total(), remove_enum_total(), sec_remove_enum, true },
        { "limit_enumerated", limit_enum_total(), limit_enum_total(), sec_limit_enum, true },
        { "failing_actions_enumerated", failing_actions_total(), failing_actions_total(), sec_failing_actions_enum, true },
        { "unrestored_then_new_plugin_enumerated", unrestored_total(), unrestored_total(), sec_unrestored_enum, true },
        { "flags_switched_while_a_test_runs_enumerated", switch_enum_total(), switch_enum_total(), sec_switch_enum, true },
        { "pointer_programs", 15000, 200000, sec_ptr_programs, false },
        { "chain_programs", 15000, 200000, sec_chain_programs, false },
        { "command_line_runner_programs", 6000, 80000, sec_runner, false },
    };
    return vf::harness_main(argc, argv, S, nullptr);
}
