// C05 — tracked allocations return sound blocks for every size, or fail cleanly.
//
// The real entry points (operator new / new[] / nothrow / (file,line) forms, cpputest_malloc / calloc /
// realloc / strdup / strndup and the matching releases) run against a PRIVATE MemoryLeakDetector that is
// installed as the global one for the duration of a scenario, inside a TestTestingFixture test (so that
// cpputest's own "malloc returned null pointer" failure is *recorded* and leaves by exception).
//
// Monitors
//   * platform seam recorder: PlatformSpecificMalloc / Realloc / Free are replaced for the whole process.
//     Inside an API call they log every underlying request, refuse anything above 64 MiB, hand out
//     garbage-filled memory, inject NULL at a chosen call index, and realloc always moves (and frees +
//     returns NULL for size 0, exactly like glibc's realloc which is the shipped binding).
//   * recording TestMemoryAllocators (optional mode): see the size given back on release and can return
//     NULL at the k-th data allocation (the way cpputest's own FailableMemoryAllocator does).
//   * model: slot table {pointer, size, family, id}; every block is filled with an id pattern; after every
//     operation all live patterns, the detector total and the misuse-callback count are compared.
//   * ASan/UBSan: every byte of the requested extent is written (blocks above 4 MiB: both ends + stride).
//
// Configuration dimensions of every scenario: which overload set is active (default or THREAD-SAFE new/delete/malloc
// overloads, driven from one thread; no misuse is generated, only allocation failure) and whether recording
// TestMemoryAllocators are installed. Simulated out-of-memory through the C interface (cpputest_malloc_set_out_of_memory,
// expired countdown) is exercised under both overload sets, realloc of NULL and of live blocks included.
//
// Nothing in the monitored window allocates through operator new: all monitor state is static / shared.
#include "verif.h"
#include <new>
#include <exception>
#include <climits>
#include <cstddef>
#include <cstdarg>
#include <sys/mman.h>
#include <sys/wait.h>
#include <signal.h>

#include "CppUTest/TestHarness.h"
#include "CppUTest/TestTestingFixture.h"
#include "CppUTest/TestHarness_c.h"
#include "CppUTest/MemoryLeakDetector.h"
#include "CppUTest/MemoryLeakWarningPlugin.h"
#include "CppUTest/TestMemoryAllocator.h"
#include "CppUTest/PlatformSpecificFunctions.h"
#undef new
#ifdef malloc
#undef malloc
#undef free
#undef calloc
#undef realloc
#undef strdup
#undef strndup
#endif

extern "C" const char* __asan_default_options() { return "quarantine_size_mb=48"; }

typedef unsigned __int128 u128;
static const size_t SEAM_LIMIT = 64u << 20;     // the platform seam refuses anything above 64 MiB
static const size_t FULL_FILL = 4u << 20;       // blocks up to this size are written/checked completely
static const size_t EDGE = 64u << 10;
static const size_t GUARD = MemoryLeakDetector::memory_corruption_buffer_size;

// ------------------------------------------------------------------------------------------------ entry points
enum EP { EP_NEW, EP_NEWA, EP_NEW_NT, EP_NEWA_NT, EP_NEW_DBG, EP_NEWA_DBG, EP_MALLOC, EP_CALLOC, EP_REALLOC_NULL, EP_REALLOC, EP_STRDUP, EP_STRNDUP, EP_N };
static const char* EP_NAME[] = { "new", "new[]", "new(nothrow)", "new[](nothrow)", "new(file,line)", "new[](file,line)", "malloc", "calloc", "realloc(NULL)", "realloc(live)", "strdup", "strndup" };
static const int EP_FAM[] = { 0, 1, 0, 1, 0, 1, 2, 2, 2, 2, 2, 2 };       // 0 new, 1 new[], 2 malloc
static bool ep_nothrow(int ep) { return ep == EP_NEW_NT || ep == EP_NEWA_NT; }
static bool ep_malloc_location(int ep) { return ep == EP_MALLOC || ep == EP_CALLOC || ep == EP_STRDUP || ep == EP_STRNDUP; }

// called through volatile pointers: the compiler must not assume anything about the replaceable operators
static void* (*volatile fp_new)(size_t) = static_cast<void* (*)(size_t)>(::operator new);
static void* (*volatile fp_newa)(size_t) = static_cast<void* (*)(size_t)>(::operator new[]);
static void* (*volatile fp_new_nt)(size_t, const std::nothrow_t&) = static_cast<void* (*)(size_t, const std::nothrow_t&)>(::operator new);
static void* (*volatile fp_newa_nt)(size_t, const std::nothrow_t&) = static_cast<void* (*)(size_t, const std::nothrow_t&)>(::operator new[]);
static void* (*volatile fp_new_dbg)(size_t, const char*, size_t) = static_cast<void* (*)(size_t, const char*, size_t)>(::operator new);
static void* (*volatile fp_newa_dbg)(size_t, const char*, size_t) = static_cast<void* (*)(size_t, const char*, size_t)>(::operator new[]);
static void (*volatile fp_del)(void*) = static_cast<void (*)(void*)>(::operator delete);
static void (*volatile fp_dela)(void*) = static_cast<void (*)(void*)>(::operator delete[]);

enum Out { O_OK, O_NULL, O_BADALLOC, O_FAILREC, O_OTHEREXC, O_N };
static const char* OUT_NAME[] = { "ok", "null", "bad_alloc", "recorded-failure", "other-exception" };

// ------------------------------------------------------------------------------------------------ pending results (shared with a contained child)
struct PViol { char key[200]; char detail[700]; };
struct PCount { char name[96]; uint64_t n; };
struct Pending {
    int nviol; PViol viol[16];
    int ncount; PCount counts[160];
    int nsig; char sig[200][112];
    volatile int in_op, cur_step, cur_ep, cur_mode;     // marker read by the parent when a contained child dies
    volatile uint64_t cur_size;
    // results of a scenario run that the parent needs
    long n_seam_calls, n_alloc_calls, n_mloc_calls;
    unsigned short call_step[512]; unsigned char call_kind[512];
    int finished;
};
static Pending* PD;

static void pv(const char* key, const char* fmt, ...) {
    for (int i = 0; i < PD->nviol; i++) if (strcmp(PD->viol[i].key, key) == 0) return;   // one record per key and case
    if (PD->nviol >= 16) return;
    PViol& v = PD->viol[PD->nviol++];
    snprintf(v.key, sizeof v.key, "%s", key);
    va_list ap; va_start(ap, fmt); vsnprintf(v.detail, sizeof v.detail, fmt, ap); va_end(ap);
}
static void pvf(const char* detail, const char* keyfmt, ...) {
    char key[200]; va_list ap; va_start(ap, keyfmt); vsnprintf(key, sizeof key, keyfmt, ap); va_end(ap);
    pv(key, "%s", detail);
}
static void pc(const char* name, uint64_t n = 1) {
    for (int i = 0; i < PD->ncount; i++) if (strcmp(PD->counts[i].name, name) == 0) { PD->counts[i].n += n; return; }
    if (PD->ncount >= 160) return;
    snprintf(PD->counts[PD->ncount].name, sizeof PD->counts[0].name, "%s", name); PD->counts[PD->ncount++].n = n;
}
static void pcf(const char* fmt, ...) { char b[96]; va_list ap; va_start(ap, fmt); vsnprintf(b, sizeof b, fmt, ap); va_end(ap); pc(b); }
static void psig(const char* fmt, ...) {
    if (PD->nsig >= 200) return;
    va_list ap; va_start(ap, fmt); vsnprintf(PD->sig[PD->nsig++], sizeof PD->sig[0], fmt, ap); va_end(ap);
}

// ------------------------------------------------------------------------------------------------ platform seam
struct SeamCall { int kind; size_t size; char* arg; char* ret; bool injected, refused, freed_old; };   // kind 0 malloc 1 realloc 2 free
static SeamCall g_log[48]; static int g_nlog;
static bool g_in_window, g_in_op;
static long g_seam_idx, g_fault_at = -1; static int g_fault_len = 1;
static long g_op_serial, g_fault_op_serial = -1;     // a double fault is confined to one request
static int g_cur_step;
struct UB { char* p; size_t size; };
static UB g_ub[8192]; static int g_nub;

static int ub_find(char* p) { for (int i = g_nub - 1; i >= 0; i--) if (g_ub[i].p == p) return i; return -1; }
static void ub_add(char* p, size_t n) { if (g_nub < 8192) { g_ub[g_nub].p = p; g_ub[g_nub].size = n; g_nub++; } }
static void ub_del(int i) { g_ub[i] = g_ub[--g_nub]; }
static void garbage(char* p, size_t from, size_t n) {
    if (n <= from) return;
    if (n - from <= FULL_FILL) memset(p + from, 0xA5, n - from);
    else { memset(p + from, 0xA5, EDGE); memset(p + n - EDGE, 0xA5, EDGE); }
}
static SeamCall* slog(int kind, size_t size, char* arg) {
    static SeamCall dummy;
    SeamCall* e = g_nlog < 48 ? &g_log[g_nlog++] : &dummy;
    e->kind = kind; e->size = size; e->arg = arg; e->ret = nullptr; e->injected = e->refused = e->freed_old = false;
    return e;
}
static bool seam_fault_now(int kind) {
    long idx = g_seam_idx++;
    if (idx < 512) { PD->call_step[idx] = (unsigned short) g_cur_step; PD->call_kind[idx] = (unsigned char) kind; }
    if (g_fault_at < 0) return false;
    if (idx == g_fault_at) { g_fault_op_serial = g_op_serial; return true; }
    return idx > g_fault_at && idx < g_fault_at + g_fault_len && g_fault_op_serial == g_op_serial;
}
static void* seam_malloc(size_t size) {
    if (!g_in_op) return malloc(size);
    SeamCall* e = slog(0, size, nullptr);
    e->injected = seam_fault_now(0);
    e->refused = size > SEAM_LIMIT;
    if (e->injected || e->refused) return nullptr;
    char* p = (char*) malloc(size);
    if (p) { garbage(p, 0, size); ub_add(p, size); }
    e->ret = p;
    return p;
}
static void seam_free(void* mem) {
    if (mem == nullptr) return;
    if (g_nub) { int i = ub_find((char*) mem); if (i >= 0) ub_del(i); }
    if (g_in_op) { SeamCall* e = slog(2, 0, (char*) mem); (void) e; }
    free(mem);
}
static void* seam_realloc(void* mem, size_t size) {
    if (!g_in_op) return realloc(mem, size);
    SeamCall* e = slog(1, size, (char*) mem);
    e->injected = seam_fault_now(1);
    e->refused = size > SEAM_LIMIT;
    if (e->injected || e->refused) return nullptr;
    if (mem && size == 0) {                       // glibc: realloc(p, 0) frees p and returns NULL
        int i = ub_find((char*) mem); if (i >= 0) ub_del(i);
        free(mem); e->freed_old = true; return nullptr;
    }
    char* q = (char*) malloc(size);
    if (!q) return nullptr;
    size_t keep = 0;
    if (mem) {
        int i = ub_find((char*) mem);
        if (i < 0) { free(q); q = (char*) realloc(mem, size); if (q) ub_add(q, size); e->ret = q; e->freed_old = q != nullptr; return q; }   // block of unknown origin: plain realloc
        keep = g_ub[i].size < size ? g_ub[i].size : size;
        memcpy(q, mem, keep);
        ub_del(i); free(mem); e->freed_old = true;
    }
    garbage(q, keep, size);
    ub_add(q, size);
    e->ret = q;
    return q;
}

// ------------------------------------------------------------------------------------------------ recording TestMemoryAllocators and reporter
static long g_alloc_idx, g_alloc_fault_at = -1;
static char* g_free_ptr; static size_t g_free_size; static int g_free_calls;
struct RecAllocator : public TestMemoryAllocator {
    RecAllocator(const char* n, const char* a, const char* f) : TestMemoryAllocator(n, a, f) {}
    char* alloc_memory(size_t size, const char* file, size_t line) {
        bool node = file && strcmp(file, "MemoryLeakNode") == 0;
        if (g_in_op && !node) { long idx = g_alloc_idx++; if (idx == g_alloc_fault_at) return nullptr; }
        return TestMemoryAllocator::alloc_memory(size, file, line);
    }
    void free_memory(char* memory, size_t size, const char* file, size_t line) {
        bool node = file && strcmp(file, "MemoryLeakNode") == 0;
        if (g_in_op && !node) { g_free_ptr = memory; g_free_size = size; g_free_calls++; }
        TestMemoryAllocator::free_memory(memory, size, file, line);
    }
};
static RecAllocator* recNew; static RecAllocator* recNewA; static RecAllocator* recMalloc;

struct RecFailure : public MemoryLeakFailure {
    int n; char first[240];
    RecFailure() : n(0) { first[0] = 0; }
    void fail(char* s) {
        // the detector's buffer accumulates: keep the last message's category line
        n++;
        const char* cats[] = { "Deallocating non-allocated memory", "Allocation/deallocation type mismatch", "Memory corruption (written out of bounds?)" };
        const char* last = nullptr; const char* which = "other";
        for (const char* cat : cats) { const char* p = s; const char* q; while ((q = strstr(p, cat)) != nullptr) { if (!last || q > last) { last = q; which = cat; } p = q + 1; } }
        snprintf(first, sizeof first, "%s", which);
    }
};
static RecFailure g_rec;
static MemoryLeakDetector* g_priv; static MemoryLeakDetector* g_origDet; static MemoryLeakFailure* g_origRep;
static const char* cat_key(const char* c) {
    if (strstr(c, "non-allocated")) return "not-tracked";
    if (strstr(c, "mismatch")) return "type-mismatch";
    if (strstr(c, "corruption")) return "guard-damaged";
    return "other";
}

// ------------------------------------------------------------------------------------------------ script and model
enum OpKind { OP_ALLOC, OP_REALLOC, OP_FREE, OP_OOM_ON, OP_OOM_OFF };
struct Step { unsigned char op, ep; unsigned short slot; size_t n, cnt, lim; };   // alloc: n bytes (calloc: cnt x n; strdup: strlen n; strndup: strlen n, limit lim); realloc: slot -> n
static const int MAXSTEP = 96, MAXSLOT = 48;
static Step g_steps[MAXSTEP]; static int g_nsteps;
struct Cfg { bool threadsafe, recording; int fault_kind; long fault_k; int fault_len; };   // fault_kind: -1 none, 0 seam, 1 allocator-level NULL, 2 C countdown, 3 seam double
static Cfg g_cfg;
static const char* g_section = "";

struct Blk { bool live, untracked; char* p; size_t n; int fam, ep; uint32_t id; };
static Blk g_slot[MAXSLOT];
static uint32_t g_next_id;
static int g_failrec;             // recorded-failure outcomes seen in this scenario
static long g_bias;               // records the detector is known to lack (+) or to have in excess (-) relative to the model, after a reported/observed discrepancy
static int g_cb_seen;
static TestTestingFixture* g_fx;
static bool g_oom_active;
static char* g_str;               // strdup source buffer (1 MiB + slack), from plain malloc
static const size_t STR_MAX = (1u << 20) + 64;

// id pattern: a window into a fixed pseudo-random table, so that whole blocks are written/compared with memcpy/memcmp
static unsigned char g_tab[8192];
static void init_tab() { vf::Rng r(0xC05, 1, 2); for (size_t i = 0; i < 4096; i++) g_tab[i] = g_tab[i + 4096] = (unsigned char) r.next(); }
static inline size_t pat_off(uint32_t id) { return (size_t) ((id * 97u + 11u) & 4095u); }
static inline unsigned char pat(uint32_t id, size_t i) { return g_tab[(pat_off(id) + i) & 4095u]; }
static inline unsigned char strbyte(uint32_t id, size_t i) { return (unsigned char) (1 + ((id * 7u + (unsigned) i * 13u + (unsigned) (i >> 5)) % 255u)); }

template <class F> static void for_positions(size_t n, F f) {      // sampled positions of a block above FULL_FILL
    for (size_t i = 0; i < EDGE; i++) if (!f(i)) return;
    for (size_t i = EDGE; i < n - EDGE; i += 4093) if (!f(i)) return;
    for (size_t i = n - EDGE; i < n; i++) if (!f(i)) return;
}
static void fill_range(char* p, uint32_t id, size_t n) {
    size_t o = pat_off(id);
    for (size_t i = 0; i < n;) { size_t w = (o + i) & 4095u, len = 4096 - w; if (len > n - i) len = n - i; memcpy(p + i, g_tab + w, len); i += len; }
}
static long long check_range(const char* p, uint32_t id, size_t n) {
    size_t o = pat_off(id);
    for (size_t i = 0; i < n;) {
        size_t w = (o + i) & 4095u, len = 4096 - w; if (len > n - i) len = n - i;
        if (memcmp(p + i, g_tab + w, len) != 0) { for (size_t j = 0; j < len; j++) if ((unsigned char) p[i + j] != g_tab[w + j]) return (long long) (i + j); }
        i += len;
    }
    return -1;
}
static void fill_block(const Blk& b) {
    if (b.n <= FULL_FILL) { fill_range(b.p, b.id, b.n); return; }
    char* p = b.p; uint32_t id = b.id; for_positions(b.n, [=](size_t i) { p[i] = (char) pat(id, i); return true; });
}
// first damaged offset below `upto` among the positions that fill_block wrote for a block of b.n bytes, or -1
static long long check_block(const Blk& b, size_t upto) {
    if (b.n <= FULL_FILL) return check_range(b.p, b.id, upto < b.n ? upto : b.n);
    long long bad = -1; const char* p = b.p; uint32_t id = b.id;
    for_positions(b.n, [&](size_t i) { if (i >= upto) return false; if ((unsigned char) p[i] != pat(id, i)) { bad = (long long) i; return false; } return true; });
    return bad;
}
static long long first_nonzero(const char* p, size_t n) {
    if (n <= FULL_FILL) { for (size_t i = 0; i < n; i++) if (p[i]) return (long long) i; return -1; }
    long long bad = -1; for_positions(n, [&](size_t i) { if (p[i]) { bad = (long long) i; return false; } return true; }); return bad;
}
static int live_count() { int n = 0; for (int i = 0; i < MAXSLOT; i++) n += g_slot[i].live; return n; }

static void size_class(size_t n, char* out, size_t cap, bool* near) {
    if (n >= SIZE_MAX - 64) { snprintf(out, cap, "max-%zu", SIZE_MAX - n); *near = true; return; }
    int bestk = -1; long long bestd = 0;
    for (int k = 0; k < 64; k++) {
        size_t p = (size_t) 1 << k;
        size_t d = n > p ? n - p : p - n;
        if (d <= 64 && (bestk < 0 || (long long) d < (bestd < 0 ? -bestd : bestd))) { bestk = k; bestd = n >= p ? (long long) d : -(long long) d; }
    }
    if (bestk >= 0) { snprintf(out, cap, "2^%d%+lld", bestk, bestd); *near = true; return; }
    int bits = 0; for (size_t v = n; v; v >>= 1) bits++;
    snprintf(out, cap, "b%d", bits); *near = false;
}

// ------------------------------------------------------------------------------------------------ op execution
static void begin_op(int step, int ep, size_t size) {
    g_nlog = 0; g_cur_step = step; g_op_serial++;
    PD->cur_step = step; PD->cur_ep = ep; PD->cur_size = size; PD->in_op = 1;
    g_in_op = true;
}
static void end_op() { g_in_op = false; PD->in_op = 0; }

static Out call_alloc(const Step& s, char* oldp, char** res) {
    void* p = nullptr;
    try {
        switch (s.ep) {
        case EP_NEW: p = fp_new(s.n); break;
        case EP_NEWA: p = fp_newa(s.n); break;
        case EP_NEW_NT: p = fp_new_nt(s.n, std::nothrow); break;
        case EP_NEWA_NT: p = fp_newa_nt(s.n, std::nothrow); break;
        case EP_NEW_DBG: p = fp_new_dbg(s.n, "c05_dbg.cpp", (size_t) 77); break;
        case EP_NEWA_DBG: p = fp_newa_dbg(s.n, "c05_dbg.cpp", (size_t) 78); break;
        case EP_MALLOC: p = cpputest_malloc(s.n); break;
        case EP_CALLOC: p = cpputest_calloc(s.cnt, s.n); break;
        case EP_REALLOC_NULL: p = cpputest_realloc(nullptr, s.n); break;
        case EP_REALLOC: p = cpputest_realloc(oldp, s.n); break;
        case EP_STRDUP: p = cpputest_strdup(g_str); break;
        case EP_STRNDUP: p = cpputest_strndup(g_str, s.lim); break;
        }
    } catch (const std::bad_alloc&) { *res = nullptr; return O_BADALLOC; }
    catch (const CppUTestFailedException&) { *res = nullptr; return O_FAILREC; }
    catch (...) { *res = nullptr; return O_OTHEREXC; }
    *res = (char*) p;
    return p ? O_OK : O_NULL;
}
static void call_release(int fam, char* p) {
    try {
        if (fam == 0) fp_del(p); else if (fam == 1) fp_dela(p); else cpputest_free(p);
    } catch (...) { pv("exception-from-release", "a release entry point threw"); }
}

static void check_callbacks(const char* what, int ep, Out o) {
    if (g_rec.n != g_cb_seen) {
        char d[300]; snprintf(d, sizeof d, "%d misuse callback(s) during %s via %s (outcome %s): %s", g_rec.n - g_cb_seen, what, EP_NAME[ep], OUT_NAME[o], g_rec.first);
        pvf(d, "callback-during-%s:%s:%s:%s", what, EP_NAME[ep], OUT_NAME[o], cat_key(g_rec.first));
        g_cb_seen = g_rec.n;
    }
}

// all live blocks intact, detector total == model. suspect: the slot whose record is the one that is missing when the total is short
static void verify_all(int ep, Out o, const char* what, int suspect = -1) {
    for (int i = 0; i < MAXSLOT; i++) {
        if (!g_slot[i].live) continue;
        long long bad = check_block(g_slot[i], g_slot[i].n);
        if (bad >= 0) {
            char d[300]; snprintf(d, sizeof d, "live block in slot %d (%s, %zu bytes, id %u) changed at offset %lld after %s via %s (outcome %s)", i, EP_NAME[g_slot[i].ep], g_slot[i].n, g_slot[i].id, bad, what, EP_NAME[ep], OUT_NAME[o]);
            pvf(d, "live-block-damaged:after-%s:%s:%s", what, EP_NAME[ep], OUT_NAME[o]);
            fill_block(g_slot[i]);      // repair so that one defect gives one record
        }
    }
    long raw = (long) g_priv->totalMemoryLeaks(mem_leak_period_all), total = raw + g_bias;
    long model = (long) live_count();
    if (total < model) {
        char d[300]; snprintf(d, sizeof d, "detector tracks %ld blocks where %ld are expected (%ld live blocks in the model) after %s via %s (outcome %s)", raw, model - g_bias, model, what, EP_NAME[ep], OUT_NAME[o]);
        pvf(d, "tracking-lost:after-%s:%s:%s%s", what, EP_NAME[ep], OUT_NAME[o], g_cfg.fault_kind == 3 ? ":double-fault" : "");
        if (suspect >= 0) g_slot[suspect].untracked = true;
    } else if (total > model) pc("obs_record_without_a_live_block");      // e.g. a request that failed but left a record, or an unsound block the harness did not keep
    g_bias += model - total;
}

static SeamCall* seam_entry_for(char* p) {
    for (int i = g_nlog - 1; i >= 0; i--) {
        SeamCall& e = g_log[i];
        if (e.kind == 2 || !e.ret) continue;
        if (p >= e.ret && (p < e.ret + e.size || (e.size == 0 && p == e.ret))) return &e;
    }
    return nullptr;
}
static bool seam_freed(char* p) {
    for (int i = 0; i < g_nlog; i++) if ((g_log[i].kind == 2 && g_log[i].arg == p) || (g_log[i].kind == 1 && g_log[i].arg == p && g_log[i].freed_old)) return true;
    return false;
}

// judge a non-NULL result: extent, alignment, overlap. Returns false when the block must not be touched.
static bool judge_block(int ep, char* p, size_t n, int skip_slot) {
    char d[300];
    bool ok = true;
    SeamCall* e = seam_entry_for(p);
    if (e) {
        size_t avail = e->size - (size_t) (p - e->ret);
        pc("extent_checked_against_seam_request");
        if (avail < n) {
            snprintf(d, sizeof d, "%s returned a block for %zu bytes but the underlying request was %zu bytes (%zu usable from the returned address)", EP_NAME[ep], n, e->size, avail);
            pvf(d, "undersized-block:%s", EP_NAME[ep]); ok = false;
        } else if (avail - n < GUARD) pc("obs_no_room_for_guard_in_underlying_block");
        size_t want = n >= 16 ? 16 : 1; while (want * 2 <= n && want < 16) want *= 2;
        if (((uintptr_t) e->ret % 16) == 0 && ((uintptr_t) p % want) != 0) {
            snprintf(d, sizeof d, "%s(%zu) returned %p: not aligned to %zu although the platform block %p is", EP_NAME[ep], n, (void*) p, want, (void*) e->ret);
            pvf(d, "misaligned-block:%s", EP_NAME[ep]);
        }
    } else {
        pc("obs_extent_not_attributable_to_a_seam_call");
    }
    for (int i = 0; i < MAXSLOT; i++) {
        if (!g_slot[i].live || i == skip_slot) continue;
        char* q = g_slot[i].p; size_t m = g_slot[i].n ? g_slot[i].n : 1; size_t nn = n ? n : 1;
        bool disjoint = (uintptr_t) p + nn <= (uintptr_t) q || (uintptr_t) q + m <= (uintptr_t) p;
        if ((uintptr_t) p + nn < (uintptr_t) p) disjoint = false;     // wraps the address space
        if (!disjoint) {
            snprintf(d, sizeof d, "%s(%zu) returned %p which overlaps the live block %p+%zu in slot %d", EP_NAME[ep], n, (void*) p, (void*) q, g_slot[i].n, i);
            pvf(d, "overlaps-live-block:%s", EP_NAME[ep]); ok = false;
        }
    }
    return ok;
}

static bool c_oom_now() { return getCurrentMallocAllocator() == NullUnknownAllocator::defaultAllocator(); }
static void note_outcome(int ep, Out o, size_t n, bool fault_here) {
    pcf("outcome:%s:%s", EP_NAME[ep], OUT_NAME[o]);
    pcf("requests:%s-overloads:%s", g_cfg.threadsafe ? "threadsafe" : "default", EP_NAME[ep]);
    if (g_oom_active || c_oom_now()) pcf("c_oom_request:%s-overloads:%s:%s", g_cfg.threadsafe ? "threadsafe" : "default", EP_NAME[ep], OUT_NAME[o]);
    char cls[40]; bool near; size_class(n, cls, sizeof cls, &near);
    if (g_cfg.fault_kind >= 0) { if (fault_here) psig("%s:%s:fault%d:%s:%ld", EP_NAME[ep], cls, g_cfg.fault_kind, g_section, g_cfg.fault_k); }
    else if (near) psig("%s:%s", EP_NAME[ep], cls);
}
// was the injected fault consumed by the operation that just ended?  (a0: allocator-level call index before the operation)
static bool fault_here(long a0, int fam) {
    switch (g_cfg.fault_kind) {
    case 0: case 3: for (int i = 0; i < g_nlog; i++) if (g_log[i].injected) return true; return false;
    case 1: return g_alloc_fault_at >= a0 && g_alloc_fault_at < g_alloc_idx;
    case 2: return fam == 2 && c_oom_now();
    default: return false;
    }
}

static void accept_failure(int ep, Out o, size_t n) {
    if (o == O_OTHEREXC) { char d[200]; snprintf(d, sizeof d, "%s(%zu) left by an exception that is neither bad_alloc nor cpputest's test-failure exception", EP_NAME[ep], n); pvf(d, "unclean-failure:%s:foreign-exception", EP_NAME[ep]); }
    if (o == O_FAILREC) g_failrec++;
    if (o == O_NULL && (ep == EP_NEW || ep == EP_NEWA || ep == EP_NEW_DBG || ep == EP_NEWA_DBG)) pc("obs_throwing_new_returned_null");
}

static void do_alloc(int si) {
    const Step& s = g_steps[si];
    Blk& b = g_slot[s.slot];
    if (b.live) return;
    uint32_t id = ++g_next_id;
    size_t n = s.n; bool product_overflow = false;
    if (s.ep == EP_CALLOC) { u128 pr = (u128) s.cnt * (u128) s.n; if (pr > (u128) SIZE_MAX) { product_overflow = true; n = SIZE_MAX; } else n = (size_t) pr; }
    size_t srclen = 0;
    if (s.ep == EP_STRDUP || s.ep == EP_STRNDUP) {
        srclen = s.n; if (srclen > STR_MAX - 2) srclen = STR_MAX - 2;
        for (size_t i = 0; i < srclen; i++) g_str[i] = (char) strbyte(id, i);
        g_str[srclen] = 0;
        size_t copy = s.ep == EP_STRNDUP && s.lim < srclen ? s.lim : srclen;
        n = copy + 1;
    }
    long mloc0 = cpputest_malloc_get_count(), a0 = g_alloc_idx;
    begin_op(si, s.ep, n);
    char* p = nullptr;
    Out o = call_alloc(s, nullptr, &p);
    end_op();
    PD->n_mloc_calls += cpputest_malloc_get_count() - mloc0;
    note_outcome(s.ep, o, product_overflow ? SIZE_MAX : n, fault_here(a0, EP_FAM[s.ep]));
    check_callbacks("request", s.ep, o);
    if (o == O_OK) {
        char d[300];
        if (product_overflow) {
            snprintf(d, sizeof d, "calloc(%zu, %zu): the product exceeds SIZE_MAX but a block was returned", s.cnt, s.n);
            pv("undersized-block:calloc:product-overflow", "%s", d);
            verify_all(s.ep, o, "request");      // the block is neither touched nor released
            return;
        }
        bool touch = judge_block(s.ep, p, n, -1);
        if (touch) {
            if (s.ep == EP_CALLOC) {
                long long bad = first_nonzero(p, n);
                if (bad >= 0) { snprintf(d, sizeof d, "calloc(%zu, %zu): byte %lld of the block is 0x%02x", s.cnt, s.n, bad, (unsigned char) p[bad]); pv("calloc-nonzero-byte", "%s", d); }
                pc("calloc_blocks_checked_for_zero");
            }
            if (s.ep == EP_STRDUP || s.ep == EP_STRNDUP) {
                size_t copy = n - 1;
                char* ref = s.ep == EP_STRDUP ? (strdup)(g_str) : (strndup)(g_str, s.lim);      // libc (ASan) reference, outside the op
                bool same = ref && memcmp(ref, p, copy + 1) == 0 && memcmp(g_str, p, copy) == 0 && p[copy] == 0 && strlen(ref) == copy;
                if (!same) { snprintf(d, sizeof d, "%s of a %zu-byte string (limit %zu): result differs from libc within the first %zu bytes", EP_NAME[s.ep], srclen, s.lim, copy + 1); pvf(d, "string-copy-differs:%s", EP_NAME[s.ep]); }
                free(ref);
                pc("string_copies_compared_with_libc");
            }
            b.live = true; b.untracked = false; b.p = p; b.n = n; b.fam = EP_FAM[s.ep]; b.ep = s.ep; b.id = id;
            fill_block(b);
            pc("blocks_filled");
        } else {
            pc("obs_unsound_block_left_alone");      // neither touched nor released
        }
    } else accept_failure(s.ep, o, n);
    verify_all(s.ep, o, "request");
}

static void do_realloc(int si) {
    const Step& s = g_steps[si];
    Blk& b = g_slot[s.slot];
    if (!b.live || b.fam != 2) return;
    if (b.untracked) { pc("obs_realloc_skipped_on_a_block_already_reported_as_untracked"); return; }
    char d[300];
    uint32_t id = ++g_next_id;
    long a0 = g_alloc_idx;
    begin_op(si, EP_REALLOC, s.n);
    char* p = nullptr;
    Step call = s; call.ep = EP_REALLOC;
    Out o = call_alloc(call, b.p, &p);
    end_op();
    note_outcome(EP_REALLOC, o, s.n, fault_here(a0, 2));
    check_callbacks("request", EP_REALLOC, o);
    if (o == O_OK) {
        size_t keep = b.n < s.n ? b.n : s.n;
        bool touch = judge_block(EP_REALLOC, p, s.n, s.slot);
        if (touch) {
            Blk nb = b; nb.p = p;
            long long bad = check_block(nb, keep);
            if (bad >= 0) { snprintf(d, sizeof d, "realloc %zu -> %zu bytes: byte %lld of the preserved prefix (%zu bytes) changed", b.n, s.n, bad, keep); pv("realloc-prefix-lost", "%s", d); }
            pc("realloc_prefixes_checked");
            b.p = p; b.n = s.n; b.id = id; b.ep = EP_REALLOC;
            fill_block(b);
        } else { b.live = false; pc("obs_unsound_block_left_alone"); }
    } else {
        accept_failure(EP_REALLOC, o, s.n);
        if (seam_freed(b.p)) {
            // the request failed, but the platform has released the old block: it is no longer valid
            const char* why = s.n == 0 ? "size-0" : o == O_FAILREC ? "bookkeeping-allocation-failed-after-the-move" : "other";
            snprintf(d, sizeof d, "realloc(%p, %zu) of a live %zu-byte block ended with outcome %s, but the platform realloc had already released/moved the old block: the caller is left with an invalid block (detector total %zu, model %d)",
                     (void*) b.p, s.n, b.n, OUT_NAME[o], g_priv->totalMemoryLeaks(mem_leak_period_all), live_count());
            pvf(d, "realloc-failed-but-old-block-released:%s:%s", why, OUT_NAME[o]);
            // drop it from the model and from the detector without touching the memory
            g_priv->removeMemoryLeakInformationWithoutCheckingOrDeallocatingTheMemoryButDeallocatingTheAccountInformation(getCurrentMallocAllocator(), b.p, true);
            b.live = false;
            g_bias = (long) live_count() - (long) g_priv->totalMemoryLeaks(mem_leak_period_all);      // resynchronise silently: this defect has its own record
        }
    }
    verify_all(EP_REALLOC, o, "request", o != O_OK && b.live ? (int) s.slot : -1);
}

static void do_free(int slot) {
    Blk& b = g_slot[slot];
    if (!b.live) return;
    if (g_oom_active && b.fam == 2) { pc("obs_release_deferred_while_c_out_of_memory"); return; }
    char d[300];
    size_t before = g_priv->totalMemoryLeaks(mem_leak_period_all);
    g_free_calls = 0; g_free_ptr = nullptr; g_free_size = 0;
    begin_op(g_cur_step, b.ep, b.n);
    call_release(b.fam, b.p);
    end_op();
    b.live = false;
    pcf("release:%s", b.fam == 0 ? "delete" : b.fam == 1 ? "delete[]" : "free");
    if (g_rec.n != g_cb_seen && b.untracked && strcmp(cat_key(g_rec.first), "not-tracked") == 0) {
        pc("obs_release_of_a_block_already_reported_as_untracked"); g_cb_seen = g_rec.n; g_bias -= 1;
    } else if (g_rec.n != g_cb_seen) {
        snprintf(d, sizeof d, "releasing the %zu-byte block from %s raised a misuse callback: %s", b.n, EP_NAME[b.ep], g_rec.first);
        pvf(d, "callback-on-release:%s:%s", EP_NAME[b.ep], cat_key(g_rec.first));
        g_cb_seen = g_rec.n;
    } else {
        size_t after = g_priv->totalMemoryLeaks(mem_leak_period_all);
        if (after + 1 != before) { snprintf(d, sizeof d, "release of one block changed the detector total from %zu to %zu", before, after); pvf(d, "release-total-wrong:%s", EP_NAME[b.ep]); g_bias = (long) live_count() - (long) after; }
        if (g_cfg.recording) {
            if (g_free_calls != 1 || g_free_ptr != b.p) pc("obs_release_not_seen_by_recording_allocator");
            else if (g_free_size != b.n && g_free_size != 0) { snprintf(d, sizeof d, "block of %zu bytes from %s came back to its allocator with recorded size %zu: the bookkeeping record was altered", b.n, EP_NAME[b.ep], g_free_size); pvf(d, "bookkeeping-size-changed:%s", EP_NAME[b.ep]); }
            else pc("release_size_seen_by_recording_allocator");
        }
    }
    verify_all(b.ep, O_OK, "release");
}

static void oom_off() { if (g_oom_active) { cpputest_malloc_set_not_out_of_memory(); g_oom_active = false; if (g_cfg.recording) setCurrentMallocAllocator(recMalloc); } }

static void window_open() {
    g_nub = 0;
    g_origDet = MemoryLeakWarningPlugin::getGlobalDetector(); g_origRep = MemoryLeakWarningPlugin::getGlobalFailureReporter();
    g_priv->clearAllAccounting(mem_leak_period_all);
    g_priv->startChecking(); g_priv->stopChecking();
    g_rec.n = 0; g_rec.first[0] = 0; g_cb_seen = 0;
    MemoryLeakWarningPlugin::setGlobalDetector(g_priv, &g_rec);
    if (g_cfg.recording) { setCurrentNewAllocator(recNew); setCurrentNewArrayAllocator(recNewA); setCurrentMallocAllocator(recMalloc); }
    else { setCurrentNewAllocatorToDefault(); setCurrentNewArrayAllocatorToDefault(); setCurrentMallocAllocatorToDefault(); }
    if (g_cfg.threadsafe) MemoryLeakWarningPlugin::turnOnThreadSafeNewDeleteOverloads(); else MemoryLeakWarningPlugin::turnOnDefaultNotThreadSafeNewDeleteOverloads();
    g_seam_idx = 0; g_alloc_idx = 0; g_fault_op_serial = -1;
    g_fault_at = (g_cfg.fault_kind == 0 || g_cfg.fault_kind == 3) ? g_cfg.fault_k : -1; g_fault_len = g_cfg.fault_kind == 3 ? 2 : 1;
    g_alloc_fault_at = g_cfg.fault_kind == 1 ? g_cfg.fault_k : -1;
    g_oom_active = false;
    if (g_cfg.fault_kind == 2) cpputest_malloc_set_out_of_memory_countdown((int) g_cfg.fault_k + 1);
    g_in_window = true;
}
static void window_close() {
    g_in_window = false; g_in_op = false;
    cpputest_malloc_set_out_of_memory_countdown(-1);
    if (g_oom_active) { cpputest_malloc_set_not_out_of_memory(); g_oom_active = false; }
    MemoryLeakWarningPlugin::turnOffNewDeleteOverloads();      // outside the window the harness (and the fixture) use the plain operators
    setCurrentNewAllocatorToDefault(); setCurrentNewArrayAllocatorToDefault(); setCurrentMallocAllocatorToDefault();
    MemoryLeakWarningPlugin::setGlobalDetector(g_origDet, g_origRep);
    g_fault_at = -1; g_alloc_fault_at = -1;
}

// the C-level countdown turns into "out of memory" at some cpputest_malloc; the harness notices by polling the current allocator
static void poll_oom() {
    if (g_cfg.fault_kind != 2 && !g_oom_active) return;
    g_oom_active = getCurrentMallocAllocator() == NullUnknownAllocator::defaultAllocator();
}

static void body() {
    window_open();
    try {
        int oom_ops = 0;
        for (int i = 0; i < g_nsteps; i++) {
            const Step& s = g_steps[i];
            g_cur_step = i;
            switch (s.op) {
            case OP_ALLOC: do_alloc(i); break;
            case OP_REALLOC: do_realloc(i); break;      // also while the countdown has expired: realloc of a live block must then fail cleanly like malloc
            case OP_FREE: do_free(s.slot); break;
            case OP_OOM_ON: cpputest_malloc_set_out_of_memory(); g_oom_active = true; break;
            case OP_OOM_OFF: oom_off(); break;
            }
            poll_oom();
            if (g_cfg.fault_kind == 2 && g_oom_active && ++oom_ops > (int) (g_cfg.fault_k % 3)) { oom_off(); cpputest_malloc_set_out_of_memory_countdown(-1); }
        }
        oom_off();
        cpputest_malloc_set_out_of_memory_countdown(-1);
        g_cur_step = g_nsteps;
        for (int i = 0; i < MAXSLOT; i++) do_free(i);
        if (g_priv->totalMemoryLeaks(mem_leak_period_all) != 0) pc("obs_records_left_after_releasing_everything");
    } catch (...) {
        pv("exception-escaped-the-script", "an exception left the monitored script at step %d", g_cur_step);
    }
    PD->n_seam_calls = g_seam_idx; PD->n_alloc_calls = g_alloc_idx;
    window_close();
}

static void run_scenario() {
    for (int i = 0; i < MAXSLOT; i++) g_slot[i].live = false;
    g_next_id = 0; g_failrec = 0; g_bias = 0;
    PD->n_seam_calls = PD->n_alloc_calls = PD->n_mloc_calls = 0; PD->finished = 0;
    {
        TestTestingFixture fx;
        g_fx = &fx;
        fx.setTestFunction(body);
        fx.runAllTests();
        size_t fails = fx.getFailureCount();
        const char* out = fx.getOutput().asCharString();
        int texts = 0; for (const char* q = out; (q = strstr(q, "malloc returned null pointer")) != nullptr; q++) texts++;
        if ((int) fails < g_failrec || texts < g_failrec) {
            char d[300]; snprintf(d, sizeof d, "%d request(s) left by cpputest's test-failure exception, but the test result holds %zu failure(s) and the output %d 'malloc returned null pointer' text(s)", g_failrec, fails, texts);
            pv("failure-exit-without-recorded-failure", "%s", d);
        }
        if (g_failrec) pc("recorded_failures_confirmed_in_test_result", (uint64_t) g_failrec);
        if ((int) fails > g_failrec) pc("obs_recorded_failures_with_a_null_result", (uint64_t) fails - (uint64_t) g_failrec);
        g_fx = nullptr;
    }
    PD->finished = 1;
    pc("scenarios_run");
}

// ------------------------------------------------------------------------------------------------ containment (fork) for requests that are expected to end the process
static void pending_reset() { PD->nviol = 0; PD->ncount = 0; PD->nsig = 0; PD->in_op = 0; PD->finished = 0; }

static void run_contained() {
    fflush(stdout); fflush(stderr); if (vf::rt().out) fflush(vf::rt().out);
    char tmpl[] = "/tmp/c05-child-XXXXXX";
    int efd = mkstemp(tmpl);
    if (efd >= 0) unlink(tmpl);
    pid_t pid = fork();
    if (pid == 0) {
        if (efd >= 0) { dup2(efd, 2); dup2(efd, 1); }
        run_scenario();
        _exit(0);
    }
    if (pid < 0) { run_scenario(); if (efd >= 0) close(efd); return; }
    int st = 0;
    while (waitpid(pid, &st, 0) < 0 && errno == EINTR) {}
    pc("scenarios_run_in_a_contained_child");
    if (!(WIFEXITED(st) && WEXITSTATUS(st) == 0 && PD->finished)) {
        static char buf[16384]; buf[0] = 0; ssize_t n = 0;
        if (efd >= 0) { n = pread(efd, buf, sizeof buf - 1, 0); if (n < 0) n = 0; buf[n] = 0; }
        char how[160] = "";
        if (WIFSIGNALED(st)) snprintf(how, sizeof how, "signal-%d", WTERMSIG(st)); else snprintf(how, sizeof how, "exit-%d", WEXITSTATUS(st));
        char where[200] = "";
        const char* ub = strstr(buf, "runtime error: ");
        const char* sm = strstr(buf, "SUMMARY: AddressSanitizer: ");
        if (ub) {
            const char* ls = ub; while (ls > buf && ls[-1] != '\n') ls--;
            const char* colon = strchr(ls, ':'); const char* slash = ls; for (const char* q = ls; q < colon; q++) if (*q == '/') slash = q + 1;
            char msg[120]; snprintf(msg, sizeof msg, "%s", ub + 15); char* e = strchr(msg, '\n'); if (e) *e = 0;
            for (char* q = msg; *q; q++) if (*q >= '0' && *q <= '9') *q = 'N';
            snprintf(where, sizeof where, "ubsan:%.*s:%s", (int) (colon - slash), slash, msg);
        } else if (sm) {
            char kind[60]; snprintf(kind, sizeof kind, "%s", sm + 27); char* e = strpbrk(kind, " \n"); if (e) *e = 0;
            char fn[100] = "?"; const char* in = strstr(sm, " in "); const char* nl = strchr(sm, '\n');
            if (in && (!nl || in < nl)) { snprintf(fn, sizeof fn, "%s", in + 4); char* e2 = strpbrk(fn, "(\n "); if (e2) *e2 = 0; }
            snprintf(where, sizeof where, "asan:%s:%s", kind, fn);
        }
        bool term = strstr(buf, "terminate called") != nullptr;
        int ep = PD->cur_ep;
        if (vf::rt().verbose) fprintf(stderr, "  contained child died (%s), in_op=%d step=%d; its stderr:\n%s\n", how, (int) PD->in_op, (int) PD->cur_step, buf);
        if (!PD->in_op) {                    // not inside a request: nothing this property speaks about -- repeat in-process, the driver judges a reproducible death
            if (efd >= 0) close(efd);
            pending_reset();
            run_scenario();
            return;
        }
        char d[700]; snprintf(d, sizeof d, "the process died (%s) %s step %d, %s(%llu)%s. stderr: %.400s", how, PD->in_op ? "inside" : "after", PD->cur_step, ep >= 0 && ep < EP_N ? EP_NAME[ep] : "?", (unsigned long long) PD->cur_size,
                               term ? ": std::terminate, an exception left a noexcept operator new" : "", buf);
        if (term && PD->in_op && ep_nothrow(ep)) pv("process-abort:nothrow-new:test-failure-exception-through-noexcept", "%s", d);
        else pvf(d, "process-died-in-request:%s:%s:%s", ep >= 0 && ep < EP_N ? EP_NAME[ep] : "?", g_section[0] == 'w' ? "fault" : g_section, where[0] ? where : how);
    }
    if (efd >= 0) close(efd);
}

// ------------------------------------------------------------------------------------------------ description / flush
static std::string g_note;
static std::string describe() {
    std::vector<std::string> st;
    for (int i = 0; i < g_nsteps; i++) {
        const Step& s = g_steps[i];
        vf::J j;
        switch (s.op) {
        case OP_ALLOC: j.k("op", "alloc").k("via", EP_NAME[s.ep]).k("slot", (int) s.slot).k("n", (unsigned long) s.n); if (s.ep == EP_CALLOC) j.k("count", (unsigned long) s.cnt); if (s.ep == EP_STRNDUP) j.k("limit", (unsigned long) s.lim); break;
        case OP_REALLOC: j.k("op", "realloc").k("slot", (int) s.slot).k("n", (unsigned long) s.n); break;
        case OP_FREE: j.k("op", "release").k("slot", (int) s.slot); break;
        case OP_OOM_ON: j.k("op", "cpputest_malloc_set_out_of_memory"); break;
        case OP_OOM_OFF: j.k("op", "cpputest_malloc_set_not_out_of_memory"); break;
        }
        st.push_back(j.str());
    }
    return vf::J().k("note", g_note).k("variant", VF_VARIANT).k("threadsafe_overloads", g_cfg.threadsafe).k("recording_allocators", g_cfg.recording).k("fault_kind", g_cfg.fault_kind).k("fault_index", (long) g_cfg.fault_k).raw("steps", vf::jarr(st)).str();
}
// The runtime keeps ONE non-trivial signature per case. g_sig_mode 0: the section names it (g_case_sig, empty = trivial);
// 1: taken from the run -- the operation that consumed the injected fault, else the first request near a power of two / SIZE_MAX.
static std::string g_case_sig; static int g_sig_mode;
static void flush(vf::Ctx& c) {
    for (int i = 0; i < PD->nviol; i++) c.violation(PD->viol[i].key, PD->viol[i].detail);
    for (int i = 0; i < PD->ncount; i++) c.count(PD->counts[i].name, PD->counts[i].n);
    if (g_sig_mode == 0) { if (!g_case_sig.empty()) c.nontrivial(g_case_sig); }
    else if (PD->nsig > 0) {
        int pick = 0; for (int i = 0; i < PD->nsig; i++) if (strstr(PD->sig[i], ":fault")) { pick = i; break; }
        c.nontrivial(PD->sig[pick]);
    }
    pending_reset();
}
static std::string class_sig(const char* what, size_t n) { char cls[40]; bool near; size_class(n, cls, sizeof cls, &near); return near ? std::string(what) + ":" + cls : std::string(); }
static void execute(vf::Ctx& c, bool contain) {
    if (contain) run_contained(); else run_scenario();
    flush(c);
}

// ------------------------------------------------------------------------------------------------ script builders
static void S_clear() { g_nsteps = 0; }
static Step& S_add(int op, int ep, int slot, size_t n, size_t cnt = 0, size_t lim = 0) {
    static Step dummy;
    if (g_nsteps >= MAXSTEP) return dummy;
    Step& s = g_steps[g_nsteps++]; s.op = (unsigned char) op; s.ep = (unsigned char) ep; s.slot = (unsigned short) slot; s.n = n; s.cnt = cnt; s.lim = lim; return s;
}
static void S_victims() {      // three existing blocks, one per family
    S_add(OP_ALLOC, EP_NEW, 40, 24); S_add(OP_ALLOC, EP_NEWA, 41, 100); S_add(OP_ALLOC, EP_MALLOC, 42, 7);
}
// does the script contain a nothrow request that the seam will refuse (-> cpputest's FAIL inside a noexcept function)?
static bool predicts_nothrow_refusal() {
    for (int i = 0; i < g_nsteps; i++) if (g_steps[i].op == OP_ALLOC && ep_nothrow(g_steps[i].ep) && g_steps[i].n > SEAM_LIMIT - 4096) return true;
    return false;
}

// ---- sections: every size through every entry point
static void build_all_entry_points(size_t n) {
    S_clear();
    for (int ep = 0; ep < EP_N; ep++) {
        if (ep == EP_REALLOC) continue;
        if (ep == EP_CALLOC) { size_t a = 1, b = n; for (size_t f = 2; f <= 64 && f * f <= n; f++) if (n % f == 0) { a = f; b = n / f; } if (n & 1) { size_t t = a; a = b; b = t; } S_add(OP_ALLOC, ep, ep, b, a); }
        else if (ep == EP_STRNDUP) S_add(OP_ALLOC, ep, ep, n + (n % 5), 0, n);
        else S_add(OP_ALLOC, ep, ep, n);
    }
    S_add(OP_REALLOC, EP_REALLOC, EP_MALLOC, n + 1 + n % 7);
    S_add(OP_REALLOC, EP_REALLOC, EP_CALLOC, n / 2);
    S_add(OP_REALLOC, EP_REALLOC, EP_REALLOC_NULL, n);
    S_add(OP_REALLOC, EP_REALLOC, EP_STRDUP, 2 * n + 16);
    S_add(OP_REALLOC, EP_REALLOC, EP_STRNDUP, n % 3);
    for (int k = 0; k < EP_N; k++) S_add(OP_FREE, 0, (int) ((k * 5 + n) % EP_N), 0);
    g_note = "size " + std::to_string(n) + " through every entry point";
}
static void sec_sweep_small(vf::Ctx& c) {          // 0..4096, both allocator modes
    size_t n = (size_t) c.idx;
    build_all_entry_points(n);
    g_section = "sweep"; g_sig_mode = 0; g_case_sig = class_sig("all-entry-points", n);
    g_cfg = Cfg{ (n & 1) != 0, false, -1, 0, 1 };
    c.begin([] { return describe(); });
    execute(c, false);
    g_cfg = Cfg{ (n & 1) == 0, true, -1, 0, 1 };
    execute(c, false);
}
static const uint64_t MID_N = 61440;               // 4097..65536; the thorough tier takes every size once (40507 is coprime to 61440)
static void sec_sweep_mid(vf::Ctx& c) {
    size_t n = 4097 + (size_t) ((c.idx * 40507ull) % MID_N);
    build_all_entry_points(n);
    g_section = "sweep"; g_sig_mode = 0; g_case_sig = class_sig("all-entry-points", n);
    g_cfg = Cfg{ (n & 2) != 0, (n & 1) != 0, -1, 0, 1 };
    c.begin([] { return describe(); });
    execute(c, false);
}

// ---- section: powers of two +-3 and the top 64 sizes, one entry point per case
static std::vector<size_t> g_edges;
// every size in the 2048 values below the top 64: the region where size + guard + padding + record wraps
static std::vector<size_t> g_top;
static void init_edges() {
    for (int k = 0; k < 64; k++) for (int d = -3; d <= 3; d++) { size_t p = (size_t) 1 << k; if (d < 0 && p < (size_t) -d) continue; g_edges.push_back(p + (size_t) (long long) d); }
    for (size_t j = 0; j < 64; j++) g_edges.push_back(SIZE_MAX - j);
    std::sort(g_edges.begin(), g_edges.end()); g_edges.erase(std::unique(g_edges.begin(), g_edges.end()), g_edges.end());
    for (size_t j = 64; j < 64 + 2048; j++) g_top.push_back(SIZE_MAX - j);
}
static const std::vector<size_t>* g_edge_src = &g_edges;
static void sec_sweep_edges(vf::Ctx& c) {
    size_t n = (*g_edge_src)[c.idx / EP_N]; int ep = (int) (c.idx % EP_N);
    S_clear(); S_victims();
    bool na = false;
    if (ep == EP_REALLOC) { S_add(OP_ALLOC, EP_MALLOC, 0, 33); S_add(OP_REALLOC, EP_REALLOC, 0, n); S_add(OP_REALLOC, EP_REALLOC, 42, n); }
    else if (ep == EP_CALLOC) { if ((c.idx / EP_N) & 1) S_add(OP_ALLOC, ep, 0, 1, n); else S_add(OP_ALLOC, ep, 0, n, 1); }
    else if (ep == EP_STRDUP) { if (n > (1u << 20)) na = true; else S_add(OP_ALLOC, ep, 0, n); }
    else if (ep == EP_STRNDUP) S_add(OP_ALLOC, ep, 0, 11 + n % 50, 0, n);
    else S_add(OP_ALLOC, ep, 0, n);
    if (!na && EP_FAM[ep] == 2 && ep != EP_REALLOC) { S_add(OP_REALLOC, EP_REALLOC, 0, n / 2 + 1); S_add(OP_REALLOC, EP_REALLOC, 0, n); }
    S_add(OP_ALLOC, EP_NEWA, 1, 5);       // a request after the hostile one
    g_note = std::string(EP_NAME[ep]) + " with size " + std::to_string(n);
    g_section = "edges"; g_sig_mode = 0; g_case_sig = na ? std::string() : class_sig(EP_NAME[ep], n);
    g_cfg = Cfg{ ((c.idx / EP_N) & 2) != 0, ((c.idx / EP_N) & 4) != 0, -1, 0, 1 };
    c.begin([] { return describe(); });
    if (na) { c.count("edge_cases_not_applicable(strdup of more than 1 MiB)"); return; }
    execute(c, predicts_nothrow_refusal());
}

static void sec_sweep_top(vf::Ctx& c) { g_edge_src = &g_top; sec_sweep_edges(c); g_edge_src = &g_edges; }

// ---- section: calloc lattice
struct CPair { size_t cnt, sz; };
static std::vector<CPair> g_cpairs;
static void init_cpairs() {
    const size_t H = (size_t) 1 << 63, W = (size_t) 1 << 32;
    size_t V[] = { 0, 1, 2, 3, 7, 255, (size_t) 1 << 16, (size_t) 1 << 31, W - 1, W, W + 1, (size_t) 1 << 33, H - 1, H, H + 1, SIZE_MAX / 3, SIZE_MAX / 2, SIZE_MAX / 2 + 1, SIZE_MAX - 1, SIZE_MAX };
    for (size_t a : V) for (size_t b : V) g_cpairs.push_back(CPair{ a, b });
    size_t A[] = { 2, 3, 4, 5, 7, 8, 15, 16, 17, 255, 256, 257, 641, 65535, 65536, 65537, 6700417, (size_t) 1 << 31, W - 1, W, W + 1, (size_t) 1 << 33, (size_t) 1 << 40, (size_t) 1 << 62, H };
    for (size_t a : A) {
        u128 q = (((u128) 1) << 64) / a;                  // a * q is within a of 2^64
        for (int d = -4; d <= 4; d++) { u128 b = q + (u128) (long long) d; if (d < 0 && q < (u128) (-d)) continue; if (b > (u128) SIZE_MAX) continue; g_cpairs.push_back(CPair{ a, (size_t) b }); g_cpairs.push_back(CPair{ (size_t) b, a }); }
    }
    for (size_t a = 0; a <= 16; a++) for (size_t b = 0; b <= 16; b++) g_cpairs.push_back(CPair{ a, b });
    size_t B[] = { 4095, 4096, 4097, 65536, 100000, (size_t) 1 << 20, (SEAM_LIMIT >> 4) - 1, SEAM_LIMIT >> 4, (SEAM_LIMIT >> 4) + 1 };
    for (size_t b : B) { g_cpairs.push_back(CPair{ 16, b }); g_cpairs.push_back(CPair{ b, 16 }); g_cpairs.push_back(CPair{ 3, b }); }
}
static void sec_calloc(vf::Ctx& c) {
    CPair p = g_cpairs[c.idx];
    S_clear(); S_victims();
    S_add(OP_ALLOC, EP_CALLOC, 0, p.sz, p.cnt);
    S_add(OP_ALLOC, EP_MALLOC, 1, 9);
    g_note = "calloc(" + std::to_string(p.cnt) + ", " + std::to_string(p.sz) + ")";
    g_section = "calloc"; g_sig_mode = 0; g_case_sig.clear();
    u128 pr = (u128) p.cnt * (u128) p.sz; u128 two64 = ((u128) 1) << 64;
    u128 dist = pr > two64 ? pr - two64 : two64 - pr;
    if (dist <= 4 * (u128) (p.cnt > p.sz ? p.cnt : p.sz) || pr > (u128) SIZE_MAX) g_case_sig = "calloc:" + std::to_string(p.cnt) + "x" + std::to_string(p.sz);
    else if (pr <= (u128) SIZE_MAX) g_case_sig = class_sig("calloc", (size_t) pr);
    g_cfg = Cfg{ (c.idx & 1) != 0, (c.idx & 2) != 0, -1, 0, 1 };
    c.begin([] { return describe(); });
    execute(c, false);
    c.count(pr > (u128) SIZE_MAX ? "calloc_pairs_with_overflowing_product" : "calloc_pairs_with_representable_product");
}

// ---- section: strdup / strndup lattice (length x limit)
static const size_t SD_LEN = 41, SD_LIM = 51;
static size_t sd_limit(size_t len, size_t j) {
    size_t X[] = { SIZE_MAX, SIZE_MAX - 1, (size_t) 1 << 63, ((size_t) 1 << 63) - 1, (size_t) 1 << 32, (size_t) 1 << 31, 65536, 4096 };
    if (j < 8) return X[j];
    return len <= 40 ? j - 8 : len - 20 + (j - 8);
}
static void sec_strdup(vf::Ctx& c) {
    size_t len = (size_t) (c.idx / SD_LIM), j = (size_t) (c.idx % SD_LIM);
    if (len >= SD_LEN) len = 50 + (len - SD_LEN) * 509;       // a few long strings: 50, 559, 1068, ...
    size_t lim = sd_limit(len, j);
    S_clear(); S_victims();
    S_add(OP_ALLOC, EP_STRNDUP, 0, len, 0, lim);
    if (j == 8) S_add(OP_ALLOC, EP_STRDUP, 1, len);
    S_add(OP_REALLOC, EP_REALLOC, 0, len + 9);
    g_note = "strndup of a " + std::to_string(len) + "-byte string with limit " + std::to_string(lim);
    g_section = "strdup"; g_sig_mode = 0; g_case_sig = "strndup:" + std::to_string(len) + ":" + std::to_string(lim);      // every (length, limit) pair of the lattice sits on the min(length, limit)+1 boundary rule
    g_cfg = Cfg{ (c.idx & 1) != 0, (c.idx & 4) != 0, -1, 0, 1 };
    c.begin([] { return describe(); });
    execute(c, false);
}

// ---- random sizes
static size_t g_size_cap = 70000;
static size_t rand_size_raw(vf::Rng& r, bool allow_hostile, bool* hostile);
static size_t rand_size(vf::Rng& r, bool allow_hostile, bool* hostile) { size_t n = rand_size_raw(r, allow_hostile, hostile); return !*hostile && n > g_size_cap ? n % (g_size_cap + 1) : n; }
static size_t rand_size_raw(vf::Rng& r, bool allow_hostile, bool* hostile) {
    *hostile = false;
    switch (r.below(allow_hostile ? 10 : 7)) {
    case 0: return r.below(17);
    case 1: case 2: return r.below(300);
    case 3: { size_t p = (size_t) 1 << r.below(13); int d = r.range(-3, 3); return d < 0 && p < (size_t) -d ? p : p + (size_t) (long long) d; }
    case 4: return r.below(5000);
    case 5: return ((size_t) 1 << r.range(3, 16)) - (size_t) r.range(0, 3);
    case 6: return r.below(70000);
    case 7: *hostile = true; return ((size_t) 1 << r.range(20, 63)) + (size_t) r.range(0, 128) - 64;
    case 8: *hostile = true; return SIZE_MAX - r.below(200);
    default: *hostile = true; return r.next() >> r.below(40);
    }
}
static void gen_alloc(vf::Rng& r, int slot, bool allow_hostile, bool* hostile) {
    static const int W[] = { EP_NEW, EP_NEWA, EP_NEW_NT, EP_NEWA_NT, EP_NEW_DBG, EP_NEWA_DBG, EP_MALLOC, EP_MALLOC, EP_CALLOC, EP_CALLOC, EP_REALLOC_NULL, EP_STRDUP, EP_STRNDUP };
    int ep = W[r.below(sizeof W / sizeof W[0])];
    size_t n = rand_size(r, allow_hostile && ep != EP_STRDUP, hostile);
    if (ep == EP_CALLOC) {
        if (*hostile) { size_t cnt = r.chance(50) ? ((size_t) 1 << r.range(1, 40)) + r.below(3) : r.below(1000) + 1; S_add(OP_ALLOC, ep, slot, n / cnt + r.below(3), cnt); }
        else { size_t cnt = r.below(9); S_add(OP_ALLOC, ep, slot, cnt ? n / cnt : n, cnt); }
    } else if (ep == EP_STRDUP) S_add(OP_ALLOC, ep, slot, n);
    else if (ep == EP_STRNDUP) { size_t len = r.below(400); S_add(OP_ALLOC, ep, slot, len, 0, *hostile ? n : r.below(len + 4)); }
    else S_add(OP_ALLOC, ep, slot, n);
}
static void gen_script(vf::Rng& r, int nops, bool allow_hostile, int max_allocs_per_step_budget) {
    S_clear();
    bool live[MAXSLOT] = { false }; bool mall[MAXSLOT] = { false };
    bool used_hostile = false; int budget = max_allocs_per_step_budget;
    for (int i = 0; i < nops && g_nsteps < MAXSTEP - 2; i++) {
        int nl = 0; for (int s = 0; s < 32; s++) nl += live[s];
        int roll = (int) r.below(100);
        if ((roll < 55 || nl == 0) && nl < 28 && budget > 0) {
            int slot; do slot = (int) r.below(32); while (live[slot]);
            bool h; gen_alloc(r, slot, allow_hostile && !used_hostile, &h); used_hostile |= h; budget--;
            Step& s = g_steps[g_nsteps - 1];
            live[slot] = !h; mall[slot] = EP_FAM[s.ep] == 2;      // a hostile request normally fails: the slot stays reusable either way (do_alloc skips live slots)
            if (h) live[slot] = false;
        } else if (roll < 80 && budget > 0) {
            int cand[32], nc = 0; for (int s = 0; s < 32; s++) if (live[s] && mall[s]) cand[nc++] = s;
            if (!nc) continue;
            bool h; size_t n = rand_size(r, allow_hostile && !used_hostile, &h); used_hostile |= h; budget--;
            S_add(OP_REALLOC, EP_REALLOC, cand[r.below((uint64_t) nc)], n);
        } else {
            int cand[32], nc = 0; for (int s = 0; s < 32; s++) if (live[s]) cand[nc++] = s;
            if (!nc) continue;
            int slot = cand[r.below((uint64_t) nc)]; S_add(OP_FREE, 0, slot, 0); live[slot] = false;
        }
    }
}

static void sec_random(vf::Ctx& c) {
    gen_script(c.rng, c.rng.range(8, 40), true, 1000);
    g_note = "random script";
    g_section = "random"; g_sig_mode = 1; g_case_sig.clear();
    for (int i = 0; i < g_nsteps; i++) {      // the hostile request, when the script has one, names the case
        const Step& st = g_steps[i]; size_t n = st.op == OP_ALLOC && st.ep == EP_STRNDUP ? st.lim : st.n;
        if ((st.op == OP_ALLOC || st.op == OP_REALLOC) && n > (1u << 20)) { std::string sg = class_sig(st.op == OP_REALLOC ? EP_NAME[EP_REALLOC] : EP_NAME[st.ep], n); if (!sg.empty()) { g_sig_mode = 0; g_case_sig = sg; } break; }
    }
    g_cfg = Cfg{ c.rng.chance(50), c.rng.chance(50), -1, 0, 1 };
    c.begin([] { return describe(); });
    execute(c, predicts_nothrow_refusal());
}

// ---- section: fault enumeration. case = (workload, kind, fault index); every fault point of a workload is taken in turn
static const int KMAX = 128, NKIND = 4;
static void sec_fault(vf::Ctx& c) {
    uint64_t w = c.idx / (KMAX * NKIND); int kind = (int) ((c.idx / KMAX) % NKIND); long k = (long) (c.idx % KMAX);
    vf::Rng r(vf::rt().seed, 0xC05FA17ull, w);
    g_size_cap = 6000; gen_script(r, r.range(45, 70), false, 60); g_size_cap = 70000;
    bool ts = (w & 1) != 0, rec = kind == 1 ? true : (w & 2) != 0;
    g_note = "workload " + std::to_string(w) + ", fault kind " + std::to_string(kind) + " (0 platform malloc/realloc returns NULL once, 1 TestMemoryAllocator returns NULL once, 2 cpputest_malloc_set_out_of_memory_countdown, 3 platform realloc and the next platform call return NULL), fault index " + std::to_string(k);
    g_section = "w"; g_sig_mode = 1; g_case_sig.clear();
    g_cfg = Cfg{ ts, rec, kind, k, kind == 3 ? 2 : 1 };
    c.begin([] { return describe(); });
    // dry run: counts the fault points and maps platform calls to steps
    g_cfg = Cfg{ ts, rec, -1, 0, 1 };
    run_scenario();
    long N = kind == 0 || kind == 3 ? PD->n_seam_calls : kind == 1 ? PD->n_alloc_calls : PD->n_mloc_calls;
    if (N > KMAX) { c.count("workloads_with_more_fault_points_than_enumerated"); N = KMAX; }
    static unsigned short call_step[512]; static unsigned char call_kind[512];
    memcpy(call_step, (const void*) PD->call_step, sizeof call_step); memcpy(call_kind, (const void*) PD->call_kind, sizeof call_kind);
    PD->nsig = 0;            // the dry run is a plain execution: its violations and counters stand, its signatures are not fault cases
    flush(c);
    if (k == 0) { char b[64]; snprintf(b, sizeof b, "fault_points_of_the_workloads:kind%d", kind); c.count(b, (uint64_t) N); }
    if (k >= N) { c.count("fault_index_beyond_the_last_fault_point"); return; }
    if (kind == 3 && call_kind[k] != 1) { c.count("double_fault_not_applicable(first call is not a platform realloc)"); return; }
    bool contain = false;
    if (kind == 0 || kind == 3) for (long q = k; q < k + (kind == 3 ? 2 : 1) && q < 512; q++) { int st = call_step[q]; if (st < g_nsteps && g_steps[st].op == OP_ALLOC && ep_nothrow(g_steps[st].ep)) contain = true; }
    g_section = "w"; static char secbuf[32]; snprintf(secbuf, sizeof secbuf, "w%llu", (unsigned long long) w); g_section = secbuf;
    g_cfg = Cfg{ ts, rec, kind, k, kind == 3 ? 2 : 1 };
    { char b[64]; snprintf(b, sizeof b, "fault_points_taken:kind%d", kind); c.count(b); }
    execute(c, contain);
}

// ---- section: requests while cpputest_malloc_set_out_of_memory() is in force
static const size_t OOM_SIZES[] = { 0, 1, 24, 4096 };
static const int OOM_EPS[] = { EP_MALLOC, EP_CALLOC, EP_STRDUP, EP_STRNDUP, EP_REALLOC_NULL, EP_REALLOC, EP_NEW, EP_NEWA_NT };
static void sec_c_oom(vf::Ctx& c) {
    size_t n = OOM_SIZES[c.idx % 4]; int ep = OOM_EPS[(c.idx / 4) % 8]; bool rec = ((c.idx / 32) & 1) != 0, ts = ((c.idx / 64) & 1) != 0;
    S_clear(); S_victims();
    S_add(OP_ALLOC, EP_MALLOC, 0, 50);
    S_add(OP_OOM_ON, 0, 0, 0);
    if (ep == EP_REALLOC) S_add(OP_REALLOC, EP_REALLOC, 0, n);
    else if (ep == EP_CALLOC) S_add(OP_ALLOC, ep, 1, n, 3);
    else if (ep == EP_STRNDUP) S_add(OP_ALLOC, ep, 1, n, 0, n / 2 + 1);
    else S_add(OP_ALLOC, ep, 1, n);
    S_add(OP_OOM_OFF, 0, 0, 0);
    S_add(OP_ALLOC, EP_MALLOC, 2, 12);
    g_note = std::string(EP_NAME[ep]) + "(" + std::to_string(n) + ") while cpputest_malloc_set_out_of_memory() is in force, " + (ts ? "thread-safe" : "default") + " overloads";
    g_section = "c-oom"; g_sig_mode = 0; g_case_sig = std::string("c-oom:") + EP_NAME[ep] + ":" + std::to_string(n) + (rec ? ":rec" : "") + (ts ? ":ts" : "");
    g_cfg = Cfg{ ts, rec, -1, 0, 1 };
    c.begin([] { return describe(); });
    execute(c, ep == EP_REALLOC || ep == EP_REALLOC_NULL);
}

static void init() {
    PD = (Pending*) mmap(nullptr, sizeof(Pending), PROT_READ | PROT_WRITE, MAP_SHARED | MAP_ANONYMOUS, -1, 0);
    if (PD == MAP_FAILED) { perror("mmap"); _exit(2); }
    memset(PD, 0, sizeof(Pending));
    g_str = (char*) malloc(STR_MAX);
    g_origDet = MemoryLeakWarningPlugin::getGlobalDetector();
    g_priv = new MemoryLeakDetector(&g_rec);
    g_priv->enable();
    recNew = new RecAllocator("recording new allocator", "new", "delete");
    recNewA = new RecAllocator("recording new [] allocator", "new []", "delete []");
    recMalloc = new RecAllocator("recording malloc allocator", "malloc", "free");
    NullUnknownAllocator::defaultAllocator();
    PlatformSpecificMalloc = seam_malloc; PlatformSpecificRealloc = seam_realloc; PlatformSpecificFree = seam_free;
}

int main(int argc, char** argv) {
    // The harness's own allocations (std containers, the fixture, the driver protocol) must not depend on the code under
    // test: the tracked operators are switched on only inside the monitored window.
    MemoryLeakWarningPlugin::turnOffNewDeleteOverloads();
    init_edges(); init_cpairs(); init_tab();
    std::vector<vf::Section> S = {
        { "sweep_0_to_4096", 4097, 4097, sec_sweep_small, true },
        { "sweep_pow2_and_top64", g_edges.size() * EP_N, g_edges.size() * EP_N, sec_sweep_edges, true },
        { "sweep_2048_sizes_below_the_top64", g_top.size() * EP_N, g_top.size() * EP_N, sec_sweep_top, true },
        { "calloc_lattice", g_cpairs.size(), g_cpairs.size(), sec_calloc, true },
        { "strdup_lattice", (SD_LEN + 8) * SD_LIM, (SD_LEN + 8) * SD_LIM, sec_strdup, true },
        { "c_out_of_memory", 128, 128, sec_c_oom, true },      // 4 sizes x 8 entry points x recording allocators x overload set
        { "sweep_4097_to_65536", 2000, MID_N, sec_sweep_mid, false },
        { "fault_enumeration", 16ull * KMAX * NKIND, 200ull * KMAX * NKIND, sec_fault, false },
        { "random_scripts", 8000, 200000, sec_random, false },
    };
    return vf::harness_main(argc, argv, S, init);
}
