// C03 — each check macro fails exactly when the predicate it names is false, and counts as one check.
// One check per fresh TestTestingFixture; the predicate is evaluated independently (__int128 values, libc
// string/memory functions, exact TwoSum comparison for doubles). Observables: getFailureCount(), getCheckCount().
#include "verif.h"
#include <cmath>
#include <cfloat>
#include <climits>
#include <limits>
#include <stdexcept>
#include <strings.h>

#include "CppUTest/TestHarness.h"
#include "CppUTest/TestHarness_c.h"
#include "CppUTest/TestTestingFixture.h"

typedef __int128 i128;
static const i128 ONE = 1;

static std::string s128(i128 v) {
    if (v == 0) return "0";
    bool neg = v < 0; unsigned __int128 u = neg ? (unsigned __int128) (-(v + 1)) + 1 : (unsigned __int128) v;
    std::string s; while (u) { s += (char) ('0' + (int) (u % 10)); u /= 10; }
    if (neg) s += '-';
    std::reverse(s.begin(), s.end()); return s;
}
static std::string dstr(double d) { char b[64]; snprintf(b, sizeof b, "%a", d); return b; }

// ---------------------------------------------------------------- operands handed to the test body
struct Ops {
    i128 a, b;                      // integer operands (expected, actual)
    unsigned long long mask;
    double da, db, dt;
    const char* sa; const char* sb; size_t n;
    const void* pa; const void* pb;
    void (*fa)(); void (*fb)();
    int thrower;
    bool continued;
};
static Ops G;
#define DONE G.continued = true

struct Obs { size_t failures, checks; bool continued; };
static Obs run_check(void (*body)()) {
    G.continued = false;
    Obs o;
    {
        TestTestingFixture fx;
        fx.setTestFunction(body);
        fx.runAllTests();
        o.failures = fx.getFailureCount();
        o.checks = fx.getCheckCount();
    }
    o.continued = G.continued;
    return o;
}

enum { EXP_UNJUDGED = -1, EXP_FAIL = 0, EXP_PASS = 1 };

// expect: what the predicate says; relational: CHECK_COMPARE family (a passing one is not counted)
static void judge(vf::Ctx& c, const std::string& check, const std::string& cls, int expect, const Obs& o, bool relational = false, const char* extra = "") {
    char buf[320];
    snprintf(buf, sizeof buf, "failures=%zu checks=%zu continued=%d%s%s", o.failures, o.checks, (int) o.continued, *extra ? " " : "", extra);
    if (o.failures > 1) c.violation("multi-failure:" + check, std::string("one check recorded more than one failure: ") + buf);
    if (expect == EXP_PASS && o.failures != 0) c.violation("wrong-fail:" + check + ":" + cls, std::string("predicate is true but the check failed: ") + buf);
    if (expect == EXP_FAIL && o.failures == 0) c.violation("wrong-pass:" + check + ":" + cls, std::string("predicate is false but the check passed: ") + buf);
    bool passed = o.failures == 0;
    size_t want = (relational && passed) ? 0 : 1;
    if (o.checks != want)
        c.violation(std::string(o.checks < want ? "check-not-counted:" : "check-overcounted:") + check + (passed ? ":passing" : ":failing"),
                    std::string("expected check count ") + std::to_string(want) + ": " + buf);
    c.count(passed ? "observed_pass" : "observed_fail");
    c.count("chk:" + check + (passed ? ":pass" : ":fail"));
    if (expect == EXP_UNJUDGED) c.count("verdict_unjudged");
    if (passed && !o.continued) c.count("passing_check_did_not_return");   // observation only (C01's business)
    if (!passed && o.continued) c.count("failing_check_returned");         // observation only
}

// ================================================================ integer family
enum TY { TY_BOOL, TY_CHAR, TY_SCHAR, TY_UCHAR, TY_SHORT, TY_USHORT, TY_INT, TY_UINT, TY_LONG, TY_ULONG, TY_LL, TY_ULL, TY_N };
static const char* TY_NAME[] = { "bool", "char", "signed char", "unsigned char", "short", "unsigned short", "int", "unsigned int", "long", "unsigned long", "long long", "unsigned long long" };
static i128 tmin(int t) {
    switch (t) { case TY_CHAR: return CHAR_MIN; case TY_SCHAR: return SCHAR_MIN; case TY_SHORT: return SHRT_MIN; case TY_INT: return INT_MIN; case TY_LONG: return LONG_MIN; case TY_LL: return LLONG_MIN; default: return 0; }
}
static i128 tmax(int t) {
    switch (t) {
    case TY_BOOL: return 1; case TY_CHAR: return CHAR_MAX; case TY_SCHAR: return SCHAR_MAX; case TY_UCHAR: return UCHAR_MAX; case TY_SHORT: return SHRT_MAX; case TY_USHORT: return USHRT_MAX;
    case TY_INT: return INT_MAX; case TY_UINT: return UINT_MAX; case TY_LONG: return LONG_MAX; case TY_ULONG: return (i128) ULONG_MAX; case TY_LL: return LLONG_MAX; default: return (i128) ULLONG_MAX;
    }
}
static int tbits(int t) { i128 span = tmax(t) - tmin(t); int n = 0; while (span) { n++; span >>= 1; } return n; }
// reinterpret a raw 64-bit pattern as a value of type t (two's complement truncation) — generator only
static i128 wrap(int t, uint64_t raw) {
    if (t == TY_BOOL) return raw & 1;
    int n = tbits(t);
    i128 v = (n >= 64) ? (i128) raw : (i128) (raw & ((1ull << n) - 1));
    if (tmin(t) < 0 && v > tmax(t)) v -= (ONE << n);
    return v;
}

enum PRED { P_EQ, P_BOOLEQ, P_LOWBYTE, P_ZERO, P_NONZERO, P_REL };
static bool int_pred(int pred, i128 a, i128 b) {
    switch (pred) {
    case P_EQ: return a == b;
    case P_BOOLEQ: return (a != 0) == (b != 0);
    case P_LOWBYTE: return (((a % 256) + 256) % 256) == (((b % 256) + 256) % 256);
    case P_NONZERO: return b != 0;
    default: return b == 0;
    }
}

template <class T> static void b_check_equal() { T e = (T) G.a, a = (T) G.b; CHECK_EQUAL(e, a); DONE; }
template <class T> static void b_check_equal_text() { T e = (T) G.a, a = (T) G.b; CHECK_EQUAL_TEXT(e, a, "txt"); DONE; }
template <class T> static void b_check_equal_zero() { T a = (T) G.b; CHECK_EQUAL_ZERO(a); DONE; }
template <class T> static void b_check_equal_zero_text() { T a = (T) G.b; CHECK_EQUAL_ZERO_TEXT(a, "txt"); DONE; }
template <class T> static void b_longs() { T e = (T) G.a, a = (T) G.b; LONGS_EQUAL(e, a); DONE; }
template <class T> static void b_longs_text() { T e = (T) G.a, a = (T) G.b; LONGS_EQUAL_TEXT(e, a, "txt"); DONE; }
template <class T> static void b_ulongs() { T e = (T) G.a, a = (T) G.b; UNSIGNED_LONGS_EQUAL(e, a); DONE; }
template <class T> static void b_ulongs_text() { T e = (T) G.a, a = (T) G.b; UNSIGNED_LONGS_EQUAL_TEXT(e, a, "txt"); DONE; }
template <class T> static void b_longlongs() { T e = (T) G.a, a = (T) G.b; LONGLONGS_EQUAL(e, a); DONE; }
template <class T> static void b_longlongs_text() { T e = (T) G.a, a = (T) G.b; LONGLONGS_EQUAL_TEXT(e, a, "txt"); DONE; }
template <class T> static void b_ulonglongs() { T e = (T) G.a, a = (T) G.b; UNSIGNED_LONGLONGS_EQUAL(e, a); DONE; }
template <class T> static void b_ulonglongs_text() { T e = (T) G.a, a = (T) G.b; UNSIGNED_LONGLONGS_EQUAL_TEXT(e, a, "txt"); DONE; }
template <class T> static void b_bytes() { T e = (T) G.a, a = (T) G.b; BYTES_EQUAL(e, a); DONE; }
template <class T> static void b_bytes_text() { T e = (T) G.a, a = (T) G.b; BYTES_EQUAL_TEXT(e, a, "txt"); DONE; }
static void b_bytes_mixed() { signed char e = (signed char) G.a; int a = (int) G.b; BYTES_EQUAL(e, a); DONE; }
static void b_sbytes() { signed char e = (signed char) G.a, a = (signed char) G.b; SIGNED_BYTES_EQUAL(e, a); DONE; }
static void b_sbytes_text() { signed char e = (signed char) G.a, a = (signed char) G.b; SIGNED_BYTES_EQUAL_TEXT(e, a, "txt"); DONE; }

enum EInt : int { EInt_zero = 0 };
enum EU8 : unsigned char { EU8_zero = 0 };
enum EUInt : unsigned int { EUInt_zero = 0 };
enum ELL : long long { ELL_zero = 0 };
enum EULL : unsigned long long { EULL_zero = 0 };
static void b_enums_int() { EInt e = (EInt) (int) G.a, a = (EInt) (int) G.b; ENUMS_EQUAL_INT(e, a); DONE; }
static void b_enums_int_text() { EInt e = (EInt) (int) G.a, a = (EInt) (int) G.b; ENUMS_EQUAL_INT_TEXT(e, a, "txt"); DONE; }
template <class E, class U> static void b_enums_type() { E e = (E) (U) G.a, a = (E) (U) G.b; ENUMS_EQUAL_TYPE(U, e, a); DONE; }
template <class E, class U> static void b_enums_type_text() { E e = (E) (U) G.a, a = (E) (U) G.b; ENUMS_EQUAL_TYPE_TEXT(U, e, a, "txt"); DONE; }

static void b_c_bool() { CHECK_EQUAL_C_BOOL((int) G.a, (int) G.b); DONE; }
static void b_c_bool_text() { CHECK_EQUAL_C_BOOL_TEXT((int) G.a, (int) G.b, "txt"); DONE; }
static void b_c_int() { CHECK_EQUAL_C_INT((int) G.a, (int) G.b); DONE; }
static void b_c_int_text() { CHECK_EQUAL_C_INT_TEXT((int) G.a, (int) G.b, "txt"); DONE; }
static void b_c_uint() { CHECK_EQUAL_C_UINT((unsigned int) G.a, (unsigned int) G.b); DONE; }
static void b_c_uint_text() { CHECK_EQUAL_C_UINT_TEXT((unsigned int) G.a, (unsigned int) G.b, "txt"); DONE; }
static void b_c_long() { CHECK_EQUAL_C_LONG((long) G.a, (long) G.b); DONE; }
static void b_c_long_text() { CHECK_EQUAL_C_LONG_TEXT((long) G.a, (long) G.b, "txt"); DONE; }
static void b_c_ulong() { CHECK_EQUAL_C_ULONG((unsigned long) G.a, (unsigned long) G.b); DONE; }
static void b_c_ulong_text() { CHECK_EQUAL_C_ULONG_TEXT((unsigned long) G.a, (unsigned long) G.b, "txt"); DONE; }
static void b_c_ll() { CHECK_EQUAL_C_LONGLONG((long long) G.a, (long long) G.b); DONE; }
static void b_c_ll_text() { CHECK_EQUAL_C_LONGLONG_TEXT((long long) G.a, (long long) G.b, "txt"); DONE; }
static void b_c_ull() { CHECK_EQUAL_C_ULONGLONG((unsigned long long) G.a, (unsigned long long) G.b); DONE; }
static void b_c_ull_text() { CHECK_EQUAL_C_ULONGLONG_TEXT((unsigned long long) G.a, (unsigned long long) G.b, "txt"); DONE; }
static void b_c_char() { CHECK_EQUAL_C_CHAR((char) G.a, (char) G.b); DONE; }
static void b_c_char_text() { CHECK_EQUAL_C_CHAR_TEXT((char) G.a, (char) G.b, "txt"); DONE; }
static void b_c_ubyte() { CHECK_EQUAL_C_UBYTE((unsigned char) G.a, (unsigned char) G.b); DONE; }
static void b_c_ubyte_text() { CHECK_EQUAL_C_UBYTE_TEXT((unsigned char) G.a, (unsigned char) G.b, "txt"); DONE; }
static void b_c_sbyte() { CHECK_EQUAL_C_SBYTE((signed char) G.a, (signed char) G.b); DONE; }
static void b_c_sbyte_text() { CHECK_EQUAL_C_SBYTE_TEXT((signed char) G.a, (signed char) G.b, "txt"); DONE; }

struct IntCheck { const char* name; int ty; int pred; void (*body)(); };

// checks enumerated over all 256x256 operand pairs
static const IntCheck I8[] = {
    { "BYTES_EQUAL<unsigned char>", TY_UCHAR, P_LOWBYTE, b_bytes<unsigned char> },
    { "BYTES_EQUAL<signed char,int+garbage>", TY_SCHAR, P_LOWBYTE, b_bytes_mixed },
    { "SIGNED_BYTES_EQUAL", TY_SCHAR, P_EQ, b_sbytes },
    { "CHECK_EQUAL_C_UBYTE", TY_UCHAR, P_EQ, b_c_ubyte },
    { "CHECK_EQUAL_C_SBYTE", TY_SCHAR, P_EQ, b_c_sbyte },
    { "CHECK_EQUAL_C_CHAR", TY_CHAR, P_EQ, b_c_char },
};
static const size_t NI8 = sizeof(I8) / sizeof(I8[0]);

// checks enumerated over all pairs of the boundary lattice of their operand type
static const IntCheck ICHK[] = {
    { "LONGS_EQUAL<long>", TY_LONG, P_EQ, b_longs<long> },
    { "LONGS_EQUAL<int>", TY_INT, P_EQ, b_longs<int> },
    { "LONGS_EQUAL<unsigned int>", TY_UINT, P_EQ, b_longs<unsigned int> },
    { "LONGS_EQUAL<short>", TY_SHORT, P_EQ, b_longs<short> },
    { "LONGS_EQUAL_TEXT<long>", TY_LONG, P_EQ, b_longs_text<long> },
    { "UNSIGNED_LONGS_EQUAL<unsigned long>", TY_ULONG, P_EQ, b_ulongs<unsigned long> },
    { "UNSIGNED_LONGS_EQUAL<unsigned int>", TY_UINT, P_EQ, b_ulongs<unsigned int> },
    { "UNSIGNED_LONGS_EQUAL_TEXT<unsigned long>", TY_ULONG, P_EQ, b_ulongs_text<unsigned long> },
    { "LONGLONGS_EQUAL<long long>", TY_LL, P_EQ, b_longlongs<long long> },
    { "LONGLONGS_EQUAL<int>", TY_INT, P_EQ, b_longlongs<int> },
    { "LONGLONGS_EQUAL_TEXT<long long>", TY_LL, P_EQ, b_longlongs_text<long long> },
    { "UNSIGNED_LONGLONGS_EQUAL<unsigned long long>", TY_ULL, P_EQ, b_ulonglongs<unsigned long long> },
    { "UNSIGNED_LONGLONGS_EQUAL<unsigned int>", TY_UINT, P_EQ, b_ulonglongs<unsigned int> },
    { "UNSIGNED_LONGLONGS_EQUAL_TEXT<unsigned long long>", TY_ULL, P_EQ, b_ulonglongs_text<unsigned long long> },
    { "CHECK_EQUAL<bool>", TY_BOOL, P_EQ, b_check_equal<bool> },
    { "CHECK_EQUAL<char>", TY_CHAR, P_EQ, b_check_equal<char> },
    { "CHECK_EQUAL<signed char>", TY_SCHAR, P_EQ, b_check_equal<signed char> },
    { "CHECK_EQUAL<unsigned char>", TY_UCHAR, P_EQ, b_check_equal<unsigned char> },
    { "CHECK_EQUAL<short>", TY_SHORT, P_EQ, b_check_equal<short> },
    { "CHECK_EQUAL<unsigned short>", TY_USHORT, P_EQ, b_check_equal<unsigned short> },
    { "CHECK_EQUAL<int>", TY_INT, P_EQ, b_check_equal<int> },
    { "CHECK_EQUAL<unsigned int>", TY_UINT, P_EQ, b_check_equal<unsigned int> },
    { "CHECK_EQUAL<long>", TY_LONG, P_EQ, b_check_equal<long> },
    { "CHECK_EQUAL<unsigned long>", TY_ULONG, P_EQ, b_check_equal<unsigned long> },
    { "CHECK_EQUAL<long long>", TY_LL, P_EQ, b_check_equal<long long> },
    { "CHECK_EQUAL<unsigned long long>", TY_ULL, P_EQ, b_check_equal<unsigned long long> },
    { "CHECK_EQUAL_TEXT<long>", TY_LONG, P_EQ, b_check_equal_text<long> },
    { "CHECK_EQUAL_TEXT<unsigned int>", TY_UINT, P_EQ, b_check_equal_text<unsigned int> },
    { "CHECK_EQUAL_ZERO<int>", TY_INT, P_ZERO, b_check_equal_zero<int> },
    { "CHECK_EQUAL_ZERO<long long>", TY_LL, P_ZERO, b_check_equal_zero<long long> },
    { "CHECK_EQUAL_ZERO_TEXT<long>", TY_LONG, P_ZERO, b_check_equal_zero_text<long> },
    { "BYTES_EQUAL<int>", TY_INT, P_LOWBYTE, b_bytes<int> },
    { "BYTES_EQUAL<long long>", TY_LL, P_LOWBYTE, b_bytes<long long> },
    { "BYTES_EQUAL_TEXT<int>", TY_INT, P_LOWBYTE, b_bytes_text<int> },
    { "SIGNED_BYTES_EQUAL_TEXT", TY_SCHAR, P_EQ, b_sbytes_text },
    { "ENUMS_EQUAL_INT", TY_INT, P_EQ, b_enums_int },
    { "ENUMS_EQUAL_INT_TEXT", TY_INT, P_EQ, b_enums_int_text },
    { "ENUMS_EQUAL_TYPE<unsigned char>", TY_UCHAR, P_EQ, b_enums_type<EU8, unsigned char> },
    { "ENUMS_EQUAL_TYPE<unsigned int>", TY_UINT, P_EQ, b_enums_type<EUInt, unsigned int> },
    { "ENUMS_EQUAL_TYPE<long long>", TY_LL, P_EQ, b_enums_type<ELL, long long> },
    { "ENUMS_EQUAL_TYPE<unsigned long long>", TY_ULL, P_EQ, b_enums_type<EULL, unsigned long long> },
    { "ENUMS_EQUAL_TYPE_TEXT<long long>", TY_LL, P_EQ, b_enums_type_text<ELL, long long> },
    { "CHECK_EQUAL_C_BOOL", TY_INT, P_BOOLEQ, b_c_bool },
    { "CHECK_EQUAL_C_BOOL_TEXT", TY_INT, P_BOOLEQ, b_c_bool_text },
    { "CHECK_EQUAL_C_INT", TY_INT, P_EQ, b_c_int },
    { "CHECK_EQUAL_C_INT_TEXT", TY_INT, P_EQ, b_c_int_text },
    { "CHECK_EQUAL_C_UINT", TY_UINT, P_EQ, b_c_uint },
    { "CHECK_EQUAL_C_UINT_TEXT", TY_UINT, P_EQ, b_c_uint_text },
    { "CHECK_EQUAL_C_LONG", TY_LONG, P_EQ, b_c_long },
    { "CHECK_EQUAL_C_LONG_TEXT", TY_LONG, P_EQ, b_c_long_text },
    { "CHECK_EQUAL_C_ULONG", TY_ULONG, P_EQ, b_c_ulong },
    { "CHECK_EQUAL_C_ULONG_TEXT", TY_ULONG, P_EQ, b_c_ulong_text },
    { "CHECK_EQUAL_C_LONGLONG", TY_LL, P_EQ, b_c_ll },
    { "CHECK_EQUAL_C_LONGLONG_TEXT", TY_LL, P_EQ, b_c_ll_text },
    { "CHECK_EQUAL_C_ULONGLONG", TY_ULL, P_EQ, b_c_ull },
    { "CHECK_EQUAL_C_ULONGLONG_TEXT", TY_ULL, P_EQ, b_c_ull_text },
    { "CHECK_EQUAL_C_CHAR_TEXT", TY_CHAR, P_EQ, b_c_char_text },
    { "CHECK_EQUAL_C_UBYTE_TEXT", TY_UCHAR, P_EQ, b_c_ubyte_text },
    { "CHECK_EQUAL_C_SBYTE_TEXT", TY_SCHAR, P_EQ, b_c_sbyte_text },
};
static const size_t NICHK = sizeof(ICHK) / sizeof(ICHK[0]);

static std::vector<i128> LAT[TY_N];
static void init_lattice() {
    std::vector<i128> m;
    int big[] = { 31, 32, 63, 64 }, small[] = { 7, 8, 15, 16 };
    for (int d = -2; d <= 2; d++) m.push_back(d);
    for (int p : big) for (int d = -2; d <= 2; d++) { m.push_back((ONE << p) + d); m.push_back(-(ONE << p) + d); }
    for (int p : small) for (int d = -1; d <= 1; d++) { m.push_back((ONE << p) + d); m.push_back(-(ONE << p) + d); }
    m.push_back(42); m.push_back(0x1234567890abcdefLL); m.push_back((ONE << 32) + 42); m.push_back((ONE << 8) + 42);
    std::sort(m.begin(), m.end()); m.erase(std::unique(m.begin(), m.end()), m.end());
    for (int t = 0; t < TY_N; t++) for (i128 x : m) if (x >= tmin(t) && x <= tmax(t)) LAT[t].push_back(x);
}

static std::string int_class(i128 a, i128 b) {
    if (a == b) return "equal";
    i128 d = a > b ? a - b : b - a;
    if (d == 1) return "adjacent";
    if (d % (ONE << 64) == 0) return "same-low64";
    if (d % (ONE << 32) == 0) return "same-low32";
    if (d % (ONE << 16) == 0) return "same-low16";
    if (d % (ONE << 8) == 0) return "same-low8";
    if ((a != 0) == (b != 0)) return "both-nonzero";
    return "other";
}
static bool int_boundary(int ty, i128 a, i128 b) {
    i128 d = a > b ? a - b : b - a;
    if (a != b) return d <= 2 || d % 256 == 0;
    // equal pair: non-trivial only at the edge of the type or beyond int range
    return a == tmin(ty) || a == tmax(ty) || a > INT_MAX || a < INT_MIN;
}

static void run_int_case(vf::Ctx& c, const IntCheck& k, i128 a, i128 b) {
    std::string name = k.name;
    c.begin([=] { return vf::J().k("check", name).k("type", TY_NAME[k.ty]).k("expected", s128(a)).k("actual", s128(b)).str(); });
    G.a = a; G.b = b;
    Obs o = run_check(k.body);
    bool p = int_pred(k.pred, a, b);
    judge(c, name, int_class(a, b), p ? EXP_PASS : EXP_FAIL, o);
    if (int_boundary(k.ty, a, b)) c.nontrivial(name + ":" + s128(a) + ":" + s128(b));
}

static i128 mixed_garbage(i128 a, i128 bbyte) {   // int whose low byte is bbyte and whose upper 24 bits are a fixed function of the pair
    uint32_t g = (uint32_t) ((uint64_t) (a * 131 + bbyte * 7 + 0x5a5a5) * 2654435761u);
    uint32_t raw = (g & 0xffffff00u) | (uint32_t) (bbyte & 0xff);
    return (i128) (int) raw;
}

static void sec_int8(vf::Ctx& c) {
    uint64_t i = c.idx;
    unsigned bb = (unsigned) (i % 256); i /= 256; unsigned aa = (unsigned) (i % 256); i /= 256;
    const IntCheck& k = I8[i];
    i128 a = wrap(k.ty, aa), b = wrap(k.ty, bb);
    if (k.body == b_bytes_mixed) b = mixed_garbage(a, bb);
    run_int_case(c, k, a, b);
}

static std::vector<uint64_t> ilat_prefix; static uint64_t ilat_total = 0;
static void init_ilat() { for (size_t k = 0; k < NICHK; k++) { ilat_prefix.push_back(ilat_total); size_t n = LAT[ICHK[k].ty].size(); ilat_total += (ICHK[k].pred == P_ZERO) ? n : n * n; } }
static void sec_int_lattice(vf::Ctx& c) {
    size_t k = std::upper_bound(ilat_prefix.begin(), ilat_prefix.end(), c.idx) - ilat_prefix.begin() - 1;
    uint64_t r = c.idx - ilat_prefix[k];
    const std::vector<i128>& L = LAT[ICHK[k].ty];
    if (ICHK[k].pred == P_ZERO) run_int_case(c, ICHK[k], 0, L[r]);
    else run_int_case(c, ICHK[k], L[r / L.size()], L[r % L.size()]);
}

static uint64_t rand_raw(vf::Rng& r) {
    uint64_t raw = r.next();
    switch (r.below(4)) {
    case 0: raw >>= r.below(64); break;
    case 1: raw = (1ull << r.below(64)) + (uint64_t) (int64_t) r.range(-3, 3); break;
    case 2: raw = (uint64_t) (int64_t) r.range(-70000, 70000); break;
    default: break;
    }
    return raw;
}
static void sec_int_random(vf::Ctx& c) {
    size_t n = NICHK + NI8;
    size_t ki = (size_t) c.rng.below(n);
    const IntCheck& k = ki < NICHK ? ICHK[ki] : I8[ki - NICHK];
    uint64_t ra = rand_raw(c.rng), rb;
    switch (c.rng.below(6)) {
    case 0: rb = ra; break;                                                 // equal
    case 1: rb = ra ^ (1ull << c.rng.below(64)); break;                     // one bit differs (possibly above the type's width => equal after wrap)
    case 2: rb = ra + ((uint64_t) c.rng.range(1, 3) << (8 * c.rng.range(1, 7))); break;   // same low bytes
    case 3: rb = ra + (uint64_t) (int64_t) c.rng.range(-2, 2); break;       // adjacent
    case 4: rb = ~ra + (uint64_t) c.rng.below(2); break;                    // complement / negation
    default: rb = rand_raw(c.rng); break;
    }
    i128 a = wrap(k.ty, ra), b = wrap(k.ty, rb);
    if (k.body == b_bytes_mixed) b = (i128) (int) (uint32_t) rb;
    if (k.pred == P_ZERO) { a = 0; if (c.rng.chance(30)) b = 0; }
    run_int_case(c, k, a, b);
}

// ================================================================ pointers and function pointers
static void fn1() {} static void fn2() {}
static char g_buf[8], g_buf2[8];
static void b_ptrs() { POINTERS_EQUAL(G.pa, G.pb); DONE; }
static void b_ptrs_text() { POINTERS_EQUAL_TEXT(G.pa, G.pb, "txt"); DONE; }
static void b_c_ptr() { CHECK_EQUAL_C_POINTER(G.pa, G.pb); DONE; }
static void b_c_ptr_text() { CHECK_EQUAL_C_POINTER_TEXT(G.pa, G.pb, "txt"); DONE; }
static void b_check_equal_ptr() { const void* e = G.pa; const void* a = G.pb; CHECK_EQUAL(e, a); DONE; }
static void b_ptrs_typed() { const char* e = (const char*) G.pa; const int* a = (const int*) G.pb; POINTERS_EQUAL(e, a); DONE; }
static void b_fptrs() { FUNCTIONPOINTERS_EQUAL(G.fa, G.fb); DONE; }
static void b_fptrs_text() { FUNCTIONPOINTERS_EQUAL_TEXT(G.fa, G.fb, "txt"); DONE; }
static void b_check_equal_fptr() { void (*e)() = G.fa; void (*a)() = G.fb; CHECK_EQUAL(e, a); DONE; }
struct PtrCheck { const char* name; void (*body)(); };
static const PtrCheck PCHK[] = { { "POINTERS_EQUAL", b_ptrs }, { "POINTERS_EQUAL_TEXT", b_ptrs_text }, { "POINTERS_EQUAL<typed>", b_ptrs_typed }, { "CHECK_EQUAL_C_POINTER", b_c_ptr },
                                 { "CHECK_EQUAL_C_POINTER_TEXT", b_c_ptr_text }, { "CHECK_EQUAL<const void*>", b_check_equal_ptr } };
static const PtrCheck FCHK[] = { { "FUNCTIONPOINTERS_EQUAL", b_fptrs }, { "FUNCTIONPOINTERS_EQUAL_TEXT", b_fptrs_text }, { "CHECK_EQUAL<void(*)()>", b_check_equal_fptr } };
static const size_t NPCHK = sizeof(PCHK) / sizeof(PCHK[0]), NFCHK = sizeof(FCHK) / sizeof(FCHK[0]);
static std::vector<uintptr_t> PV, FV;   // never dereferenced / never called
static void init_ptrs() {
    uintptr_t p = (uintptr_t) &g_buf[0], f = (uintptr_t) &fn1;
    uintptr_t pv[] = { 0, p, p + 1, (uintptr_t) &g_buf2[0], 1, p ^ (1ull << 32), p ^ (1ull << 63), p ^ (1ull << 47), (uintptr_t) 1 << 32, UINTPTR_MAX, (uintptr_t) (uint32_t) p };
    uintptr_t fv[] = { 0, f, (uintptr_t) &fn2, f ^ (1ull << 32), f ^ (1ull << 63), UINTPTR_MAX, (uintptr_t) (uint32_t) f };
    PV.assign(pv, pv + sizeof(pv) / sizeof(pv[0])); FV.assign(fv, fv + sizeof(fv) / sizeof(fv[0]));
}
static std::string ptr_class(uintptr_t a, uintptr_t b) {
    if (a == b) return a ? "same" : "both-null";
    if (!a || !b) return "null-vs-nonnull";
    if ((uint32_t) a == (uint32_t) b) return "same-low32";
    return "different";
}
static void sec_pointers(vf::Ctx& c) {
    uint64_t i = c.idx, np = NPCHK * PV.size() * PV.size();
    bool isf = i >= np; if (isf) i -= np;
    const std::vector<uintptr_t>& V = isf ? FV : PV;
    uintptr_t b = V[i % V.size()]; i /= V.size(); uintptr_t a = V[i % V.size()]; i /= V.size();
    const PtrCheck& k = isf ? FCHK[i] : PCHK[i];
    std::string name = k.name;
    c.begin([=] { return vf::J().k("check", name).k("expected", (unsigned long) a).k("actual", (unsigned long) b).str(); });
    G.pa = (const void*) a; G.pb = (const void*) b; G.fa = (void (*)()) a; G.fb = (void (*)()) b;
    Obs o = run_check(k.body);
    judge(c, name, ptr_class(a, b), a == b ? EXP_PASS : EXP_FAIL, o);
    G.pa = G.pb = nullptr; G.fa = G.fb = nullptr;
    if (a == 0 || b == 0 || ((uint32_t) a == (uint32_t) b) || a + 1 == b || b + 1 == a) c.nontrivial(name + ":" + std::to_string(a) + ":" + std::to_string(b));
}

// ================================================================ doubles
static void b_doubles() { DOUBLES_EQUAL(G.da, G.db, G.dt); DONE; }
static void b_doubles_text() { DOUBLES_EQUAL_TEXT(G.da, G.db, G.dt, "txt"); DONE; }
static void b_c_real() { CHECK_EQUAL_C_REAL(G.da, G.db, G.dt); DONE; }
static void b_c_real_text() { CHECK_EQUAL_C_REAL_TEXT(G.da, G.db, G.dt, "txt"); DONE; }
static void b_doubles_float() { float e = (float) G.da, a = (float) G.db; DOUBLES_EQUAL(e, a, G.dt); DONE; }
static void b_check_equal_double() { double e = G.da, a = G.db; CHECK_EQUAL(e, a); DONE; }
struct DblCheck { const char* name; void (*body)(); int kind; };   // kind 0: tolerance check, 1: exact (CHECK_EQUAL), 2: operands narrowed to float first
static const DblCheck DCHK[] = { { "DOUBLES_EQUAL", b_doubles, 0 }, { "CHECK_EQUAL_C_REAL", b_c_real, 0 }, { "DOUBLES_EQUAL_TEXT", b_doubles_text, 0 }, { "CHECK_EQUAL_C_REAL_TEXT", b_c_real_text, 0 },
                                 { "DOUBLES_EQUAL<float>", b_doubles_float, 2 }, { "CHECK_EQUAL<double>", b_check_equal_double, 1 } };
static const size_t NDCHK = sizeof(DCHK) / sizeof(DCHK[0]);
static const double D_INF = std::numeric_limits<double>::infinity(), D_NAN = std::numeric_limits<double>::quiet_NaN(), D_DEN = 4.9406564584124654e-324;
static const double DV[] = { 0.0, -0.0, D_DEN, -D_DEN, 2 * D_DEN, DBL_MIN, -DBL_MIN, 1e-9, 0.5, 1.0, -1.0, 1.0 + DBL_EPSILON, 1.0 - DBL_EPSILON / 2, -1.0 - DBL_EPSILON, 1.0 + 1e-9, 2.0, 3.0, 1e300,
                             DBL_MAX, -DBL_MAX, DBL_MAX / 2, D_INF, -D_INF, D_NAN, -D_NAN };
static const double TOL[] = { 0.0, -0.0, D_DEN, DBL_MIN, DBL_EPSILON / 2, DBL_EPSILON, 1e-9, 0.5, 1.0, 2.0, 1e300, DBL_MAX, D_INF, D_NAN, -D_DEN, -1.0, -D_INF };
static const size_t NDV = sizeof(DV) / sizeof(DV[0]), NTOL = sizeof(TOL) / sizeof(TOL[0]);

// The property's rule, decided exactly. Returns EXP_PASS / EXP_FAIL, or EXP_UNJUDGED where the statement is silent
// (negative or NaN tolerance) or where the exact real answer hinges on a rounding error of the subtraction (|a-b| rounds
// to exactly tol but is not exactly tol). cls names the input class.
// Infinite distance (opposite infinities, or an infinity against a finite value) is judged by the statement as written:
// the operands "differ by" +inf, which is "no more than" a tolerance of +inf and more than every finite tolerance
// (extended-real ordering, inf <= inf), so an infinite tolerance makes every pair of non-NaN operands equal.
static int doubles_oracle(double a, double b, double tol, std::string& cls) {
    if (std::isnan(a) || std::isnan(b)) { cls = "nan-operand"; return EXP_FAIL; }           // NaN equals nothing
    if (std::isnan(tol)) { cls = "nan-tolerance"; return EXP_UNJUDGED; }
    if (tol < 0) { cls = "negative-tolerance"; return EXP_UNJUDGED; }
    if (a == b) { cls = std::isinf(a) ? "same-infinity" : (std::signbit(a) != std::signbit(b) ? "signed-zeros" : "same-value"); return EXP_PASS; }
    if (std::isinf(a) || std::isinf(b)) {
        cls = (std::isinf(a) && std::isinf(b)) ? "opposite-infinities" : "infinite-vs-finite";
        if (std::isinf(tol)) { cls += ":infinite-tolerance"; return EXP_PASS; }              // distance inf <= tolerance inf
        return EXP_FAIL;                                                                     // infinitely far apart, finite tolerance
    }
    if (std::isinf(tol)) { cls = "finite:infinite-tolerance"; return EXP_PASS; }
    double hi = a > b ? a : b, lo = a > b ? b : a;
    double s = hi - lo;
    if (std::isinf(s)) { cls = "difference-overflows"; return EXP_FAIL; }                    // true difference > DBL_MAX >= tol
    double nl = -lo, bb = s - hi, e = (hi - (s - bb)) + (nl - bb);                           // TwoSum: hi - lo == s + e exactly
    if (s < tol) { cls = "inside-tolerance"; return EXP_PASS; }
    if (s > tol) { cls = "outside-tolerance"; return EXP_FAIL; }
    if (e == 0) { cls = "exactly-at-tolerance"; return EXP_PASS; }
    cls = "rounds-to-tolerance"; return EXP_UNJUDGED;
}
static void run_double_case(vf::Ctx& c, const DblCheck& k, double a, double b, double tol) {
    std::string name = k.name;
    c.begin([=] { return vf::J().k("check", name).k("expected", dstr(a)).k("actual", dstr(b)).k("tolerance", dstr(tol)).str(); });
    if (k.kind == 2) { a = (double) (float) a; b = (double) (float) b; }                       // what the check really receives
    G.da = a; G.db = b; G.dt = tol;
    Obs o = run_check(k.body);
    std::string cls; int exp;
    if (k.kind == 1) { bool eq = !std::isnan(a) && !std::isnan(b) && a == b; exp = eq ? EXP_PASS : EXP_FAIL; cls = (std::isnan(a) || std::isnan(b)) ? "nan-operand" : eq ? "same-value" : "different"; }
    else exp = doubles_oracle(a, b, tol, cls);
    judge(c, name, cls, exp, o);
    if (exp == EXP_UNJUDGED) c.count("doubles_unjudged:" + cls);
    bool nt = std::isinf(a) || std::isinf(b) || std::isnan(a) || std::isnan(b) || (a == b && std::signbit(a) != std::signbit(b));
    if (!nt && k.kind != 1 && a != b && tol > 0 && !std::isinf(tol)) { double d = fabs(a - b); nt = d <= 2 * tol && d >= tol / 2; }
    if (!nt && k.kind == 1 && a != b) nt = std::nextafter(a, b) == b;
    if (nt) c.nontrivial(name + ":" + dstr(a) + ":" + dstr(b) + ":" + (k.kind == 1 ? "" : dstr(tol)));
}
static const uint64_t DLAT_TOTAL = (uint64_t) NDV * NDV * NTOL * 3 + (uint64_t) NDV * NDV * 3;   // first two tolerance checks + float variant fully; TEXT variants and CHECK_EQUAL with tolerance index ignored
static void sec_doubles_lattice(vf::Ctx& c) {
    uint64_t i = c.idx, full = (uint64_t) NDV * NDV * NTOL * 3;
    if (i < full) {
        double b = DV[i % NDV]; i /= NDV; double a = DV[i % NDV]; i /= NDV; double t = TOL[i % NTOL]; i /= NTOL;
        static const int which[3] = { 0, 1, 4 };
        run_double_case(c, DCHK[which[i]], a, b, t);
    } else {
        i -= full;
        double b = DV[i % NDV]; i /= NDV; double a = DV[i % NDV]; i /= NDV;
        static const int which[3] = { 2, 3, 5 };
        // TEXT variants get a tolerance chosen by the pair index so that all tolerances are visited
        run_double_case(c, DCHK[which[i]], a, b, TOL[(c.idx * 7 + 3) % NTOL]);
    }
}
// Every double CLASS against every tolerance CLASS through every tolerance-taking check (the lattice above runs the _TEXT
// variants with one tolerance per operand pair only): operands {+-0, +-subnormal, +-1, +-DBL_MAX, +-inf, NaN} squared x
// tolerances {0, subnormal, 1, DBL_MAX, +inf, NaN, -1, -inf} x the 5 tolerance checks, complete cross product. Besides the
// check's verdict the public predicate function doubles_equal() is called on the same triple; its answer is recorded and
// compared with the check's verdict as evidence (the property speaks about checks, so this is counted, not judged).
static const double SDV[] = { 0.0, -0.0, D_DEN, -D_DEN, 1.0, -1.0, DBL_MAX, -DBL_MAX, D_INF, -D_INF, D_NAN };
static const double STOL[] = { 0.0, D_DEN, 1.0, DBL_MAX, D_INF, D_NAN, -1.0, -D_INF };
static const int SDCHK[] = { 0, 1, 2, 3, 4 };
static const size_t NSDV = sizeof(SDV) / sizeof(SDV[0]), NSTOL = sizeof(STOL) / sizeof(STOL[0]), NSDCHK = sizeof(SDCHK) / sizeof(SDCHK[0]);
static const uint64_t DSPEC_TOTAL = (uint64_t) NSDV * NSDV * NSTOL * NSDCHK;
static const char* dbl_class(double d) {
    if (std::isnan(d)) return "nan";
    if (std::isinf(d)) return d > 0 ? "+inf" : "-inf";
    if (d == 0) return std::signbit(d) ? "-0" : "+0";
    if (fabs(d) < DBL_MIN) return "subnormal";
    if (fabs(d) == DBL_MAX) return "max";
    return d < 0 ? "negative" : "finite";
}
static void sec_doubles_special(vf::Ctx& c) {
    uint64_t i = c.idx;
    double b = SDV[i % NSDV]; i /= NSDV; double a = SDV[i % NSDV]; i /= NSDV; double t = STOL[i % NSTOL]; i /= NSTOL;
    const DblCheck& k = DCHK[SDCHK[i % NSDCHK]];
    run_double_case(c, k, a, b, t);
    std::string cls; int exp = doubles_oracle(a, b, t, cls);
    c.count(std::string("special_tolerance_class:") + dbl_class(t));
    if (std::isinf(t) && t > 0 && !std::isnan(a) && !std::isnan(b)) {
        c.count("infinite_tolerance_judged");
        if (a != b && (std::isinf(a) || std::isinf(b))) c.count(std::isinf(a) && std::isinf(b) ? "infinite_tolerance_opposite_infinities_judged" : "infinite_tolerance_infinite_vs_finite_judged");
    }
    bool fn = doubles_equal(a, b, t);                                   // same triple through the exported predicate
    c.count(fn ? "doubles_equal_fn:true" : "doubles_equal_fn:false");
    if (exp != EXP_UNJUDGED && fn != (exp == EXP_PASS)) c.count("doubles_equal_fn_differs_from_model:" + cls);   // evidence only
}
static double rand_double(vf::Rng& r) {
    switch (r.below(6)) {
    case 0: return DV[r.below(NDV)];
    case 1: { uint64_t bits = r.next(); double d; memcpy(&d, &bits, 8); return d; }        // any bit pattern (NaNs, subnormals, huge)
    case 2: return (double) r.range(-1000, 1000) / 8.0;
    case 3: return ldexp((double) (r.next() >> 11) / 9007199254740992.0 + 0.5, r.range(-1074, 1023));
    default: return (double) (int64_t) r.next() / 1024.0;
    }
}
static void sec_doubles_random(vf::Ctx& c) {
    const DblCheck& k = DCHK[c.rng.below(NDCHK)];
    double a = rand_double(c.rng), b, tol;
    double delta = fabs(rand_double(c.rng));
    if (std::isnan(delta) || std::isinf(delta) || c.rng.chance(50)) delta = ldexp(1.0, c.rng.range(-60, 10)) * (1 + (double) c.rng.below(8) / 8);
    switch (c.rng.below(5)) {
    case 0: b = a; break;
    case 1: b = std::nextafter(a, c.rng.chance(50) ? D_INF : -D_INF); break;
    case 2: case 3: b = c.rng.chance(50) ? a + delta : a - delta; break;
    default: b = rand_double(c.rng); break;
    }
    double d = fabs(a - b);
    switch (c.rng.below(8)) {
    case 0: tol = d; break;                                            // exactly the (rounded) distance
    case 1: tol = std::nextafter(d, D_INF); break;
    case 2: tol = std::nextafter(d, -D_INF); break;
    case 3: tol = delta; break;
    case 4: tol = TOL[c.rng.below(NTOL)]; break;
    case 5: tol = d * 2; break;
    case 6: tol = d / 2; break;
    default: tol = fabs(rand_double(c.rng)); break;
    }
    run_double_case(c, k, a, b, tol);
}

// ================================================================ C strings
static void b_strcmp() { STRCMP_EQUAL(G.sa, G.sb); DONE; }
static void b_strcmp_text() { STRCMP_EQUAL_TEXT(G.sa, G.sb, "txt"); DONE; }
static void b_c_string() { CHECK_EQUAL_C_STRING(G.sa, G.sb); DONE; }
static void b_c_string_text() { CHECK_EQUAL_C_STRING_TEXT(G.sa, G.sb, "txt"); DONE; }
static void b_strncmp() { STRNCMP_EQUAL(G.sa, G.sb, G.n); DONE; }
static void b_strncmp_text() { STRNCMP_EQUAL_TEXT(G.sa, G.sb, G.n, "txt"); DONE; }
static void b_nocase() { STRCMP_NOCASE_EQUAL(G.sa, G.sb); DONE; }
static void b_nocase_text() { STRCMP_NOCASE_EQUAL_TEXT(G.sa, G.sb, "txt"); DONE; }
static void b_contains() { STRCMP_CONTAINS(G.sa, G.sb); DONE; }
static void b_contains_text() { STRCMP_CONTAINS_TEXT(G.sa, G.sb, "txt"); DONE; }
static void b_nocase_contains() { STRCMP_NOCASE_CONTAINS(G.sa, G.sb); DONE; }
static void b_nocase_contains_text() { STRCMP_NOCASE_CONTAINS_TEXT(G.sa, G.sb, "txt"); DONE; }
static void b_check_equal_simplestring() { SimpleString e(G.sa), a(G.sb); CHECK_EQUAL(e, a); DONE; }
enum SK { SK_EQ, SK_NEQ, SK_NOCASE, SK_CONTAINS, SK_NOCASE_CONTAINS, SK_SSEQ };
struct StrCheck { const char* name; int kind; void (*body)(); };
static const StrCheck SCHK[] = {
    { "STRCMP_EQUAL", SK_EQ, b_strcmp }, { "STRCMP_EQUAL_TEXT", SK_EQ, b_strcmp_text }, { "CHECK_EQUAL_C_STRING", SK_EQ, b_c_string }, { "CHECK_EQUAL_C_STRING_TEXT", SK_EQ, b_c_string_text },
    { "STRCMP_NOCASE_EQUAL", SK_NOCASE, b_nocase }, { "STRCMP_NOCASE_EQUAL_TEXT", SK_NOCASE, b_nocase_text },
    { "STRCMP_CONTAINS", SK_CONTAINS, b_contains }, { "STRCMP_CONTAINS_TEXT", SK_CONTAINS, b_contains_text },
    { "STRCMP_NOCASE_CONTAINS", SK_NOCASE_CONTAINS, b_nocase_contains }, { "STRCMP_NOCASE_CONTAINS_TEXT", SK_NOCASE_CONTAINS, b_nocase_contains_text },
    { "CHECK_EQUAL<SimpleString>", SK_SSEQ, b_check_equal_simplestring },
    { "STRNCMP_EQUAL", SK_NEQ, b_strncmp }, { "STRNCMP_EQUAL_TEXT", SK_NEQ, b_strncmp_text },
};
static const size_t NSCHK = sizeof(SCHK) / sizeof(SCHK[0]), NSCHK_NOLEN = 11;
static const char* const SPOOL[] = { nullptr, "", "a", "A", "b", "aa", "aA", "Aa", "ab", "aB", "ba", "abc", "ABC", "abd", "aBc", "ab\x80", "ab\xff", "ab\xa0", "@", "`", "[", "{", "z", "Z", "bab", "aab", "abab", " a", "a " };
static const size_t NSPOOL = sizeof(SPOOL) / sizeof(SPOOL[0]);
static const size_t NLEN[] = { 0, 1, 2, 3, 4, 5, 6, SIZE_MAX };
static const size_t NNLEN = sizeof(NLEN) / sizeof(NLEN[0]);

static std::string fold(const char* s) { std::string o; for (; *s; s++) o += (char) ((*s >= 'A' && *s <= 'Z') ? *s + 32 : *s); return o; }
// exact-size heap copy, so that a read past the terminator is an ASan report
static char* dupz(const char* s, size_t len) { if (!s) return nullptr; char* p = (char*) malloc(len + 1); memcpy(p, s, len); p[len] = 0; return p; }

// what the property says about one string check on the operand VALUES (pure function of the contents)
struct StrExp { int exp; std::string cls; bool caseonly; };
static StrExp string_expect(int kind, const char* e, const char* a, size_t n) {
    bool en = e == nullptr, an = a == nullptr;
    std::string es = en ? "" : e, as = an ? "" : a;
    int exp; std::string cls;
    bool caseonly = !en && !an && es != as && fold(e) == fold(a);
    if (kind == SK_SSEQ) { exp = es == as ? EXP_PASS : EXP_FAIL; cls = (en || an) ? "null-as-empty" : exp ? "equal" : caseonly ? "case-only-difference" : "different"; }   // SimpleString(NULL) is ""
    else if (en && an) { cls = "both-null"; exp = (kind == SK_CONTAINS || kind == SK_NOCASE_CONTAINS) ? EXP_UNJUDGED : EXP_PASS; }
    else if (en || an) {
        cls = en ? "null-expected" : "null-actual";
        if (kind == SK_CONTAINS || kind == SK_NOCASE_CONTAINS) exp = EXP_UNJUDGED;          // the statement defines NULL for equality only
        else if (kind == SK_NEQ && n == 0) { exp = EXP_UNJUDGED; cls += ":length-0"; }         // zero-length rule is stated for blocks only
        else exp = EXP_FAIL;                                                                     // NULL equals only NULL
    } else {
        bool p;
        switch (kind) {
        case SK_EQ: p = strcmp(e, a) == 0; break;
        case SK_NEQ: p = strncmp(e, a, n) == 0; break;
        case SK_NOCASE: p = fold(e) == fold(a); break;
        case SK_CONTAINS: p = strstr(a, e) != nullptr; break;
        default: p = fold(a).find(fold(e)) != std::string::npos; break;
        }
        exp = p ? EXP_PASS : EXP_FAIL;
        size_t common = 0; while (common < es.size() && common < as.size() && es[common] == as[common]) common++;
        if (es == as) cls = es.empty() ? "both-empty" : "equal";
        else if (es.empty() || as.empty()) cls = "empty-vs-nonempty";
        else if (caseonly) cls = "case-only-difference";
        else if (common == es.size() || common == as.size()) cls = "proper-prefix";
        else if (as.find(es) != std::string::npos) cls = "expected-inside-actual";
        else if (fold(a).find(fold(e)) != std::string::npos) cls = "expected-inside-actual-nocase";
        else cls = "different";
        if (kind == SK_NEQ) cls += n == 0 ? ":length-0" : n <= common ? ":length-within-common-prefix" : n == common + 1 ? ":length-at-first-difference" : ":length-beyond";
    }
    StrExp r = { exp, cls, caseonly };
    return r;
}
static void run_string_case(vf::Ctx& c, const StrCheck& k, const char* e0, const char* a0, size_t n) {
    std::string name = k.name;
    bool en = e0 == nullptr, an = a0 == nullptr;
    std::string es = en ? "" : e0, as = an ? "" : a0;
    c.begin([=] { vf::J j; j.k("check", name); if (en) j.raw("expected", "null"); else j.k("expected", es); if (an) j.raw("actual", "null"); else j.k("actual", as);
                  if (k.kind == SK_NEQ) j.k("length", (unsigned long) n); return j.str(); });
    char* e = dupz(e0, es.size()); char* a = dupz(a0, as.size());
    StrExp x = string_expect(k.kind, e, a, n);
    int exp = x.exp; std::string cls = x.cls; bool caseonly = x.caseonly;
    G.sa = e; G.sb = a; G.n = n;
    Obs o = run_check(k.body);
    G.sa = G.sb = nullptr;
    judge(c, name, cls, exp, o);
    if (exp == EXP_UNJUDGED) c.count(std::string("strings_unjudged:") + (k.kind == SK_NEQ ? "strncmp:" : "contains:") + cls);
    free(e); free(a);
    if (en || an || es.empty() || as.empty() || caseonly || cls.find("proper-prefix") == 0 || (k.kind == SK_NEQ && cls.find(":length-beyond") == std::string::npos && es != as))
        c.nontrivial(name + "|" + (en ? "<null>" : es) + "|" + (an ? "<null>" : as) + "|" + (k.kind == SK_NEQ ? std::to_string(n) : ""));
}
static const uint64_t STAB_TOTAL = (uint64_t) NSPOOL * NSPOOL * (NSCHK_NOLEN + (NSCHK - NSCHK_NOLEN) * NNLEN);
static void sec_strings_table(vf::Ctx& c) {
    uint64_t i = c.idx;
    const char* a = SPOOL[i % NSPOOL]; i /= NSPOOL; const char* e = SPOOL[i % NSPOOL]; i /= NSPOOL;
    if (i < NSCHK_NOLEN) run_string_case(c, SCHK[i], e, a, 0);
    else { i -= NSCHK_NOLEN; run_string_case(c, SCHK[NSCHK_NOLEN + i / NNLEN], e, a, NLEN[i % NNLEN]); }
}
static std::string rand_str(vf::Rng& r, int maxlen) {
    static const char A1[] = "aAbB", A2[] = "aAbBzZ@`[{ 1\x80\xa0\xff";
    std::string s; int n = r.range(0, maxlen); bool wide = r.chance(30);
    for (int i = 0; i < n; i++) s += wide ? A2[r.below(sizeof(A2) - 1)] : A1[r.below(4)];
    return s;
}
static void sec_strings_random(vf::Ctx& c) {
    vf::Rng& r = c.rng;
    const StrCheck& k = SCHK[r.below(NSCHK)];
    std::string x = rand_str(r, 7), y;
    switch (r.below(8)) {
    case 0: y = x; break;
    case 1: y = x; for (char& ch : y) if (r.chance(50)) { if (ch >= 'a' && ch <= 'z') ch -= 32; else if (ch >= 'A' && ch <= 'Z') ch += 32; } break;   // case flips
    case 2: y = x; if (!y.empty()) { size_t p = r.below(y.size()); y[p] = (char) (y[p] ^ (r.chance(50) ? 0x20 : (1 << r.below(8)))); if (!y[p]) y[p] = 'q'; } break;   // one byte differs (0x20: case bit, also on non-letters)
    case 3: y = x.substr(0, r.below(x.size() + 1)); break;                                   // prefix
    case 4: y = rand_str(r, 3) + x + rand_str(r, 3); break;                                  // x inside y
    case 5: y = x + rand_str(r, 2); break;                                                   // extension
    case 6: { y = rand_str(r, 3) + x + rand_str(r, 3); for (char& ch : y) if (r.chance(40) && ((ch >= 'a' && ch <= 'z') || (ch >= 'A' && ch <= 'Z'))) ch ^= 0x20; } break;
    default: y = rand_str(r, 7); break;
    }
    bool swap = r.chance(30), xn = r.chance(4), yn = r.chance(4);
    size_t common = 0; while (common < x.size() && common < y.size() && x[common] == y[common]) common++;
    size_t n;
    switch (r.below(6)) { case 0: n = common; break; case 1: n = common + 1; break; case 2: n = common ? common - 1 : 0; break; case 3: n = SIZE_MAX - r.below(2); break; case 4: n = std::max(x.size(), y.size()) + r.below(3); break; default: n = r.below(10); break; }
    const char* e = xn ? nullptr : x.c_str(); const char* a = yn ? nullptr : y.c_str();
    if (swap) std::swap(e, a);
    run_string_case(c, k, e, a, n);
}

// ================================================================ memory blocks
static void b_memcmp() { MEMCMP_EQUAL(G.pa, G.pb, G.n); DONE; }
static void b_memcmp_text() { MEMCMP_EQUAL_TEXT(G.pa, G.pb, G.n, "txt"); DONE; }
static void b_c_memcmp() { CHECK_EQUAL_C_MEMCMP(G.pa, G.pb, G.n); DONE; }
static void b_c_memcmp_text() { CHECK_EQUAL_C_MEMCMP_TEXT(G.pa, G.pb, G.n, "txt"); DONE; }
static const PtrCheck MCHK[] = { { "MEMCMP_EQUAL", b_memcmp }, { "MEMCMP_EQUAL_TEXT", b_memcmp_text }, { "CHECK_EQUAL_C_MEMCMP", b_c_memcmp }, { "CHECK_EQUAL_C_MEMCMP_TEXT", b_c_memcmp_text } };
static const size_t NMCHK = sizeof(MCHK) / sizeof(MCHK[0]);
// block description: null, or `alloc` bytes of which the first `size` are compared
static void run_mem_case(vf::Ctx& c, const PtrCheck& k, bool en, bool an, const std::string& eb, const std::string& ab, size_t size) {
    std::string name = k.name;
    c.begin([=] { vf::J j; j.k("check", name); if (en) j.raw("expected", "null"); else j.k("expected_hex", vf::hexbytes(eb.data(), eb.size())); if (an) j.raw("actual", "null"); else j.k("actual_hex", vf::hexbytes(ab.data(), ab.size()));
                  j.k("size", (unsigned long) size); return j.str(); });
    unsigned char* e = en ? nullptr : (unsigned char*) malloc(eb.size()); unsigned char* a = an ? nullptr : (unsigned char*) malloc(ab.size());
    if (e && !eb.empty()) memcpy(e, eb.data(), eb.size());
    if (a && !ab.empty()) memcpy(a, ab.data(), ab.size());
    int exp; std::string cls;
    if (size == 0) { exp = EXP_PASS; cls = (en || an) ? "length-0:with-null" : "length-0"; }      // a zero length block always matches
    else if (en && an) { exp = EXP_PASS; cls = "both-null"; }
    else if (en || an) { exp = EXP_FAIL; cls = en ? "null-expected" : "null-actual"; }
    else {
        bool p = memcmp(e, a, size) == 0; exp = p ? EXP_PASS : EXP_FAIL;
        size_t d = 0; while (d < size && e[d] == a[d]) d++;
        cls = p ? ((eb.size() > size && ab.size() > size && eb != ab) ? "equal-differs-beyond-size" : "equal") : d == 0 ? "differs-at-first" : d == size - 1 ? "differs-at-last" : "differs-in-middle";
    }
    G.pa = e; G.pb = a; G.n = size;
    Obs o = run_check(k.body);
    G.pa = G.pb = nullptr;
    judge(c, name, cls, exp, o);
    free(e); free(a);
    if (cls != "equal" && cls != "differs-in-middle") c.nontrivial(name + "|" + (en ? "N" : vf::hexbytes(eb.data(), eb.size())) + "|" + (an ? "N" : vf::hexbytes(ab.data(), ab.size())) + "|" + std::to_string(size));
}
static const size_t MSIZES[] = { 0, 1, 5 };
static const uint64_t MTAB_TOTAL = 4 * 5 * 5 * 3;
static void sec_mem_table(vf::Ctx& c) {
    static const char* blocks[] = { nullptr, "\x01\x02\x03\x04\x05", "\x01\x02\x03\x04\x05", "\x01\x02\x03\x04\x09", "\x09\x02\x03\x04\x05" };
    uint64_t i = c.idx;
    int bi = (int) (i % 5); i /= 5; int ai = (int) (i % 5); i /= 5; size_t size = MSIZES[i % 3]; i /= 3;
    bool en = ai == 0, an = bi == 0;
    // exact-size allocations: `size` bytes, so any read beyond the compared length is reported by ASan
    std::string eb = en ? "" : std::string(blocks[ai], size), ab = an ? "" : std::string(blocks[bi], size);
    run_mem_case(c, MCHK[i], en, an, eb, ab, size);
}
static void sec_mem_random(vf::Ctx& c) {
    vf::Rng& r = c.rng;
    const PtrCheck& k = MCHK[r.below(NMCHK)];
    size_t size = r.chance(15) ? 0 : r.chance(20) ? 1 : (size_t) r.range(2, 24);
    size_t extra_e = r.chance(30) ? r.below(5) : 0, extra_a = r.chance(30) ? r.below(5) : 0;
    std::string eb(size + extra_e, '\0'), ab;
    for (char& ch : eb) ch = (char) (r.chance(70) ? r.below(3) : r.below(256));
    ab = eb.substr(0, size) + std::string(extra_a, '\0');
    for (size_t j = size; j < ab.size(); j++) ab[j] = (char) r.below(256);                      // bytes beyond the compared size differ freely
    if (size && r.chance(60)) { size_t p = r.chance(30) ? 0 : r.chance(40) ? size - 1 : r.below(size); ab[p] = (char) (ab[p] ^ (1 << r.below(8))); }
    bool en = r.chance(6), an = r.chance(6);
    run_mem_case(c, k, en, an, eb, ab, size);
}

// ================================================================ masked bits
template <class T> static void b_bits() { T e = (T) G.a, a = (T) G.b; BITS_EQUAL(e, a, (unsigned long) G.mask); DONE; }
template <class T> static void b_bits_text() { T e = (T) G.a, a = (T) G.b; BITS_EQUAL_TEXT(e, a, (unsigned long) G.mask, "txt"); DONE; }
template <class T> static void b_bits_opmask() { T e = (T) G.a, a = (T) G.b, m = (T) G.mask; BITS_EQUAL(e, a, m); DONE; }   // mask of the operand type
template <class T> static void b_c_bits() { T e = (T) G.a, a = (T) G.b; CHECK_EQUAL_C_BITS(e, a, (unsigned int) G.mask); DONE; }
template <class T> static void b_c_bits_text() { T e = (T) G.a, a = (T) G.b; CHECK_EQUAL_C_BITS_TEXT(e, a, (unsigned int) G.mask, "txt"); DONE; }
// maskbits: width of the mask parameter (64: unsigned long; 32: unsigned int of the C entry point; 0: mask has the operand type)
struct BitCheck { const char* name; int ty; int maskbits; void (*body)(); };
static const BitCheck BCHK[] = {
    { "BITS_EQUAL<unsigned char>", TY_UCHAR, 64, b_bits<unsigned char> }, { "BITS_EQUAL<unsigned short>", TY_USHORT, 64, b_bits<unsigned short> },
    { "BITS_EQUAL<unsigned int>", TY_UINT, 64, b_bits<unsigned int> }, { "BITS_EQUAL<unsigned long>", TY_ULONG, 64, b_bits<unsigned long> },
    { "BITS_EQUAL<signed char>", TY_SCHAR, 64, b_bits<signed char> }, { "BITS_EQUAL<int>", TY_INT, 64, b_bits<int> }, { "BITS_EQUAL<long>", TY_LONG, 64, b_bits<long> },
    { "BITS_EQUAL_TEXT<unsigned short>", TY_USHORT, 64, b_bits_text<unsigned short> }, { "BITS_EQUAL_TEXT<unsigned long>", TY_ULONG, 64, b_bits_text<unsigned long> },
    { "BITS_EQUAL<unsigned char,mask:unsigned char>", TY_UCHAR, 0, b_bits_opmask<unsigned char> }, { "BITS_EQUAL<unsigned int,mask:unsigned int>", TY_UINT, 0, b_bits_opmask<unsigned int> },
    { "CHECK_EQUAL_C_BITS<unsigned char>", TY_UCHAR, 32, b_c_bits<unsigned char> }, { "CHECK_EQUAL_C_BITS<unsigned short>", TY_USHORT, 32, b_c_bits<unsigned short> },
    { "CHECK_EQUAL_C_BITS<unsigned int>", TY_UINT, 32, b_c_bits<unsigned int> }, { "CHECK_EQUAL_C_BITS<int>", TY_INT, 32, b_c_bits<int> },
    { "CHECK_EQUAL_C_BITS_TEXT<unsigned short>", TY_USHORT, 32, b_c_bits_text<unsigned short> }, { "CHECK_EQUAL_C_BITS_TEXT<unsigned int>", TY_UINT, 32, b_c_bits_text<unsigned int> },
};
static const size_t NBCHK = sizeof(BCHK) / sizeof(BCHK[0]);
static int mask_width(const BitCheck& k) { return k.maskbits ? k.maskbits : tbits(k.ty); }
static void run_bits_case(vf::Ctx& c, const BitCheck& k, i128 a, i128 b, unsigned long long mask) {
    int mw = mask_width(k);
    if (mw < 64) mask &= (1ull << mw) - 1;                                   // the mask operand as the check receives it
    std::string name = k.name;
    c.begin([=] { char mb[32]; snprintf(mb, sizeof mb, "0x%llx", mask); return vf::J().k("check", name).k("type", TY_NAME[k.ty]).k("expected", s128(a)).k("actual", s128(b)).k("mask", mb).str(); });
    G.a = a; G.b = b; G.mask = mask;
    Obs o = run_check(k.body);
    // mathematical AND on the (sign-extended, unbounded) integer values; mask is non-negative
    i128 m = (i128) mask, diff = (a & m) ^ (b & m);
    bool p = diff == 0;
    i128 x = (a ^ b) & ((ONE << 64) - 1);
    int nd = 0; for (int j = 0; j < 64; j++) if ((x >> j) & 1) nd++;
    std::string cls = a == b ? "equal-operands" : p ? (nd == 1 ? "single-differing-bit-masked-out" : "differences-masked-out") : (nd == 1 ? "single-differing-bit-in-mask" : "difference-in-mask");
    if (mask == 0) cls = "zero-mask";
    int tw = tbits(k.ty);
    if (!p && tw < 64 && ((unsigned long long) diff >> tw) != 0 && ((unsigned long long) diff & ((1ull << tw) - 1)) == 0) cls = "difference-only-in-sign-extension";
    judge(c, name, cls, p ? EXP_PASS : EXP_FAIL, o);
    if (nd == 1 || mask == 0 || cls == "difference-only-in-sign-extension" || (a != b && p)) { char mb[32]; snprintf(mb, sizeof mb, "%llx", mask); c.nontrivial(name + ":" + s128(a) + ":" + s128(b) + ":" + mb); }
}
static const int BITPOS[] = { 0, 1, 7, 8, 15, 16, 31, 32, 33, 63 };
static const size_t NBITPOS = sizeof(BITPOS) / sizeof(BITPOS[0]);
static const uint64_t BPAT[] = { 0, ~0ull, 0x5555555555555555ull, 0xa5a5a5a5a5a5a5a5ull };
static const size_t NMASKS = 2 + 2 * NBITPOS + 2;
static unsigned long long table_mask(size_t mi) {
    if (mi == 0) return 0; if (mi == 1) return ~0ull;
    if (mi < 2 + NBITPOS) return 1ull << BITPOS[mi - 2];
    if (mi < 2 + 2 * NBITPOS) return ~(1ull << BITPOS[mi - 2 - NBITPOS]);
    return mi == 2 + 2 * NBITPOS ? 0xffull : 0xffffffff00000000ull;
}
static const uint64_t BTAB_TOTAL = (uint64_t) NBCHK * 4 * (NBITPOS + 1) * NMASKS;
static void sec_bits_table(vf::Ctx& c) {
    uint64_t i = c.idx;
    size_t mi = i % NMASKS; i /= NMASKS; size_t fi = i % (NBITPOS + 1); i /= (NBITPOS + 1); size_t pi = i % 4; i /= 4;
    const BitCheck& k = BCHK[i];
    uint64_t ra = BPAT[pi], rb = fi == 0 ? ra : ra ^ (1ull << BITPOS[fi - 1]);   // a flip above the operand width vanishes in the operand: equal operands
    run_bits_case(c, k, wrap(k.ty, ra), wrap(k.ty, rb), table_mask(mi));
}
static void sec_bits_random(vf::Ctx& c) {
    vf::Rng& r = c.rng;
    const BitCheck& k = BCHK[r.below(NBCHK)];
    int w = tbits(k.ty);
    uint64_t ra = r.next(), rb;
    int fb = (int) r.below((uint64_t) w);
    switch (r.below(4)) { case 0: rb = ra; break; case 1: rb = ra ^ (1ull << fb); break; case 2: rb = ra ^ (1ull << fb) ^ (1ull << r.below((uint64_t) w)); break; default: rb = r.next(); break; }
    unsigned long long mask;
    switch (r.below(7)) {
    case 0: mask = 1ull << fb; break; case 1: mask = ~(1ull << fb); break; case 2: mask = r.next(); break; case 3: mask = r.next() & r.next(); break;
    case 4: mask = (w >= 64) ? ~0ull : ((1ull << w) - 1); break; case 5: mask = (w >= 64) ? 0 : ~((1ull << w) - 1); break; default: mask = r.chance(50) ? 0 : ~0ull; break;
    }
    run_bits_case(c, k, wrap(k.ty, ra), wrap(k.ty, rb), mask);
}

// ================================================================ relational compare
enum { OP_EQ, OP_NE, OP_LT, OP_LE, OP_GT, OP_GE, OP_N };
static const char* OP_NAME[] = { "==", "!=", "<", "<=", ">", ">=" };
static int g_op;
template <class T> static void compare_with(T f, T s) {
    switch (g_op) {
    case OP_EQ: CHECK_COMPARE(f, ==, s); break; case OP_NE: CHECK_COMPARE(f, !=, s); break; case OP_LT: CHECK_COMPARE(f, <, s); break;
    case OP_LE: CHECK_COMPARE(f, <=, s); break; case OP_GT: CHECK_COMPARE(f, >, s); break; default: CHECK_COMPARE(f, >=, s); break;
    }
}
template <class T> static void compare_text_with(T f, T s) {
    switch (g_op) {
    case OP_EQ: CHECK_COMPARE_TEXT(f, ==, s, "txt"); break; case OP_NE: CHECK_COMPARE_TEXT(f, !=, s, "txt"); break; case OP_LT: CHECK_COMPARE_TEXT(f, <, s, "txt"); break;
    case OP_LE: CHECK_COMPARE_TEXT(f, <=, s, "txt"); break; case OP_GT: CHECK_COMPARE_TEXT(f, >, s, "txt"); break; default: CHECK_COMPARE_TEXT(f, >=, s, "txt"); break;
    }
}
template <class T> static void b_compare() { compare_with<T>((T) G.a, (T) G.b); DONE; }
template <class T> static void b_compare_text() { compare_text_with<T>((T) G.a, (T) G.b); DONE; }
static void b_compare_double() { compare_with<double>(G.da, G.db); DONE; }
static void b_compare_double_text() { compare_text_with<double>(G.da, G.db); DONE; }
struct CmpCheck { const char* name; int ty; void (*body)(); };   // ty -1: double
static const CmpCheck CCHK[] = {
    { "CHECK_COMPARE<int>", TY_INT, b_compare<int> }, { "CHECK_COMPARE<unsigned int>", TY_UINT, b_compare<unsigned int> }, { "CHECK_COMPARE<long>", TY_LONG, b_compare<long> },
    { "CHECK_COMPARE<long long>", TY_LL, b_compare<long long> }, { "CHECK_COMPARE<unsigned long long>", TY_ULL, b_compare<unsigned long long> }, { "CHECK_COMPARE<signed char>", TY_SCHAR, b_compare<signed char> },
    { "CHECK_COMPARE_TEXT<int>", TY_INT, b_compare_text<int> }, { "CHECK_COMPARE_TEXT<unsigned long>", TY_ULONG, b_compare_text<unsigned long> },
    { "CHECK_COMPARE<double>", -1, b_compare_double }, { "CHECK_COMPARE_TEXT<double>", -1, b_compare_double_text },
};
static const size_t NCCHK = sizeof(CCHK) / sizeof(CCHK[0]);
static std::vector<i128> CLAT[TY_N];   // thinner lattice: the relational checks are enumerated with all six operators
static void init_clat() {
    for (int t = 0; t < TY_N; t++) for (i128 x : LAT[t]) {
        i128 ax = x < 0 ? -x : x; bool keep = ax <= 1 || x == tmin(t) || x == tmax(t) || x == tmin(t) + 1 || x == tmax(t) - 1;
        for (int p : { 7, 8, 31, 32, 63 }) if (ax == (ONE << p) || ax == (ONE << p) - 1) keep = true;
        if (keep) CLAT[t].push_back(x);
    }
}
static bool relop(int op, int cmp /* -1,0,1, 2 = unordered */) {
    if (cmp == 2) return op == OP_NE;
    switch (op) { case OP_EQ: return cmp == 0; case OP_NE: return cmp != 0; case OP_LT: return cmp < 0; case OP_LE: return cmp <= 0; case OP_GT: return cmp > 0; default: return cmp >= 0; }
}
static void run_compare_case(vf::Ctx& c, const CmpCheck& k, int op, i128 a, i128 b, double da, double db) {
    std::string name = std::string(k.name) + "(" + OP_NAME[op] + ")";
    bool dbl = k.ty < 0;
    c.begin([=] { vf::J j; j.k("check", name); if (dbl) j.k("first", dstr(da)).k("second", dstr(db)); else j.k("first", s128(a)).k("second", s128(b)); return j.str(); });
    int cmp; std::string cls;
    if (dbl) { cmp = (std::isnan(da) || std::isnan(db)) ? 2 : da < db ? -1 : da > db ? 1 : 0; cls = cmp == 2 ? "unordered" : cmp == 0 ? "equal" : (std::nextafter(da, db) == db ? "adjacent" : "ordered"); }
    else { cmp = a < b ? -1 : a > b ? 1 : 0; i128 d = a > b ? a - b : b - a; cls = cmp == 0 ? "equal" : d == 1 ? "adjacent" : ((a < 0) != (b < 0)) ? "opposite-signs" : d % (ONE << 32) == 0 ? "same-low32" : "ordered"; }
    G.a = a; G.b = b; G.da = da; G.db = db; g_op = op;
    Obs o = run_check(k.body);
    judge(c, name, cls, relop(op, cmp) ? EXP_PASS : EXP_FAIL, o, true);
    if (cls != "ordered" && cls != "opposite-signs") c.nontrivial(name + ":" + (dbl ? dstr(da) + ":" + dstr(db) : s128(a) + ":" + s128(b)));
}
static std::vector<uint64_t> cmp_prefix; static uint64_t cmp_total = 0;
static void init_cmp() { for (size_t k = 0; k < NCCHK; k++) { cmp_prefix.push_back(cmp_total); size_t n = CCHK[k].ty < 0 ? NDV : CLAT[CCHK[k].ty].size(); cmp_total += n * n * OP_N; } }
static void sec_compare_lattice(vf::Ctx& c) {
    size_t k = std::upper_bound(cmp_prefix.begin(), cmp_prefix.end(), c.idx) - cmp_prefix.begin() - 1;
    uint64_t r = c.idx - cmp_prefix[k];
    int op = (int) (r % OP_N); r /= OP_N;
    if (CCHK[k].ty < 0) run_compare_case(c, CCHK[k], op, 0, 0, DV[r / NDV], DV[r % NDV]);
    else { const std::vector<i128>& L = CLAT[CCHK[k].ty]; run_compare_case(c, CCHK[k], op, L[r / L.size()], L[r % L.size()], 0, 0); }
}
static void sec_compare_random(vf::Ctx& c) {
    vf::Rng& r = c.rng;
    const CmpCheck& k = CCHK[r.below(NCCHK)];
    int op = (int) r.below(OP_N);
    if (k.ty < 0) {
        double a = rand_double(r), b;
        switch (r.below(4)) { case 0: b = a; break; case 1: b = std::nextafter(a, D_INF); break; case 2: b = std::nextafter(a, -D_INF); break; default: b = rand_double(r); break; }
        run_compare_case(c, k, op, 0, 0, a, b);
    } else {
        uint64_t ra = rand_raw(r), rb;
        switch (r.below(5)) { case 0: rb = ra; break; case 1: rb = ra + 1; break; case 2: rb = ra - 1; break; case 3: rb = ra ^ (1ull << r.below(64)); break; default: rb = rand_raw(r); break; }
        run_compare_case(c, k, op, wrap(k.ty, ra), wrap(k.ty, rb), 0, 0);
    }
}

// ================================================================ boolean checks, FAIL, CHECK_THROWS
enum { BV_BOOL, BV_INT, BV_LONG, BV_DOUBLE, BV_PTR };
struct BoolVal { const char* text; int kind; long long iv; double dv; bool truth; };
static const BoolVal BVAL[] = {
    { "false", BV_BOOL, 0, 0, false }, { "true", BV_BOOL, 1, 0, true },
    { "0", BV_INT, 0, 0, false }, { "1", BV_INT, 1, 0, true }, { "2", BV_INT, 2, 0, true }, { "-1", BV_INT, -1, 0, true }, { "256", BV_INT, 256, 0, true }, { "65536", BV_INT, 65536, 0, true },
    { "INT_MIN", BV_INT, INT_MIN, 0, true }, { "INT_MAX", BV_INT, INT_MAX, 0, true }, { "0x40000000", BV_INT, 0x40000000, 0, true },
    { "0L", BV_LONG, 0, 0, false }, { "1L<<32", BV_LONG, 1LL << 32, 0, true }, { "LONG_MIN", BV_LONG, LONG_MIN, 0, true }, { "1L<<40", BV_LONG, 1LL << 40, 0, true },
    { "0.0", BV_DOUBLE, 0, 0.0, false }, { "-0.0", BV_DOUBLE, 0, -0.0, false }, { "0.25", BV_DOUBLE, 0, 0.25, true }, { "denorm", BV_DOUBLE, 0, 4.9406564584124654e-324, true }, { "nan", BV_DOUBLE, 0, std::numeric_limits<double>::quiet_NaN(), true },
    { "null pointer", BV_PTR, 0, 0, false }, { "pointer", BV_PTR, 1, 0, true },
};
static const size_t NBVAL = sizeof(BVAL) / sizeof(BVAL[0]);
static const BoolVal* g_bv;
#define WITH_COND(STMT_BOOL, STMT_INT, STMT_LONG, STMT_DOUBLE, STMT_PTR) \
    switch (g_bv->kind) { \
    case BV_BOOL: { bool cond = g_bv->iv != 0; STMT_BOOL; } break; \
    case BV_INT: { int cond = (int) g_bv->iv; STMT_INT; } break; \
    case BV_LONG: { long cond = (long) g_bv->iv; STMT_LONG; } break; \
    case BV_DOUBLE: { double cond = g_bv->dv; STMT_DOUBLE; } break; \
    default: { const char* cond = g_bv->iv ? g_buf : nullptr; STMT_PTR; } break; \
    }
#define ALLK(S) WITH_COND(S, S, S, S, S)
static void b_CHECK() { ALLK(CHECK(cond)); DONE; }
static void b_CHECK_TEXT() { ALLK(CHECK_TEXT(cond, "txt")); DONE; }
static void b_CHECK_TRUE() { ALLK(CHECK_TRUE(cond)); DONE; }
static void b_CHECK_TRUE_TEXT() { ALLK(CHECK_TRUE_TEXT(cond, "txt")); DONE; }
static void b_CHECK_FALSE() { ALLK(CHECK_FALSE(cond)); DONE; }
static void b_CHECK_FALSE_TEXT() { ALLK(CHECK_FALSE_TEXT(cond, "txt")); DONE; }
// CHECK_C takes an int: only bool/int operands are in its domain
static void b_CHECK_C() { int cond = (int) g_bv->iv; CHECK_C(cond); DONE; }
static void b_CHECK_C_TEXT() { int cond = (int) g_bv->iv; CHECK_C_TEXT(cond, "txt"); DONE; }
struct BoolCheck { const char* name; bool negated; bool int_only; void (*body)(); };
static const BoolCheck BOCHK[] = {
    { "CHECK", false, false, b_CHECK }, { "CHECK_TEXT", false, false, b_CHECK_TEXT }, { "CHECK_TRUE", false, false, b_CHECK_TRUE }, { "CHECK_TRUE_TEXT", false, false, b_CHECK_TRUE_TEXT },
    { "CHECK_FALSE", true, false, b_CHECK_FALSE }, { "CHECK_FALSE_TEXT", true, false, b_CHECK_FALSE_TEXT }, { "CHECK_C", false, true, b_CHECK_C }, { "CHECK_C_TEXT", false, true, b_CHECK_C_TEXT },
};
static const size_t NBOCHK = sizeof(BOCHK) / sizeof(BOCHK[0]);

struct ExBase { virtual ~ExBase() {} int x = 0; };
struct ExDerived : public ExBase {};
struct ExOther { int y = 0; };
enum { TH_NOTHING, TH_BASE, TH_DERIVED, TH_OTHER, TH_INT, TH_RUNTIME_ERROR, TH_N };
static const char* TH_NAME[] = { "nothing", "ExBase", "ExDerived", "ExOther", "int", "std::runtime_error" };
static void thrower() {
    switch (G.thrower) { case TH_BASE: throw ExBase(); case TH_DERIVED: throw ExDerived(); case TH_OTHER: throw ExOther(); case TH_INT: throw 42; case TH_RUNTIME_ERROR: throw std::runtime_error("x"); default: return; }
}
static void b_throws_base() { CHECK_THROWS(ExBase, thrower()); DONE; }
static void b_throws_derived() { CHECK_THROWS(ExDerived, thrower()); DONE; }
static void b_throws_int() { CHECK_THROWS(int, thrower()); DONE; }
static void b_throws_stdexc() { CHECK_THROWS(std::exception, thrower()); DONE; }
struct ThrowCheck { const char* name; void (*body)(); bool accepts[TH_N]; };
static const ThrowCheck TCHK[] = {
    { "CHECK_THROWS(ExBase)", b_throws_base, { false, true, true, false, false, false } },
    { "CHECK_THROWS(ExDerived)", b_throws_derived, { false, false, true, false, false, false } },
    { "CHECK_THROWS(int)", b_throws_int, { false, false, false, false, true, false } },
    { "CHECK_THROWS(std::exception)", b_throws_stdexc, { false, false, false, false, false, true } },
};
static const size_t NTCHK = sizeof(TCHK) / sizeof(TCHK[0]);

static void b_FAIL() { FAIL("txt"); DONE; }
static void b_FAIL_TEST() { FAIL_TEST("txt"); DONE; }
static void b_FAIL_C() { FAIL_C(); DONE; }
static void b_FAIL_TEXT_C() { FAIL_TEXT_C("txt"); DONE; }
static const PtrCheck FAILCHK[] = { { "FAIL", b_FAIL }, { "FAIL_TEST", b_FAIL_TEST }, { "FAIL_C", b_FAIL_C }, { "FAIL_TEXT_C", b_FAIL_TEXT_C } };
static const size_t NFAILCHK = 4;

static const uint64_t BOOL_TOTAL = (uint64_t) NBOCHK * NBVAL + NTCHK * TH_N + NFAILCHK;
static void sec_bool_table(vf::Ctx& c) {
    uint64_t i = c.idx;
    if (i < NBOCHK * NBVAL) {
        const BoolCheck& k = BOCHK[i / NBVAL]; const BoolVal& v = BVAL[i % NBVAL];
        std::string name = k.name, vt = v.text;
        c.begin([=] { return vf::J().k("check", name).k("condition", vt).str(); });
        if (k.int_only && v.kind != BV_BOOL && v.kind != BV_INT) { c.count("bool_table_not_in_domain"); return; }
        g_bv = &v;
        Obs o = run_check(k.body);
        judge(c, name, std::string(v.truth ? "true" : "false") + (v.iv != 0 && v.iv != 1 ? ":not-0-or-1" : v.kind == BV_DOUBLE ? ":double" : v.kind == BV_PTR ? ":pointer" : ""), (v.truth != k.negated) ? EXP_PASS : EXP_FAIL, o);
        c.nontrivial(name + ":" + vt);
        return;
    }
    i -= NBOCHK * NBVAL;
    if (i < NTCHK * TH_N) {
        const ThrowCheck& k = TCHK[i / TH_N]; int th = (int) (i % TH_N);
        std::string name = k.name;
        c.begin([=] { return vf::J().k("check", name).k("expression_throws", TH_NAME[th]).str(); });
        G.thrower = th;
        Obs o = run_check(k.body);
        judge(c, name, std::string("throws-") + TH_NAME[th], k.accepts[th] ? EXP_PASS : EXP_FAIL, o);
        c.nontrivial(name + ":" + TH_NAME[th]);
        return;
    }
    i -= NTCHK * TH_N;
    std::string name = FAILCHK[i].name;
    c.begin([=] { return vf::J().k("check", name).str(); });
    Obs o = run_check(FAILCHK[i].body);
    judge(c, name, "always", EXP_FAIL, o);
    c.nontrivial(name);
}

// ================================================================ macro hygiene: operands written as EXPRESSIONS
// Every check macro is handed operands spelled as unparenthesised, comma-free expressions whose top-level operator binds
// loosely (| ^ & ?: + - || && == <, pointer + offset). The property speaks about operand VALUES: the verdict must be the
// predicate on the values of the operand expressions, however they are spelled. The value of each operand is obtained by
// evaluating the same expression text outside any check macro (as a function argument); the oracles are those of the value sections.
enum { HF_ID_PLAIN, HF_ID_OR, HF_ID_XOR, HF_ID_AND, HF_ID_COND, HF_ID_ADD, HF_ID_SUB, HF_ID_LOR, HF_ID_LAND, HF_ID_EQ, HF_ID_LT, HF_ID_PADD, HF_ID_N };
static const char* const HF_TEXT[HF_ID_N] = { "x", "x | y", "x ^ y", "x & y", "s ? x : y", "x + y", "x - y", "x || y", "x && y", "x == y", "x < y", "p + o" };
#define HF_PLAIN(p) p##x
#define HF_OR(p)    p##x | p##y
#define HF_XOR(p)   p##x ^ p##y
#define HF_AND(p)   p##x & p##y
#define HF_COND(p)  p##s ? p##x : p##y
#define HF_ADD(p)   p##x + p##y
#define HF_SUB(p)   p##x - p##y
#define HF_LOR(p)   p##x || p##y
#define HF_LAND(p)  p##x && p##y
#define HF_EQ(p)    p##x == p##y
#define HF_LT(p)    p##x < p##y
#define HF_PADD(p)  p##x + p##o
static bool hf_boolvalued(int f) { return f == HF_ID_LOR || f == HF_ID_LAND || f == HF_ID_EQ || f == HF_ID_LT; }

// operand components handed to the bodies: [0] expected/first, [1] actual/second, [2] third operand (mask, length, tolerance)
static i128 H_x[3], H_y[3]; static int H_s[3];
static double HD_x[3], HD_y[3];
static const char* HP_x[2]; static const char* HP_y[2]; static size_t HP_o[2];
static void (*HFN_x[2])(); static void (*HFN_y[2])();
static int h_case; static bool h_reached;
// values of the operand expressions as evaluated outside the check macro
static i128 h_val[3]; static double h_dval[3]; static const void* h_pval[2]; static void (*h_fval[2])();
template <class V> static i128 toI(V v) { return (i128) v; }
template <class V> static double toD(V v) { return (double) v; }
static const void* toP(const void* p) { return p; }
typedef void (*vfn_t)();
static vfn_t toF(vfn_t f) { return f; }
struct HForms { int f[3]; };

// ---- form tables (one X-macro drives both the body and the table, so the case index cannot drift)
#define H_PAIRS(X, U) \
    X(OR, PLAIN, U) X(PLAIN, OR, U) X(XOR, PLAIN, U) X(PLAIN, XOR, U) X(AND, PLAIN, U) X(PLAIN, AND, U) \
    X(COND, PLAIN, U) X(PLAIN, COND, U) X(ADD, PLAIN, U) X(PLAIN, ADD, U) X(LOR, PLAIN, U) X(PLAIN, LOR, U) \
    X(LAND, PLAIN, U) X(PLAIN, LAND, U) X(EQ, PLAIN, U) X(PLAIN, EQ, U) X(LT, PLAIN, U) X(PLAIN, LT, U) \
    X(OR, COND, U) X(XOR, OR, U) X(COND, AND, U)
// compact list for the macros with a large expansion (CHECK_EQUAL, CHECK_COMPARE, ENUMS_EQUAL_*): every form once in each position
#define H_CPAIRS(X, U) \
    X(OR, PLAIN, U) X(PLAIN, OR, U) X(XOR, COND, U) X(COND, XOR, U) X(AND, PLAIN, U) X(PLAIN, AND, U) \
    X(ADD, LOR, U) X(LOR, ADD, U) X(LAND, EQ, U) X(EQ, LAND, U) X(LT, PLAIN, U) X(PLAIN, LT, U)
#define H_SINGLES(X, U) X(PLAIN, OR, U) X(PLAIN, XOR, U) X(PLAIN, AND, U) X(PLAIN, COND, U) X(PLAIN, ADD, U) X(PLAIN, LOR, U) X(PLAIN, LAND, U) X(PLAIN, EQ, U) X(PLAIN, LT, U)
#define H_ITRIPLES(X, U) \
    X(OR, PLAIN, PLAIN, U) X(PLAIN, OR, PLAIN, U) X(PLAIN, PLAIN, OR, U) \
    X(XOR, PLAIN, PLAIN, U) X(PLAIN, XOR, PLAIN, U) X(PLAIN, PLAIN, XOR, U) \
    X(AND, PLAIN, PLAIN, U) X(PLAIN, AND, PLAIN, U) X(PLAIN, PLAIN, AND, U) \
    X(COND, PLAIN, PLAIN, U) X(PLAIN, COND, PLAIN, U) X(PLAIN, PLAIN, COND, U) \
    X(ADD, PLAIN, PLAIN, U) X(PLAIN, ADD, PLAIN, U) X(PLAIN, PLAIN, ADD, U) \
    X(LOR, PLAIN, PLAIN, U) X(PLAIN, LOR, PLAIN, U) X(PLAIN, PLAIN, LOR, U) \
    X(LAND, PLAIN, PLAIN, U) X(PLAIN, LAND, PLAIN, U) X(PLAIN, PLAIN, LAND, U) \
    X(EQ, PLAIN, PLAIN, U) X(PLAIN, EQ, PLAIN, U) X(PLAIN, PLAIN, EQ, U) \
    X(LT, PLAIN, PLAIN, U) X(PLAIN, LT, PLAIN, U) X(PLAIN, PLAIN, LT, U) \
    X(OR, XOR, AND, U) X(COND, ADD, OR, U) X(LOR, LT, COND, U) X(AND, COND, XOR, U) X(ADD, EQ, LAND, U)
#define H_DTRIPLES(X, U) \
    X(COND, PLAIN, PLAIN, U) X(PLAIN, COND, PLAIN, U) X(PLAIN, PLAIN, COND, U) \
    X(ADD, PLAIN, PLAIN, U) X(PLAIN, ADD, PLAIN, U) X(PLAIN, PLAIN, ADD, U) \
    X(SUB, PLAIN, PLAIN, U) X(PLAIN, SUB, PLAIN, U) X(PLAIN, PLAIN, SUB, U) \
    X(LT, PLAIN, PLAIN, U) X(PLAIN, LT, PLAIN, U) X(PLAIN, PLAIN, LT, U) \
    X(LOR, PLAIN, PLAIN, U) X(PLAIN, LOR, PLAIN, U) X(PLAIN, PLAIN, LOR, U) \
    X(COND, ADD, SUB, U) X(ADD, SUB, COND, U) X(SUB, COND, ADD, U) X(LT, LOR, COND, U) X(LOR, LT, ADD, U)
#define H_PTRIPLES(X, U) \
    X(COND, PLAIN, PLAIN, U) X(PLAIN, COND, PLAIN, U) X(PADD, PLAIN, PLAIN, U) X(PLAIN, PADD, PLAIN, U) \
    X(COND, PADD, PLAIN, U) X(PADD, COND, PLAIN, U) X(COND, COND, PLAIN, U) X(PADD, PADD, PLAIN, U) \
    X(PLAIN, PLAIN, OR, U) X(PLAIN, PLAIN, XOR, U) X(PLAIN, PLAIN, AND, U) X(PLAIN, PLAIN, COND, U) X(PLAIN, PLAIN, ADD, U) X(PLAIN, PLAIN, LOR, U) X(PLAIN, PLAIN, LT, U) \
    X(COND, PADD, OR, U) X(PADD, COND, COND, U) X(COND, COND, ADD, U) X(PADD, PADD, XOR, U)
static const size_t NPTRIPLE_NOLEN = 8;   // the first 8 entries of H_PTRIPLES leave the length operand plain
#define H_FPAIRS(X, U) X(COND, PLAIN, U) X(PLAIN, COND, U) X(COND, COND, U)

#define H_TAB2(FE, FA, U) { { HF_ID_##FE, HF_ID_##FA, HF_ID_PLAIN } },
#define H_TAB3(FE, FA, FM, U) { { HF_ID_##FE, HF_ID_##FA, HF_ID_##FM } },
static const HForms HPAIR[] = { H_PAIRS(H_TAB2, _) };
static const HForms HCPAIR[] = { H_CPAIRS(H_TAB2, _) };
static const HForms HSINGLE[] = { H_SINGLES(H_TAB2, _) };
static const HForms HITRIPLE[] = { H_ITRIPLES(H_TAB3, _) };
static const HForms HDTRIPLE[] = { H_DTRIPLES(H_TAB3, _) };
static const HForms HPTRIPLE[] = { H_PTRIPLES(H_TAB3, _) };
static const HForms HFPAIR[] = { H_FPAIRS(H_TAB2, _) };
#define HCOUNT(a) (sizeof(a) / sizeof((a)[0]))

// ---- bodies (thousands of macro expansions: compiled without optimisation to keep the harness build short; sanitizers stay on)
#define HBODY_ATTR __attribute__((optimize("O0")))
#define H_RUN2(FE, FA, U) if (h_case == k_++) { h_val[0] = toI(HF_##FE(e_)); h_val[1] = toI(HF_##FA(a_)); h_reached = true; U(HF_##FE(e_), HF_##FA(a_)); DONE; return; }
#define H_RUN3(FE, FA, FM, U) if (h_case == k_++) { h_val[0] = toI(HF_##FE(e_)); h_val[1] = toI(HF_##FA(a_)); h_val[2] = toI(HF_##FM(m_)); h_reached = true; U(HF_##FE(e_), HF_##FA(a_), HF_##FM(m_)); DONE; return; }
#define H_ILOAD T e_x = (T) (C) H_x[0], e_y = (T) (C) H_y[0], a_x = (T) (C) H_x[1], a_y = (T) (C) H_y[1]; int e_s = H_s[0], a_s = H_s[1], k_ = 0; \
    (void) e_x; (void) e_y; (void) a_x; (void) a_y; (void) e_s; (void) a_s;
#define H_INT_BODY(fname, U) template <class T, class C = T> HBODY_ATTR static void fname() { H_ILOAD H_PAIRS(H_RUN2, U) }
#define H_INTC_BODY(fname, U) template <class T, class C = T> HBODY_ATTR static void fname() { H_ILOAD H_CPAIRS(H_RUN2, U) }
#define H_INT1_BODY(fname, U) template <class T, class C = T> HBODY_ATTR static void fname() { H_ILOAD H_SINGLES(H_RUN2, U) }
#define H_BITS_BODY(fname, U) template <class T, class M> HBODY_ATTR static void fname() { typedef T C; H_ILOAD M m_x = (M) H_x[2], m_y = (M) H_y[2]; int m_s = H_s[2]; (void) m_x; (void) m_y; (void) m_s; H_ITRIPLES(H_RUN3, U) }

#define U_CHECK_EQUAL(E, A) CHECK_EQUAL(E, A)
#define U_CHECK_EQUAL_TEXT(E, A) CHECK_EQUAL_TEXT(E, A, "txt")
#define U_CHECK_EQUAL_ZERO(E, A) CHECK_EQUAL_ZERO(A)
#define U_CHECK_EQUAL_ZERO_TEXT(E, A) CHECK_EQUAL_ZERO_TEXT(A, "txt")
#define U_LONGS(E, A) LONGS_EQUAL(E, A)
#define U_LONGS_TEXT(E, A) LONGS_EQUAL_TEXT(E, A, "txt")
#define U_ULONGS(E, A) UNSIGNED_LONGS_EQUAL(E, A)
#define U_ULONGS_TEXT(E, A) UNSIGNED_LONGS_EQUAL_TEXT(E, A, "txt")
#define U_LL(E, A) LONGLONGS_EQUAL(E, A)
#define U_LL_TEXT(E, A) LONGLONGS_EQUAL_TEXT(E, A, "txt")
#define U_ULL(E, A) UNSIGNED_LONGLONGS_EQUAL(E, A)
#define U_ULL_TEXT(E, A) UNSIGNED_LONGLONGS_EQUAL_TEXT(E, A, "txt")
#define U_BYTES(E, A) BYTES_EQUAL(E, A)
#define U_BYTES_TEXT(E, A) BYTES_EQUAL_TEXT(E, A, "txt")
#define U_SBYTES(E, A) SIGNED_BYTES_EQUAL(E, A)
#define U_SBYTES_TEXT(E, A) SIGNED_BYTES_EQUAL_TEXT(E, A, "txt")
#define U_ENUMS_INT(E, A) ENUMS_EQUAL_INT(E, A)
#define U_ENUMS_INT_TEXT(E, A) ENUMS_EQUAL_INT_TEXT(E, A, "txt")
#define U_ENUMS_TYPE(E, A) ENUMS_EQUAL_TYPE(C, E, A)
#define U_ENUMS_TYPE_TEXT(E, A) ENUMS_EQUAL_TYPE_TEXT(C, E, A, "txt")
#define U_C_BOOL(E, A) CHECK_EQUAL_C_BOOL(E, A)
#define U_C_BOOL_TEXT(E, A) CHECK_EQUAL_C_BOOL_TEXT(E, A, "txt")
#define U_C_INT(E, A) CHECK_EQUAL_C_INT(E, A)
#define U_C_INT_TEXT(E, A) CHECK_EQUAL_C_INT_TEXT(E, A, "txt")
#define U_C_UINT(E, A) CHECK_EQUAL_C_UINT(E, A)
#define U_C_UINT_TEXT(E, A) CHECK_EQUAL_C_UINT_TEXT(E, A, "txt")
#define U_C_LONG(E, A) CHECK_EQUAL_C_LONG(E, A)
#define U_C_LONG_TEXT(E, A) CHECK_EQUAL_C_LONG_TEXT(E, A, "txt")
#define U_C_ULONG(E, A) CHECK_EQUAL_C_ULONG(E, A)
#define U_C_ULONG_TEXT(E, A) CHECK_EQUAL_C_ULONG_TEXT(E, A, "txt")
#define U_C_LL(E, A) CHECK_EQUAL_C_LONGLONG(E, A)
#define U_C_LL_TEXT(E, A) CHECK_EQUAL_C_LONGLONG_TEXT(E, A, "txt")
#define U_C_ULL(E, A) CHECK_EQUAL_C_ULONGLONG(E, A)
#define U_C_ULL_TEXT(E, A) CHECK_EQUAL_C_ULONGLONG_TEXT(E, A, "txt")
#define U_C_CHAR(E, A) CHECK_EQUAL_C_CHAR(E, A)
#define U_C_CHAR_TEXT(E, A) CHECK_EQUAL_C_CHAR_TEXT(E, A, "txt")
#define U_C_UBYTE(E, A) CHECK_EQUAL_C_UBYTE(E, A)
#define U_C_UBYTE_TEXT(E, A) CHECK_EQUAL_C_UBYTE_TEXT(E, A, "txt")
#define U_C_SBYTE(E, A) CHECK_EQUAL_C_SBYTE(E, A)
#define U_C_SBYTE_TEXT(E, A) CHECK_EQUAL_C_SBYTE_TEXT(E, A, "txt")
#define U_CHECK(E, A) CHECK(A)
#define U_CHECK_TEXT(E, A) CHECK_TEXT(A, "txt")
#define U_CHECK_TRUE(E, A) CHECK_TRUE(A)
#define U_CHECK_TRUE_TEXT(E, A) CHECK_TRUE_TEXT(A, "txt")
#define U_CHECK_FALSE(E, A) CHECK_FALSE(A)
#define U_CHECK_FALSE_TEXT(E, A) CHECK_FALSE_TEXT(A, "txt")
#define U_CHECK_C(E, A) CHECK_C(A)
#define U_CHECK_C_TEXT(E, A) CHECK_C_TEXT(A, "txt")
#define U_CMP_EQ(E, A) CHECK_COMPARE(E, ==, A)
#define U_CMP_NE(E, A) CHECK_COMPARE(E, !=, A)
#define U_CMP_LT(E, A) CHECK_COMPARE(E, <, A)
#define U_CMP_LE(E, A) CHECK_COMPARE(E, <=, A)
#define U_CMP_GT(E, A) CHECK_COMPARE(E, >, A)
#define U_CMP_GE(E, A) CHECK_COMPARE(E, >=, A)
#define U_CMPT_EQ(E, A) CHECK_COMPARE_TEXT(E, ==, A, "txt")
#define U_CMPT_NE(E, A) CHECK_COMPARE_TEXT(E, !=, A, "txt")
#define U_CMPT_LT(E, A) CHECK_COMPARE_TEXT(E, <, A, "txt")
#define U_CMPT_LE(E, A) CHECK_COMPARE_TEXT(E, <=, A, "txt")
#define U_CMPT_GT(E, A) CHECK_COMPARE_TEXT(E, >, A, "txt")
#define U_CMPT_GE(E, A) CHECK_COMPARE_TEXT(E, >=, A, "txt")
#define U_BITS(E, A, M) BITS_EQUAL(E, A, M)
#define U_BITS_TEXT(E, A, M) BITS_EQUAL_TEXT(E, A, M, "txt")
#define U_C_BITS(E, A, M) CHECK_EQUAL_C_BITS(E, A, M)
#define U_C_BITS_TEXT(E, A, M) CHECK_EQUAL_C_BITS_TEXT(E, A, M, "txt")

H_INTC_BODY(hb_check_equal, U_CHECK_EQUAL) H_INTC_BODY(hb_check_equal_text, U_CHECK_EQUAL_TEXT)
H_INT1_BODY(hb_check_equal_zero, U_CHECK_EQUAL_ZERO) H_INT1_BODY(hb_check_equal_zero_text, U_CHECK_EQUAL_ZERO_TEXT)
H_INT_BODY(hb_longs, U_LONGS) H_INT_BODY(hb_longs_text, U_LONGS_TEXT) H_INT_BODY(hb_ulongs, U_ULONGS) H_INT_BODY(hb_ulongs_text, U_ULONGS_TEXT)
H_INT_BODY(hb_ll, U_LL) H_INT_BODY(hb_ll_text, U_LL_TEXT) H_INT_BODY(hb_ull, U_ULL) H_INT_BODY(hb_ull_text, U_ULL_TEXT)
H_INT_BODY(hb_bytes, U_BYTES) H_INT_BODY(hb_bytes_text, U_BYTES_TEXT) H_INT_BODY(hb_sbytes, U_SBYTES) H_INT_BODY(hb_sbytes_text, U_SBYTES_TEXT)
H_INTC_BODY(hb_enums_int, U_ENUMS_INT) H_INTC_BODY(hb_enums_int_text, U_ENUMS_INT_TEXT) H_INTC_BODY(hb_enums_type, U_ENUMS_TYPE) H_INTC_BODY(hb_enums_type_text, U_ENUMS_TYPE_TEXT)
H_INT_BODY(hb_c_bool, U_C_BOOL) H_INT_BODY(hb_c_bool_text, U_C_BOOL_TEXT) H_INT_BODY(hb_c_int, U_C_INT) H_INT_BODY(hb_c_int_text, U_C_INT_TEXT)
H_INT_BODY(hb_c_uint, U_C_UINT) H_INT_BODY(hb_c_uint_text, U_C_UINT_TEXT) H_INT_BODY(hb_c_long, U_C_LONG) H_INT_BODY(hb_c_long_text, U_C_LONG_TEXT)
H_INT_BODY(hb_c_ulong, U_C_ULONG) H_INT_BODY(hb_c_ulong_text, U_C_ULONG_TEXT) H_INT_BODY(hb_c_ll, U_C_LL) H_INT_BODY(hb_c_ll_text, U_C_LL_TEXT)
H_INT_BODY(hb_c_ull, U_C_ULL) H_INT_BODY(hb_c_ull_text, U_C_ULL_TEXT) H_INT_BODY(hb_c_char, U_C_CHAR) H_INT_BODY(hb_c_char_text, U_C_CHAR_TEXT)
H_INT_BODY(hb_c_ubyte, U_C_UBYTE) H_INT_BODY(hb_c_ubyte_text, U_C_UBYTE_TEXT) H_INT_BODY(hb_c_sbyte, U_C_SBYTE) H_INT_BODY(hb_c_sbyte_text, U_C_SBYTE_TEXT)
H_INT1_BODY(hb_CHECK, U_CHECK) H_INT1_BODY(hb_CHECK_TEXT, U_CHECK_TEXT) H_INT1_BODY(hb_CHECK_TRUE, U_CHECK_TRUE) H_INT1_BODY(hb_CHECK_TRUE_TEXT, U_CHECK_TRUE_TEXT)
H_INT1_BODY(hb_CHECK_FALSE, U_CHECK_FALSE) H_INT1_BODY(hb_CHECK_FALSE_TEXT, U_CHECK_FALSE_TEXT) H_INT1_BODY(hb_CHECK_C, U_CHECK_C) H_INT1_BODY(hb_CHECK_C_TEXT, U_CHECK_C_TEXT)
H_INTC_BODY(hb_cmp_eq, U_CMP_EQ) H_INTC_BODY(hb_cmp_ne, U_CMP_NE) H_INTC_BODY(hb_cmp_lt, U_CMP_LT) H_INTC_BODY(hb_cmp_le, U_CMP_LE) H_INTC_BODY(hb_cmp_gt, U_CMP_GT) H_INTC_BODY(hb_cmp_ge, U_CMP_GE)
 H_INTC_BODY(hb_cmpt_ne, U_CMPT_NE) H_INTC_BODY(hb_cmpt_le, U_CMPT_LE)
H_BITS_BODY(hb_bits, U_BITS) H_BITS_BODY(hb_bits_text, U_BITS_TEXT) H_BITS_BODY(hb_c_bits, U_C_BITS) H_BITS_BODY(hb_c_bits_text, U_C_BITS_TEXT)

// nops: operands that are expressions (1: only the second/actual one exists); op: relational operator of a CHECK_COMPARE, -1 otherwise
struct HICheck { const char* name; int ty; int pred; int nops; int op; void (*body)(); bool compact; };   // compact: body built from H_CPAIRS
static const HICheck HICHK[] = {
    { "CHECK_EQUAL<int>", TY_INT, P_EQ, 2, -1, hb_check_equal<int>, true },
    { "CHECK_EQUAL<unsigned int>", TY_UINT, P_EQ, 2, -1, hb_check_equal<unsigned int>, true },
    { "CHECK_EQUAL<unsigned char>", TY_UCHAR, P_EQ, 2, -1, hb_check_equal<unsigned char>, true },
    { "CHECK_EQUAL_TEXT<unsigned int>", TY_UINT, P_EQ, 2, -1, hb_check_equal_text<unsigned int>, true },
    { "CHECK_EQUAL_ZERO<int>", TY_INT, P_ZERO, 1, -1, hb_check_equal_zero<int>, false },
    { "CHECK_EQUAL_ZERO_TEXT<long>", TY_LONG, P_ZERO, 1, -1, hb_check_equal_zero_text<long>, false },
    { "LONGS_EQUAL<int>", TY_INT, P_EQ, 2, -1, hb_longs<int>, false },
    { "LONGS_EQUAL<unsigned int>", TY_UINT, P_EQ, 2, -1, hb_longs<unsigned int>, false },
    { "LONGS_EQUAL_TEXT<unsigned int>", TY_UINT, P_EQ, 2, -1, hb_longs_text<unsigned int>, false },
    { "UNSIGNED_LONGS_EQUAL<unsigned int>", TY_UINT, P_EQ, 2, -1, hb_ulongs<unsigned int>, false },
    { "UNSIGNED_LONGS_EQUAL_TEXT<unsigned int>", TY_UINT, P_EQ, 2, -1, hb_ulongs_text<unsigned int>, false },
    { "LONGLONGS_EQUAL<unsigned int>", TY_UINT, P_EQ, 2, -1, hb_ll<unsigned int>, false },
    { "LONGLONGS_EQUAL_TEXT<unsigned int>", TY_UINT, P_EQ, 2, -1, hb_ll_text<unsigned int>, false },
    { "UNSIGNED_LONGLONGS_EQUAL<unsigned int>", TY_UINT, P_EQ, 2, -1, hb_ull<unsigned int>, false },
    { "UNSIGNED_LONGLONGS_EQUAL_TEXT<unsigned int>", TY_UINT, P_EQ, 2, -1, hb_ull_text<unsigned int>, false },
    { "BYTES_EQUAL<int>", TY_INT, P_LOWBYTE, 2, -1, hb_bytes<int>, false },
    { "BYTES_EQUAL<unsigned char>", TY_UCHAR, P_LOWBYTE, 2, -1, hb_bytes<unsigned char>, false },
    { "BYTES_EQUAL<long long>", TY_LL, P_LOWBYTE, 2, -1, hb_bytes<long long>, false },
    { "BYTES_EQUAL_TEXT<int>", TY_INT, P_LOWBYTE, 2, -1, hb_bytes_text<int>, false },
    { "SIGNED_BYTES_EQUAL", TY_SCHAR, P_EQ, 2, -1, hb_sbytes<signed char>, false },
    { "SIGNED_BYTES_EQUAL_TEXT", TY_SCHAR, P_EQ, 2, -1, hb_sbytes_text<signed char>, false },
    { "ENUMS_EQUAL_INT", TY_INT, P_EQ, 2, -1, hb_enums_int<EInt, int>, true },
    { "ENUMS_EQUAL_INT_TEXT", TY_INT, P_EQ, 2, -1, hb_enums_int_text<EInt, int>, true },
    { "ENUMS_EQUAL_TYPE<unsigned int>", TY_UINT, P_EQ, 2, -1, hb_enums_type<EUInt, unsigned int>, true },
    { "ENUMS_EQUAL_TYPE_TEXT<unsigned int>", TY_UINT, P_EQ, 2, -1, hb_enums_type_text<EUInt, unsigned int>, true },
    { "CHECK_EQUAL_C_BOOL", TY_INT, P_BOOLEQ, 2, -1, hb_c_bool<int>, false },
    { "CHECK_EQUAL_C_BOOL_TEXT", TY_INT, P_BOOLEQ, 2, -1, hb_c_bool_text<int>, false },
    { "CHECK_EQUAL_C_INT", TY_INT, P_EQ, 2, -1, hb_c_int<int>, false },
    { "CHECK_EQUAL_C_INT_TEXT", TY_INT, P_EQ, 2, -1, hb_c_int_text<int>, false },
    { "CHECK_EQUAL_C_UINT", TY_UINT, P_EQ, 2, -1, hb_c_uint<unsigned int>, false },
    { "CHECK_EQUAL_C_UINT_TEXT", TY_UINT, P_EQ, 2, -1, hb_c_uint_text<unsigned int>, false },
    { "CHECK_EQUAL_C_LONG", TY_LONG, P_EQ, 2, -1, hb_c_long<long>, false },
    { "CHECK_EQUAL_C_LONG_TEXT", TY_LONG, P_EQ, 2, -1, hb_c_long_text<long>, false },
    { "CHECK_EQUAL_C_ULONG", TY_ULONG, P_EQ, 2, -1, hb_c_ulong<unsigned long>, false },
    { "CHECK_EQUAL_C_ULONG_TEXT", TY_ULONG, P_EQ, 2, -1, hb_c_ulong_text<unsigned long>, false },
    { "CHECK_EQUAL_C_LONGLONG", TY_LL, P_EQ, 2, -1, hb_c_ll<long long>, false },
    { "CHECK_EQUAL_C_LONGLONG_TEXT", TY_LL, P_EQ, 2, -1, hb_c_ll_text<long long>, false },
    { "CHECK_EQUAL_C_ULONGLONG", TY_ULL, P_EQ, 2, -1, hb_c_ull<unsigned long long>, false },
    { "CHECK_EQUAL_C_ULONGLONG_TEXT", TY_ULL, P_EQ, 2, -1, hb_c_ull_text<unsigned long long>, false },
    { "CHECK_EQUAL_C_CHAR", TY_CHAR, P_EQ, 2, -1, hb_c_char<char>, false },
    { "CHECK_EQUAL_C_CHAR_TEXT", TY_CHAR, P_EQ, 2, -1, hb_c_char_text<char>, false },
    { "CHECK_EQUAL_C_UBYTE", TY_UCHAR, P_EQ, 2, -1, hb_c_ubyte<unsigned char>, false },
    { "CHECK_EQUAL_C_UBYTE_TEXT", TY_UCHAR, P_EQ, 2, -1, hb_c_ubyte_text<unsigned char>, false },
    { "CHECK_EQUAL_C_SBYTE", TY_SCHAR, P_EQ, 2, -1, hb_c_sbyte<signed char>, false },
    { "CHECK_EQUAL_C_SBYTE_TEXT", TY_SCHAR, P_EQ, 2, -1, hb_c_sbyte_text<signed char>, false },
    { "CHECK", TY_INT, P_NONZERO, 1, -1, hb_CHECK<int>, false },
    { "CHECK_TEXT", TY_INT, P_NONZERO, 1, -1, hb_CHECK_TEXT<int>, false },
    { "CHECK_TRUE", TY_INT, P_NONZERO, 1, -1, hb_CHECK_TRUE<int>, false },
    { "CHECK_TRUE_TEXT", TY_INT, P_NONZERO, 1, -1, hb_CHECK_TRUE_TEXT<int>, false },
    { "CHECK_FALSE", TY_INT, P_ZERO, 1, -1, hb_CHECK_FALSE<int>, false },
    { "CHECK_FALSE_TEXT", TY_INT, P_ZERO, 1, -1, hb_CHECK_FALSE_TEXT<int>, false },
    { "CHECK_C", TY_INT, P_NONZERO, 1, -1, hb_CHECK_C<int>, false },
    { "CHECK_C_TEXT", TY_INT, P_NONZERO, 1, -1, hb_CHECK_C_TEXT<int>, false },
    { "CHECK<long>", TY_LONG, P_NONZERO, 1, -1, hb_CHECK<long>, false },
    { "CHECK_FALSE<long>", TY_LONG, P_ZERO, 1, -1, hb_CHECK_FALSE<long>, false },
    { "CHECK_COMPARE<int>(==)", TY_INT, P_REL, 2, OP_EQ, hb_cmp_eq<int>, true },
    { "CHECK_COMPARE<int>(!=)", TY_INT, P_REL, 2, OP_NE, hb_cmp_ne<int>, true },
    { "CHECK_COMPARE<int>(<)", TY_INT, P_REL, 2, OP_LT, hb_cmp_lt<int>, true },
    { "CHECK_COMPARE<int>(<=)", TY_INT, P_REL, 2, OP_LE, hb_cmp_le<int>, true },
    { "CHECK_COMPARE<int>(>)", TY_INT, P_REL, 2, OP_GT, hb_cmp_gt<int>, true },
    { "CHECK_COMPARE<int>(>=)", TY_INT, P_REL, 2, OP_GE, hb_cmp_ge<int>, true },
    { "CHECK_COMPARE<unsigned int>(==)", TY_UINT, P_REL, 2, OP_EQ, hb_cmp_eq<unsigned int>, true },
    { "CHECK_COMPARE<unsigned int>(<)", TY_UINT, P_REL, 2, OP_LT, hb_cmp_lt<unsigned int>, true },
    { "CHECK_COMPARE_TEXT<int>(!=)", TY_INT, P_REL, 2, OP_NE, hb_cmpt_ne<int>, true },
    { "CHECK_COMPARE_TEXT<int>(<=)", TY_INT, P_REL, 2, OP_LE, hb_cmpt_le<int>, true },
};
static const size_t NHICHK = sizeof(HICHK) / sizeof(HICHK[0]);

// ---- generators: components (x, y, s) of an operand expression of form `form` whose value is exactly v (in type ty)
static uint64_t h_mask(vf::Rng& r) {
    switch (r.below(8)) {
    case 0: return 0xffull; case 1: return ~0xffull; case 2: return 1ull << r.below(64); case 3: return ~(1ull << r.below(64));
    case 4: return 0xffffull; case 5: return r.chance(50) ? 0 : ~0ull; default: return r.next();
    }
}
static i128 h_nonzero(vf::Rng& r, int ty) {   // non-zero value of the type, preferably with a zero low byte / a single high bit
    i128 v;
    switch (r.below(3)) { case 0: v = wrap(ty, 1ull << r.below((uint64_t) tbits(ty))); break; case 1: v = wrap(ty, r.next() & ~0xffull); break; default: v = wrap(ty, rand_raw(r)); break; }
    return v == 0 ? 1 : v;
}
static bool h_wraps(int ty) { return ty == TY_UINT || ty == TY_ULONG || ty == TY_ULL; }   // arithmetic of the expression is modulo 2^n in the type itself
static void h_split(vf::Rng& r, int ty, int form, i128 v, i128& x, i128& y, int& s) {
    uint64_t raw = (uint64_t) v;
    static const int SEL[] = { 1, 2, 0x100, -1, 0x10000 };
    s = r.chance(50) ? SEL[r.below(5)] : 0; x = v; y = wrap(ty, rand_raw(r));
    switch (form) {
    case HF_ID_OR: { uint64_t m = h_mask(r), extra = r.chance(25) ? (raw & r.next()) : 0; x = wrap(ty, (raw & ~m) | extra); y = wrap(ty, raw & m); break; }
    case HF_ID_XOR: { uint64_t k = r.chance(40) ? (r.next() & ~0xffull) : r.chance(30) ? (1ull << r.below(64)) : r.next(); x = wrap(ty, raw ^ k); y = wrap(ty, k); break; }
    case HF_ID_AND: { uint64_t r1 = r.next() & ~raw, r2 = r.next() & ~raw & ~r1; if (r.chance(30)) r2 = ~raw & ~r1; x = wrap(ty, raw | r1); y = wrap(ty, raw | r2); break; }
    case HF_ID_COND: { i128 other = r.chance(50) ? wrap(ty, raw ^ (r.next() & ~0xffull)) : wrap(ty, rand_raw(r)); if (s) { x = v; y = other; } else { x = other; y = v; } break; }
    case HF_ID_ADD:
        if (h_wraps(ty)) { uint64_t k = r.chance(50) ? r.next() : (uint64_t) r.range(0, 600); x = wrap(ty, raw - k); y = wrap(ty, k); }
        else {
            i128 cand[] = { (i128) r.range(-600, 600), wrap(ty, rand_raw(r)), (i128) 256, (i128) -1, (i128) 0 };
            x = v; y = 0;
            for (i128 k : cand) if (k >= tmin(ty) && k <= tmax(ty) && v - k >= tmin(ty) && v - k <= tmax(ty)) { x = v - k; y = k; break; }
        }
        break;
    case HF_ID_LOR: if (v != 0) { int w = (int) r.below(3); x = w == 1 ? 0 : h_nonzero(r, ty); y = w == 0 ? 0 : h_nonzero(r, ty); } else { x = 0; y = 0; } break;
    case HF_ID_LAND: if (v != 0) { x = h_nonzero(r, ty); y = h_nonzero(r, ty); } else { int w = (int) r.below(3); x = w == 1 ? h_nonzero(r, ty) : 0; y = w == 0 ? h_nonzero(r, ty) : 0; } break;
    case HF_ID_EQ: x = wrap(ty, rand_raw(r)); y = v != 0 ? x : wrap(ty, (uint64_t) x ^ (1ull << r.below((uint64_t) tbits(ty)))); break;
    case HF_ID_LT: {
        i128 p = wrap(ty, rand_raw(r)), q = wrap(ty, rand_raw(r));
        if (p == q) { if (q < tmax(ty)) q = q + 1; else p = p - 1; }
        i128 lo = p < q ? p : q, hi = p < q ? q : p;
        if (v != 0) { x = lo; y = hi; } else if (r.chance(30)) { x = hi; y = hi; } else { x = hi; y = lo; }
        break; }
    default: break;
    }
}
static std::string h_form_json(int form, i128 x, i128 y, int s, i128 v) {
    return vf::J().k("expr", HF_TEXT[form]).k("x", s128(x)).k("y", s128(y)).k("s", s).k("value", s128(v)).str();
}
// after the body ran: were the operand expressions evaluated, and to the values the generator aimed at?
static bool h_selfcheck_int(vf::Ctx& c, const i128* want, int n) {
    if (!h_reached) { c.violation("harness-error:hygiene-case-not-reached", "form table and body out of step"); return false; }
    for (int i = 0; i < n; i++) if (h_val[i] != want[i]) { c.count("hygiene_selfcheck_mismatch"); return false; }
    return true;
}
static void h_count_forms(vf::Ctx& c, const HForms& f, int first, int n) {
    c.count("hygiene_cases");
    static const char* const POS[] = { "expected", "actual", "third" };
    for (int i = first; i < n; i++) if (f.f[i] != HF_ID_PLAIN) c.count(std::string("hygiene_operand:") + POS[i] + ": " + HF_TEXT[f.f[i]]);
}
static std::string h_extra(const HForms& f, int first, int n) {
    std::string s = "operand expressions:";
    for (int i = first; i < n; i++) { s += i == first ? " [" : ", ["; s += HF_TEXT[f.f[i]]; s += "]"; }
    return s;
}

static void sec_hyg_int(vf::Ctx& c) {
    vf::Rng& r = c.rng;
    const HICheck& k = HICHK[r.below(NHICHK)];
    int hc = (int) r.below(k.nops == 1 ? HCOUNT(HSINGLE) : k.compact ? HCOUNT(HCPAIR) : HCOUNT(HPAIR));
    HForms f = k.nops == 1 ? HSINGLE[hc] : k.compact ? HCPAIR[hc] : HPAIR[hc];
    int ty = k.ty;
    uint64_t ra = rand_raw(r), rb;
    switch (r.below(10)) {
    case 0: case 1: case 2: case 3: rb = ra; break;
    case 4: case 5: rb = ra + ((uint64_t) r.range(1, 3) << (8 * r.range(1, 7))); break;     // same low byte(s), different above
    case 6: rb = ra ^ (1ull << r.below(64)); break;
    case 7: rb = ra + (uint64_t) (int64_t) r.range(-2, 2); break;
    default: rb = rand_raw(r); break;
    }
    i128 a = wrap(ty, ra), b = wrap(ty, rb);
    bool be = hf_boolvalued(f.f[0]), ba = hf_boolvalued(f.f[1]);
    if (be) a = (i128) r.below(2);
    if (ba) b = (i128) r.below(2);
    if ((be || ba) && r.chance(50)) { if (be) b = a; else a = b; }
    if (k.pred == P_BOOLEQ && r.chance(30)) { if (r.chance(50)) a = 0; if (r.chance(50)) b = 0; }
    if (k.nops == 1) { a = 0; if (!ba && r.chance(40)) b = 0; }
    i128 x[2], y[2]; int s[2];
    h_split(r, ty, f.f[0], a, x[0], y[0], s[0]);
    h_split(r, ty, f.f[1], b, x[1], y[1], s[1]);
    std::string name = k.name;
    c.begin([=] { vf::J j; j.k("check", name).k("type", TY_NAME[ty]); if (k.nops == 2) j.raw("expected", h_form_json(f.f[0], x[0], y[0], s[0], a)); j.raw("actual", h_form_json(f.f[1], x[1], y[1], s[1], b)); return j.str(); });
    for (int i = 0; i < 2; i++) { H_x[i] = x[i]; H_y[i] = y[i]; H_s[i] = s[i]; h_val[i] = 0; }
    h_case = hc; h_reached = false;
    Obs o = run_check(k.body);
    i128 want[2] = { a, b };
    if (!h_selfcheck_int(c, want, 2)) return;
    h_count_forms(c, f, k.nops == 2 ? 0 : 1, 2);
    bool rel = k.pred == P_REL;
    bool p = rel ? relop(k.op, a < b ? -1 : a > b ? 1 : 0) : int_pred(k.pred, a, b);
    c.count(p ? "hygiene_predicate_true" : "hygiene_predicate_false");
    judge(c, name, "expression-operand", p ? EXP_PASS : EXP_FAIL, o, rel, (h_extra(f, k.nops == 2 ? 0 : 1, 2) + " values: " + int_class(a, b)).c_str());
    if (int_boundary(ty, a, b)) c.nontrivial(name + ":" + std::to_string(hc) + ":" + s128(a) + ":" + s128(b));
}

// ---- masked bits with expression operands (expected, actual, mask)
struct HBCheck { const char* name; int ty; int mty; void (*body)(); };
static const HBCheck HBCHK[] = {
    { "BITS_EQUAL<unsigned int>", TY_UINT, TY_ULONG, hb_bits<unsigned int, unsigned long> }, { "BITS_EQUAL<int>", TY_INT, TY_ULONG, hb_bits<int, unsigned long> },
    { "BITS_EQUAL<unsigned char>", TY_UCHAR, TY_ULONG, hb_bits<unsigned char, unsigned long> }, { "BITS_EQUAL<unsigned long>", TY_ULONG, TY_ULONG, hb_bits<unsigned long, unsigned long> },
    { "BITS_EQUAL_TEXT<unsigned int>", TY_UINT, TY_ULONG, hb_bits_text<unsigned int, unsigned long> },
    { "CHECK_EQUAL_C_BITS<unsigned int>", TY_UINT, TY_UINT, hb_c_bits<unsigned int, unsigned int> }, { "CHECK_EQUAL_C_BITS<int>", TY_INT, TY_UINT, hb_c_bits<int, unsigned int> },
    { "CHECK_EQUAL_C_BITS<unsigned char>", TY_UCHAR, TY_UINT, hb_c_bits<unsigned char, unsigned int> }, { "CHECK_EQUAL_C_BITS_TEXT<unsigned int>", TY_UINT, TY_UINT, hb_c_bits_text<unsigned int, unsigned int> },
};
static void sec_hyg_bits(vf::Ctx& c) {
    vf::Rng& r = c.rng;
    const HBCheck& k = HBCHK[r.below(HCOUNT(HBCHK))];
    int hc = (int) r.below(HCOUNT(HITRIPLE));
    HForms f = HITRIPLE[hc];
    int w = tbits(k.ty), fb = (int) r.below((uint64_t) w);
    uint64_t ra = r.next(), rb, rm;
    switch (r.below(4)) { case 0: rb = ra; break; case 1: rb = ra ^ (1ull << fb); break; case 2: rb = ra ^ (1ull << fb) ^ (1ull << r.below((uint64_t) w)); break; default: rb = r.next(); break; }
    switch (r.below(7)) {
    case 0: rm = 1ull << fb; break; case 1: case 2: rm = ~(1ull << fb); break; case 3: rm = r.next() & r.next(); break;
    case 4: rm = (w >= 64) ? ~0ull : ((1ull << w) - 1); break; case 5: rm = r.next(); break; default: rm = r.chance(50) ? 0 : ~0ull; break;
    }
    i128 v[3] = { wrap(k.ty, ra), wrap(k.ty, rb), wrap(k.mty, rm) };
    for (int i = 0; i < 3; i++) if (hf_boolvalued(f.f[i])) v[i] = (i128) r.below(2);
    if (hf_boolvalued(f.f[0]) != hf_boolvalued(f.f[1]) && r.chance(50)) { if (hf_boolvalued(f.f[0])) v[1] = v[0]; else v[0] = v[1]; }
    i128 x[3], y[3]; int s[3];
    for (int i = 0; i < 3; i++) h_split(r, i == 2 ? k.mty : k.ty, f.f[i], v[i], x[i], y[i], s[i]);
    std::string name = k.name;
    c.begin([=] { return vf::J().k("check", name).k("type", TY_NAME[k.ty]).raw("expected", h_form_json(f.f[0], x[0], y[0], s[0], v[0])).raw("actual", h_form_json(f.f[1], x[1], y[1], s[1], v[1]))
                         .raw("mask", h_form_json(f.f[2], x[2], y[2], s[2], v[2])).str(); });
    for (int i = 0; i < 3; i++) { H_x[i] = x[i]; H_y[i] = y[i]; H_s[i] = s[i]; h_val[i] = 0; }
    h_case = hc; h_reached = false;
    Obs o = run_check(k.body);
    if (!h_selfcheck_int(c, v, 3)) return;
    h_count_forms(c, f, 0, 3);
    i128 diff = (v[0] & v[2]) ^ (v[1] & v[2]);                      // mathematical AND on the sign-extended values, mask is non-negative
    bool p = diff == 0;
    c.count(p ? "hygiene_predicate_true" : "hygiene_predicate_false");
    std::string cls = v[0] == v[1] ? "equal-operands" : p ? "differences-masked-out" : "difference-in-mask";
    if (v[2] == 0) cls = "zero-mask";
    judge(c, name, "expression-operand", p ? EXP_PASS : EXP_FAIL, o, false, (h_extra(f, 0, 3) + " values: " + cls).c_str());
    if (v[2] == 0 || (v[0] != v[1] && p)) c.nontrivial(name + ":" + std::to_string(hc) + ":" + s128(v[0]) + ":" + s128(v[1]) + ":" + s128(v[2]));
}

// ---- doubles with expression operands (expected, actual, tolerance)
#define H_DRUN3(FE, FA, FT, U) if (h_case == k_++) { h_dval[0] = toD(HF_##FE(e_)); h_dval[1] = toD(HF_##FA(a_)); h_dval[2] = toD(HF_##FT(t_)); h_reached = true; U(HF_##FE(e_), HF_##FA(a_), HF_##FT(t_)); DONE; return; }
#define H_DBL_BODY(fname, U) HBODY_ATTR static void fname() { double e_x = HD_x[0], e_y = HD_y[0], a_x = HD_x[1], a_y = HD_y[1], t_x = HD_x[2], t_y = HD_y[2]; int e_s = H_s[0], a_s = H_s[1], t_s = H_s[2], k_ = 0; \
    (void) e_x; (void) e_y; (void) a_x; (void) a_y; (void) t_x; (void) t_y; (void) e_s; (void) a_s; (void) t_s; H_DTRIPLES(H_DRUN3, U) }
#define UD_DOUBLES(E, A, T) DOUBLES_EQUAL(E, A, T)
#define UD_DOUBLES_TEXT(E, A, T) DOUBLES_EQUAL_TEXT(E, A, T, "txt")
#define UD_C_REAL(E, A, T) CHECK_EQUAL_C_REAL(E, A, T)
#define UD_C_REAL_TEXT(E, A, T) CHECK_EQUAL_C_REAL_TEXT(E, A, T, "txt")
#define UD_CHECK_EQUAL(E, A, T) CHECK_EQUAL(E, A)
#define UD_CMP_LT(E, A, T) CHECK_COMPARE(E, <, A)
#define UD_CMP_GE(E, A, T) CHECK_COMPARE(E, >=, A)
#define UD_CMP_EQ(E, A, T) CHECK_COMPARE(E, ==, A)
H_DBL_BODY(hd_doubles, UD_DOUBLES) H_DBL_BODY(hd_doubles_text, UD_DOUBLES_TEXT) H_DBL_BODY(hd_c_real, UD_C_REAL) H_DBL_BODY(hd_c_real_text, UD_C_REAL_TEXT)
H_DBL_BODY(hd_check_equal, UD_CHECK_EQUAL) H_DBL_BODY(hd_cmp_lt, UD_CMP_LT)
struct HDCheck { const char* name; int kind; int op; void (*body)(); };   // kind 0: tolerance check, 1: exact (CHECK_EQUAL), 3: relational
static const HDCheck HDCHK[] = {
    { "DOUBLES_EQUAL", 0, -1, hd_doubles }, { "DOUBLES_EQUAL_TEXT", 0, -1, hd_doubles_text }, { "CHECK_EQUAL_C_REAL", 0, -1, hd_c_real }, { "CHECK_EQUAL_C_REAL_TEXT", 0, -1, hd_c_real_text },
    { "CHECK_EQUAL<double>", 1, -1, hd_check_equal }, { "CHECK_COMPARE<double>(<)", 3, OP_LT, hd_cmp_lt },
};
static double h_dyadic(vf::Rng& r) { return (double) r.range(-4000, 4000) / 8.0; }
static void h_dsplit(vf::Rng& r, int form, double v, double& x, double& y, int& s) {
    s = r.chance(50) ? (int) r.range(1, 3) : 0; x = v; y = h_dyadic(r);
    bool tame = std::isfinite(v) && fabs(v) < 1e9;
    switch (form) {
    case HF_ID_COND: { double other = r.chance(20) ? DV[r.below(NDV)] : h_dyadic(r); if (s) { x = v; y = other; } else { x = other; y = v; } break; }
    case HF_ID_ADD: if (tame) { y = h_dyadic(r); x = v - y; } else { x = v; y = std::isfinite(v) ? 0.0 : 1.0; } break;
    case HF_ID_SUB: if (tame) { y = h_dyadic(r); x = v + y; } else { x = v; y = std::isfinite(v) ? 0.0 : 1.0; } break;
    case HF_ID_LT: { double p = h_dyadic(r), q = p + (double) r.range(1, 64) / 8.0; if (v != 0) { x = p; y = q; } else if (r.chance(30)) { x = q; y = q; } else { x = q; y = p; } break; }
    case HF_ID_LOR: if (v != 0) { int w = (int) r.below(3); x = w == 1 ? 0.0 : 0.25 + fabs(h_dyadic(r)); y = w == 0 ? 0.0 : -0.125; } else { x = 0.0; y = r.chance(50) ? -0.0 : 0.0; } break;
    default: break;
    }
}
static std::string h_dform_json(int form, double x, double y, int s) { return vf::J().k("expr", HF_TEXT[form]).k("x", dstr(x)).k("y", dstr(y)).k("s", s).str(); }
static void sec_hyg_doubles(vf::Ctx& c) {
    vf::Rng& r = c.rng;
    const HDCheck& k = HDCHK[r.below(HCOUNT(HDCHK))];
    int hc;
    do hc = (int) r.below(HCOUNT(HDTRIPLE)); while (k.kind != 0 && HDTRIPLE[hc].f[0] == HF_ID_PLAIN && HDTRIPLE[hc].f[1] == HF_ID_PLAIN);
    HForms f = HDTRIPLE[hc];
    double a = r.chance(25) ? DV[r.below(NDV)] : h_dyadic(r), b, tol;
    tol = r.chance(12) ? TOL[r.below(NTOL)] : r.chance(15) ? 0.0 : (double) r.range(0, 160) / 8.0;
    if (hf_boolvalued(f.f[2])) tol = (double) r.below(2);
    if (hf_boolvalued(f.f[0])) a = (double) r.below(2);
    switch (r.below(7)) {
    case 0: case 1: b = a; break; case 2: b = a + tol; break; case 3: b = a - tol; break; case 4: b = a + tol + 0.125; break; case 5: b = a - tol / 2; break; default: b = h_dyadic(r); break;
    }
    if (hf_boolvalued(f.f[1])) { b = (double) r.below(2); if (r.chance(50) && (a == 0 || a == 1)) b = a; }
    double v[3] = { a, b, tol }, x[3], y[3]; int s[3];
    for (int i = 0; i < 3; i++) h_dsplit(r, f.f[i], v[i], x[i], y[i], s[i]);
    std::string name = k.name;
    c.begin([=] { vf::J j; j.k("check", name).raw("expected", h_dform_json(f.f[0], x[0], y[0], s[0])).raw("actual", h_dform_json(f.f[1], x[1], y[1], s[1]));
                  if (k.kind == 0) j.raw("tolerance", h_dform_json(f.f[2], x[2], y[2], s[2])); return j.str(); });
    for (int i = 0; i < 3; i++) { HD_x[i] = x[i]; HD_y[i] = y[i]; H_s[i] = s[i]; h_dval[i] = 0; }
    h_case = hc; h_reached = false;
    Obs o = run_check(k.body);
    if (!h_reached) { c.violation("harness-error:hygiene-case-not-reached", "form table and body out of step"); return; }
    // the oracle works on the values the operand expressions have when evaluated outside the macro
    double va = h_dval[0], vb = h_dval[1], vt = h_dval[2];
    for (int i = 0; i < 3; i++) if (!(h_dval[i] == v[i]) && !(std::isnan(h_dval[i]) && std::isnan(v[i]))) c.count("hygiene_double_value_differs_from_target");   // rounding of x + y: informational
    h_count_forms(c, f, 0, k.kind == 0 ? 3 : 2);
    std::string cls; int exp; bool rel = k.kind == 3;
    if (k.kind == 1) { bool eq = !std::isnan(va) && !std::isnan(vb) && va == vb; exp = eq ? EXP_PASS : EXP_FAIL; cls = (std::isnan(va) || std::isnan(vb)) ? "nan-operand" : eq ? "same-value" : "different"; }
    else if (rel) { int cmp = (std::isnan(va) || std::isnan(vb)) ? 2 : va < vb ? -1 : va > vb ? 1 : 0; exp = relop(k.op, cmp) ? EXP_PASS : EXP_FAIL; cls = cmp == 2 ? "unordered" : cmp == 0 ? "equal" : "ordered"; }
    else exp = doubles_oracle(va, vb, vt, cls);
    if (exp == EXP_UNJUDGED) c.count("doubles_unjudged:" + cls); else c.count(exp == EXP_PASS ? "hygiene_predicate_true" : "hygiene_predicate_false");
    judge(c, name, "expression-operand", exp, o, rel, (h_extra(f, 0, k.kind == 0 ? 3 : 2) + " values: " + cls).c_str());
    bool nt = std::isinf(va) || std::isinf(vb) || std::isnan(va) || std::isnan(vb) || (va == vb && std::signbit(va) != std::signbit(vb));
    if (!nt && k.kind == 0 && va != vb && vt > 0 && !std::isinf(vt)) { double d = fabs(va - vb); nt = d <= 2 * vt && d >= vt / 2; }
    if (!nt && k.kind == 3) nt = va == vb;
    if (nt) c.nontrivial(name + ":" + std::to_string(hc) + ":" + dstr(va) + ":" + dstr(vb) + ":" + (k.kind == 0 ? dstr(vt) : ""));
}

// ---- strings, memory blocks and pointers with expression operands (pointer ?: / pointer + offset; length expressions)
#define H_PRUN3(FE, FA, FN, U) if (h_case == k_++) { h_pval[0] = toP(HF_##FE(e_)); h_pval[1] = toP(HF_##FA(a_)); h_val[2] = toI(HF_##FN(n_)); h_reached = true; U(HF_##FE(e_), HF_##FA(a_), HF_##FN(n_)); DONE; return; }
#define H_PTR_BODY(fname, PT, U) HBODY_ATTR static void fname() { typedef PT pt_t; pt_t e_x = (pt_t) HP_x[0], e_y = (pt_t) HP_y[0], a_x = (pt_t) HP_x[1], a_y = (pt_t) HP_y[1]; size_t e_o = HP_o[0], a_o = HP_o[1]; \
    size_t n_x = (size_t) H_x[2], n_y = (size_t) H_y[2]; int e_s = H_s[0], a_s = H_s[1], n_s = H_s[2], k_ = 0; \
    (void) e_x; (void) e_y; (void) a_x; (void) a_y; (void) e_o; (void) a_o; (void) n_x; (void) n_y; (void) e_s; (void) a_s; (void) n_s; H_PTRIPLES(H_PRUN3, U) }
#define UP_STRCMP(E, A, N) STRCMP_EQUAL(E, A)
#define UP_STRCMP_TEXT(E, A, N) STRCMP_EQUAL_TEXT(E, A, "txt")
#define UP_C_STRING(E, A, N) CHECK_EQUAL_C_STRING(E, A)
#define UP_C_STRING_TEXT(E, A, N) CHECK_EQUAL_C_STRING_TEXT(E, A, "txt")
#define UP_NOCASE(E, A, N) STRCMP_NOCASE_EQUAL(E, A)
#define UP_NOCASE_TEXT(E, A, N) STRCMP_NOCASE_EQUAL_TEXT(E, A, "txt")
#define UP_CONTAINS(E, A, N) STRCMP_CONTAINS(E, A)
#define UP_CONTAINS_TEXT(E, A, N) STRCMP_CONTAINS_TEXT(E, A, "txt")
#define UP_NOCASE_CONTAINS(E, A, N) STRCMP_NOCASE_CONTAINS(E, A)
#define UP_NOCASE_CONTAINS_TEXT(E, A, N) STRCMP_NOCASE_CONTAINS_TEXT(E, A, "txt")
#define UP_STRNCMP(E, A, N) STRNCMP_EQUAL(E, A, N)
#define UP_STRNCMP_TEXT(E, A, N) STRNCMP_EQUAL_TEXT(E, A, N, "txt")
#define UP_MEMCMP(E, A, N) MEMCMP_EQUAL(E, A, N)
#define UP_MEMCMP_TEXT(E, A, N) MEMCMP_EQUAL_TEXT(E, A, N, "txt")
#define UP_C_MEMCMP(E, A, N) CHECK_EQUAL_C_MEMCMP(E, A, N)
#define UP_C_MEMCMP_TEXT(E, A, N) CHECK_EQUAL_C_MEMCMP_TEXT(E, A, N, "txt")
#define UP_POINTERS(E, A, N) POINTERS_EQUAL(E, A)
#define UP_POINTERS_TEXT(E, A, N) POINTERS_EQUAL_TEXT(E, A, "txt")
#define UP_C_POINTER(E, A, N) CHECK_EQUAL_C_POINTER(E, A)
#define UP_C_POINTER_TEXT(E, A, N) CHECK_EQUAL_C_POINTER_TEXT(E, A, "txt")
#define UP_CHECK_EQUAL(E, A, N) CHECK_EQUAL(E, A)
H_PTR_BODY(hp_strcmp, const char*, UP_STRCMP) H_PTR_BODY(hp_strcmp_text, const char*, UP_STRCMP_TEXT) H_PTR_BODY(hp_c_string, const char*, UP_C_STRING) H_PTR_BODY(hp_c_string_text, const char*, UP_C_STRING_TEXT)
H_PTR_BODY(hp_nocase, const char*, UP_NOCASE) H_PTR_BODY(hp_nocase_text, const char*, UP_NOCASE_TEXT) H_PTR_BODY(hp_contains, const char*, UP_CONTAINS) H_PTR_BODY(hp_contains_text, const char*, UP_CONTAINS_TEXT)
H_PTR_BODY(hp_nocase_contains, const char*, UP_NOCASE_CONTAINS) H_PTR_BODY(hp_nocase_contains_text, const char*, UP_NOCASE_CONTAINS_TEXT)
H_PTR_BODY(hp_strncmp, const char*, UP_STRNCMP) H_PTR_BODY(hp_strncmp_text, const char*, UP_STRNCMP_TEXT)
H_PTR_BODY(hp_memcmp, const unsigned char*, UP_MEMCMP) H_PTR_BODY(hp_memcmp_text, const unsigned char*, UP_MEMCMP_TEXT) H_PTR_BODY(hp_c_memcmp, const unsigned char*, UP_C_MEMCMP) H_PTR_BODY(hp_c_memcmp_text, const unsigned char*, UP_C_MEMCMP_TEXT)
H_PTR_BODY(hp_pointers, const long*, UP_POINTERS) H_PTR_BODY(hp_pointers_text, const long*, UP_POINTERS_TEXT) H_PTR_BODY(hp_c_pointer, const long*, UP_C_POINTER) H_PTR_BODY(hp_c_pointer_text, const long*, UP_C_POINTER_TEXT)
H_PTR_BODY(hp_check_equal_ptr, const long*, UP_CHECK_EQUAL)

#define H_FRUN2(FE, FA, U) if (h_case == k_++) { h_fval[0] = toF(HF_##FE(e_)); h_fval[1] = toF(HF_##FA(a_)); h_reached = true; U(HF_##FE(e_), HF_##FA(a_)); DONE; return; }
#define H_FN_BODY(fname, U) HBODY_ATTR static void fname() { vfn_t e_x = HFN_x[0], e_y = HFN_y[0], a_x = HFN_x[1], a_y = HFN_y[1]; int e_s = H_s[0], a_s = H_s[1], k_ = 0; (void) e_x; (void) e_y; (void) a_x; (void) a_y; (void) e_s; (void) a_s; H_FPAIRS(H_FRUN2, U) }
#define UF_FPTRS(E, A) FUNCTIONPOINTERS_EQUAL(E, A)
#define UF_FPTRS_TEXT(E, A) FUNCTIONPOINTERS_EQUAL_TEXT(E, A, "txt")
H_FN_BODY(hf_fptrs, UF_FPTRS) H_FN_BODY(hf_fptrs_text, UF_FPTRS_TEXT) H_FN_BODY(hf_check_equal_fptr, U_CHECK_EQUAL)

enum { HPK_STR, HPK_MEM, HPK_PTR, HPK_FN };
struct HPCheck { const char* name; int family; int skind; bool haslen; void (*body)(); };
static const HPCheck HPCHK[] = {
    { "STRCMP_EQUAL", HPK_STR, SK_EQ, false, hp_strcmp }, { "STRCMP_EQUAL_TEXT", HPK_STR, SK_EQ, false, hp_strcmp_text }, { "CHECK_EQUAL_C_STRING", HPK_STR, SK_EQ, false, hp_c_string }, { "CHECK_EQUAL_C_STRING_TEXT", HPK_STR, SK_EQ, false, hp_c_string_text },
    { "STRCMP_NOCASE_EQUAL", HPK_STR, SK_NOCASE, false, hp_nocase }, { "STRCMP_NOCASE_EQUAL_TEXT", HPK_STR, SK_NOCASE, false, hp_nocase_text },
    { "STRCMP_CONTAINS", HPK_STR, SK_CONTAINS, false, hp_contains }, { "STRCMP_CONTAINS_TEXT", HPK_STR, SK_CONTAINS, false, hp_contains_text },
    { "STRCMP_NOCASE_CONTAINS", HPK_STR, SK_NOCASE_CONTAINS, false, hp_nocase_contains }, { "STRCMP_NOCASE_CONTAINS_TEXT", HPK_STR, SK_NOCASE_CONTAINS, false, hp_nocase_contains_text },
    { "STRNCMP_EQUAL", HPK_STR, SK_NEQ, true, hp_strncmp }, { "STRNCMP_EQUAL_TEXT", HPK_STR, SK_NEQ, true, hp_strncmp_text },
    { "MEMCMP_EQUAL", HPK_MEM, 0, true, hp_memcmp }, { "MEMCMP_EQUAL_TEXT", HPK_MEM, 0, true, hp_memcmp_text }, { "CHECK_EQUAL_C_MEMCMP", HPK_MEM, 0, true, hp_c_memcmp }, { "CHECK_EQUAL_C_MEMCMP_TEXT", HPK_MEM, 0, true, hp_c_memcmp_text },
    { "POINTERS_EQUAL", HPK_PTR, 0, false, hp_pointers }, { "POINTERS_EQUAL_TEXT", HPK_PTR, 0, false, hp_pointers_text }, { "CHECK_EQUAL_C_POINTER", HPK_PTR, 0, false, hp_c_pointer }, { "CHECK_EQUAL_C_POINTER_TEXT", HPK_PTR, 0, false, hp_c_pointer_text },
    { "CHECK_EQUAL<const long*>", HPK_PTR, 0, false, hp_check_equal_ptr },
    { "FUNCTIONPOINTERS_EQUAL", HPK_FN, 0, false, hf_fptrs }, { "FUNCTIONPOINTERS_EQUAL_TEXT", HPK_FN, 0, false, hf_fptrs_text }, { "CHECK_EQUAL<void(*)()>", HPK_FN, 0, false, hf_check_equal_fptr },
};
static long g_lbuf[16], g_lbuf2[16];
// exact-size heap copy of `prefix + payload` (+ terminator for strings): reads outside the operand are ASan reports
static char* h_block(std::vector<void*>& owned, const std::string& prefix, const std::string& payload, bool terminated) {
    size_t n = prefix.size() + payload.size() + (terminated ? 1 : 0);
    char* p = (char*) malloc(n ? n : 1);
    if (!prefix.empty()) memcpy(p, prefix.data(), prefix.size());
    if (!payload.empty()) memcpy(p + prefix.size(), payload.data(), payload.size());
    if (terminated) p[n - 1] = 0;
    owned.push_back(p);
    return p;
}
static std::string h_pform_json(int form, bool isnull, const std::string& shown, size_t off, int s) {
    vf::J j; j.k("expr", HF_TEXT[form]); if (isnull) j.raw("value", "null"); else j.k("value", shown); j.k("o", (unsigned long) off).k("s", s); return j.str();
}
static void sec_hyg_pointers(vf::Ctx& c) {
    vf::Rng& r = c.rng;
    const HPCheck& k = HPCHK[r.below(HCOUNT(HPCHK))];
    std::string name = k.name;
    if (k.family == HPK_FN) {
        int hc = (int) r.below(HCOUNT(HFPAIR)); HForms f = HFPAIR[hc];
        static const vfn_t FT[] = { nullptr, fn1, fn2 };
        vfn_t v[2]; v[0] = FT[r.below(3)]; v[1] = r.chance(50) ? v[0] : FT[r.below(3)];
        int s[2];
        for (int i = 0; i < 2; i++) { s[i] = r.chance(50) ? 1 + (int) r.below(2) * 0xff : 0; vfn_t other = FT[r.below(3)]; HFN_x[i] = (f.f[i] == HF_ID_PLAIN || s[i]) ? v[i] : other; HFN_y[i] = (f.f[i] == HF_ID_PLAIN || s[i]) ? other : v[i]; H_s[i] = s[i]; }
        int vi0 = v[0] == fn1 ? 1 : v[0] == fn2 ? 2 : 0, vi1 = v[1] == fn1 ? 1 : v[1] == fn2 ? 2 : 0;
        c.begin([=] { return vf::J().k("check", name).k("expected_expr", HF_TEXT[f.f[0]]).k("actual_expr", HF_TEXT[f.f[1]]).k("expected_fn", vi0).k("actual_fn", vi1).k("es", s[0]).k("as", s[1]).str(); });
        h_case = hc; h_reached = false; h_fval[0] = h_fval[1] = nullptr;
        Obs o = run_check(k.body);
        HFN_x[0] = HFN_x[1] = HFN_y[0] = HFN_y[1] = nullptr;
        if (!h_reached) { c.violation("harness-error:hygiene-case-not-reached", "form table and body out of step"); return; }
        if (h_fval[0] != v[0] || h_fval[1] != v[1]) { c.count("hygiene_selfcheck_mismatch"); return; }
        h_count_forms(c, f, 0, 2);
        bool p = v[0] == v[1];
        c.count(p ? "hygiene_predicate_true" : "hygiene_predicate_false");
        judge(c, name, "expression-operand", p ? EXP_PASS : EXP_FAIL, o, false, (h_extra(f, 0, 2) + " values: " + (p ? (v[0] ? "same" : "both-null") : (!v[0] || !v[1]) ? "null-vs-nonnull" : "different")).c_str());
        if (!v[0] || !v[1]) c.nontrivial(name + ":" + std::to_string(hc) + ":" + std::to_string(vi0) + ":" + std::to_string(vi1));
        return;
    }
    int hc = (int) r.below(k.haslen ? HCOUNT(HPTRIPLE) : NPTRIPLE_NOLEN);
    HForms f = HPTRIPLE[hc];
    std::vector<void*> owned;
    bool nbool = k.haslen && hf_boolvalued(f.f[2]);   // a length written as a boolean-valued expression is 0 or 1
    bool isnull[2] = { false, false }; std::string val[2]; size_t n = 0;
    const char* target[2] = { nullptr, nullptr };       // the pointer value each operand expression is meant to have
    if (k.family == HPK_STR) {
        std::string x = rand_str(r, 7), y;
        switch (r.below(7)) {
        case 0: case 1: y = x; break;
        case 2: y = x; for (char& ch : y) if (r.chance(50)) { if (ch >= 'a' && ch <= 'z') ch -= 32; else if (ch >= 'A' && ch <= 'Z') ch += 32; } break;
        case 3: y = x.substr(0, r.below(x.size() + 1)); break;
        case 4: y = rand_str(r, 3) + x + rand_str(r, 3); break;
        case 5: y = x; if (!y.empty()) { size_t p = r.below(y.size()); y[p] = (char) (y[p] ^ 0x01); if (!y[p]) y[p] = 'q'; } break;
        default: y = rand_str(r, 7); break;
        }
        size_t common = 0; while (common < x.size() && common < y.size() && x[common] == y[common]) common++;
        switch (r.below(5)) { case 0: n = common; break; case 1: n = common + 1; break; case 2: n = SIZE_MAX - r.below(2); break; case 3: n = std::max(x.size(), y.size()) + r.below(3); break; default: n = r.below(10); break; }
        if (nbool) n = (size_t) r.below(2);
        if (r.chance(30)) std::swap(x, y);
        val[0] = x; val[1] = y; isnull[0] = r.chance(5); isnull[1] = r.chance(5);
    } else if (k.family == HPK_MEM) {
        n = nbool ? (size_t) r.below(2) : r.chance(12) ? 0 : r.chance(20) ? 1 : (size_t) r.range(2, 24);
        std::string eb(n, '\0'); for (char& ch : eb) ch = (char) (r.chance(70) ? r.below(3) : r.below(256));
        std::string ab = eb;
        if (n && r.chance(50)) { size_t p = r.chance(30) ? 0 : r.chance(40) ? n - 1 : r.below(n); ab[p] = (char) (ab[p] ^ (1 << r.below(8))); }
        val[0] = eb; val[1] = ab; isnull[0] = r.chance(5); isnull[1] = r.chance(5);
    } else {
        int i0 = (int) r.below(18), i1 = r.chance(50) ? i0 : (int) r.below(18);     // 0: NULL, 1..8: &g_lbuf[i], 9..17: &g_lbuf2[i-9]
        int idx[2] = { i0, i1 };
        for (int i = 0; i < 2; i++) { isnull[i] = idx[i] == 0; target[i] = idx[i] == 0 ? nullptr : idx[i] <= 8 ? (const char*) &g_lbuf[idx[i]] : (const char*) &g_lbuf2[idx[i] - 9]; val[i] = std::to_string(idx[i]); }
    }
    i128 nx, ny; int ns;
    h_split(r, TY_ULONG, k.haslen ? f.f[2] : HF_ID_PLAIN, (i128) n, nx, ny, ns);
    int s[2]; size_t off[2] = { 0, 0 };
    for (int i = 0; i < 2; i++) {
        int form = f.f[i];
        s[i] = r.chance(50) ? 1 + (int) r.below(2) * 0xff : 0;
        if (form == HF_ID_PADD && isnull[i]) { isnull[i] = false; if (k.family == HPK_PTR) { target[i] = (const char*) &g_lbuf[4]; val[i] = "4"; } else if (k.family == HPK_MEM) val[i].assign(n, 'p'); else val[i] = ""; }
        const char* other; const char* base;
        if (k.family == HPK_PTR) {
            other = r.chance(25) ? nullptr : (const char*) &g_lbuf2[r.below(9)];
            base = target[i];
            if (form == HF_ID_PADD) { long have = target[i] >= (const char*) g_lbuf2 && target[i] < (const char*) (g_lbuf2 + 16) ? (const long*) target[i] - g_lbuf2 : (const long*) target[i] - g_lbuf; off[i] = (size_t) r.below((uint64_t) have + 1); base = (const char*) ((const long*) target[i] - off[i]); }
        } else {
            bool str = k.family == HPK_STR;
            std::string prefix = form == HF_ID_PADD ? (str ? rand_str(r, 3) : std::string(r.below(4), '\x07')) : std::string();
            off[i] = prefix.size();
            base = isnull[i] ? nullptr : h_block(owned, prefix, val[i], str);
            target[i] = isnull[i] ? nullptr : base + off[i];
            std::string ov = str ? rand_str(r, 5) : std::string(n, (char) r.below(256));
            other = r.chance(20) ? nullptr : h_block(owned, "", ov, str);
        }
        bool first = form != HF_ID_COND || s[i];
        HP_x[i] = first ? base : other; HP_y[i] = first ? other : base; HP_o[i] = off[i]; H_s[i] = s[i];
    }
    H_x[2] = nx; H_y[2] = ny; H_s[2] = ns;
    bool n0 = isnull[0], n1 = isnull[1]; std::string v0 = val[0], v1 = val[1]; size_t o0 = off[0], o1 = off[1]; int s0 = s[0], s1 = s[1]; bool mem = k.family == HPK_MEM;
    c.begin([=] { vf::J j; j.k("check", name).raw("expected", h_pform_json(f.f[0], n0, mem ? vf::hexbytes(v0.data(), v0.size()) : v0, o0, s0)).raw("actual", h_pform_json(f.f[1], n1, mem ? vf::hexbytes(v1.data(), v1.size()) : v1, o1, s1));
                  if (k.haslen) j.raw("length", h_form_json(f.f[2], nx, ny, ns, (i128) n)); return j.str(); });
    h_case = hc; h_reached = false; h_pval[0] = h_pval[1] = nullptr; h_val[2] = 0;
    Obs o = run_check(k.body);
    HP_x[0] = HP_x[1] = HP_y[0] = HP_y[1] = nullptr;
    bool ok = true;
    if (!h_reached) { c.violation("harness-error:hygiene-case-not-reached", "form table and body out of step"); ok = false; }
    else if (h_pval[0] != (const void*) target[0] || h_pval[1] != (const void*) target[1] || (k.haslen && h_val[2] != (i128) n)) { c.count("hygiene_selfcheck_mismatch"); ok = false; }
    if (ok) {
        h_count_forms(c, f, 0, k.haslen ? 3 : 2);
        int exp; std::string cls;
        if (k.family == HPK_STR) { StrExp x = string_expect(k.skind, target[0], target[1], n); exp = x.exp; cls = x.cls; }
        else if (k.family == HPK_MEM) {
            if (n == 0) { exp = EXP_PASS; cls = (n0 || n1) ? "length-0:with-null" : "length-0"; }
            else if (n0 && n1) { exp = EXP_PASS; cls = "both-null"; }
            else if (n0 || n1) { exp = EXP_FAIL; cls = n0 ? "null-expected" : "null-actual"; }
            else { bool p = memcmp(target[0], target[1], n) == 0; exp = p ? EXP_PASS : EXP_FAIL; cls = p ? "equal" : "different"; }
        } else { bool p = target[0] == target[1]; exp = p ? EXP_PASS : EXP_FAIL; cls = p ? (target[0] ? "same" : "both-null") : (!target[0] || !target[1]) ? "null-vs-nonnull" : "different"; }
        if (exp == EXP_UNJUDGED) c.count("strings_unjudged:hygiene:" + cls); else c.count(exp == EXP_PASS ? "hygiene_predicate_true" : "hygiene_predicate_false");
        judge(c, name, "expression-operand", exp, o, false, (h_extra(f, 0, k.haslen ? 3 : 2) + " values: " + cls).c_str());
        if (n0 || n1 || (k.family != HPK_PTR && (v0.empty() || v1.empty() || exp == EXP_PASS)))
            c.nontrivial(name + "|" + std::to_string(hc) + "|" + (n0 ? "<null>" : v0) + "|" + (n1 ? "<null>" : v1) + "|" + (k.haslen ? std::to_string(n) : ""));
    }
    for (void* p : owned) free(p);
}

int main(int argc, char** argv) {
    init_lattice(); init_ilat(); init_ptrs(); init_clat(); init_cmp();
    uint64_t ptr_total = NPCHK * PV.size() * PV.size() + NFCHK * FV.size() * FV.size();
    std::vector<vf::Section> S = {
        { "bool_fail_throws_table", BOOL_TOTAL, BOOL_TOTAL, sec_bool_table, true },
        { "pointers_table", ptr_total, ptr_total, sec_pointers, true },
        { "memcmp_table", MTAB_TOTAL, MTAB_TOTAL, sec_mem_table, true },
        { "bits_table", BTAB_TOTAL, BTAB_TOTAL, sec_bits_table, true },
        { "strings_table", STAB_TOTAL, STAB_TOTAL, sec_strings_table, true },
        { "compare_lattice", cmp_total, cmp_total, sec_compare_lattice, true },
        { "doubles_lattice", DLAT_TOTAL, DLAT_TOTAL, sec_doubles_lattice, true },
        { "doubles_special", DSPEC_TOTAL, DSPEC_TOTAL, sec_doubles_special, true },
        { "int_lattice", ilat_total, ilat_total, sec_int_lattice, true },
        { "int8_exhaustive", (uint64_t) NI8 * 65536, (uint64_t) NI8 * 65536, sec_int8, true },
        { "int_random", 20000, 800000, sec_int_random, false },
        { "doubles_random", 20000, 600000, sec_doubles_random, false },
        { "strings_random", 20000, 600000, sec_strings_random, false },
        { "memcmp_random", 5000, 150000, sec_mem_random, false },
        { "bits_random", 10000, 300000, sec_bits_random, false },
        { "compare_random", 5000, 150000, sec_compare_random, false },
        { "hygiene_int", 60000, 900000, sec_hyg_int, false },
        { "hygiene_bits", 10000, 150000, sec_hyg_bits, false },
        { "hygiene_doubles", 12000, 180000, sec_hyg_doubles, false },
        { "hygiene_pointers", 24000, 360000, sec_hyg_pointers, false },
    };
    return vf::harness_main(argc, argv, S, nullptr);
}
