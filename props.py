"""Per-property configuration of the runtime-monitoring checks (read by vcheck.py).

Each props.d/CNN.py defines P = dict(harness=..., variants=..., level=..., technique=..., rule=..., floor=..., ...).
Keys understood by vcheck.py:
  harness        source file under harness/
  variants       list of build variants, or dict(quick=[...], thorough=[...]); see VARIANTS in vcheck.py
  level          evidence level (exploration | fault_enumeration | ...)
  technique      a few words naming the deciding method (goes to MANIFEST.json)
  rule           how cases are generated and what makes one non-trivial / distinct (goes to the evidence file)
  floor          dict(quick=N, thorough=N): minimum distinct non-trivial cases, below which the run is inconclusive (exit 2)
  counter_floor  dict(quick={counter: min}, thorough={...}): monitors that must have been reached
  assumptions    list of strings
  cxxflags/ldflags  extra flags for the harness translation unit
  env            extra environment for harness processes
  nosig          True: ASan must not install signal handlers (separate-process tests)
  max_procs      cap on parallel harness processes
  stall_s        watchdog: seconds without progress before a process is killed (default 300)
  post           name of a module in oracle/ with judge(observations, cfg) -> (violations, counters)
"""
import os, glob, importlib.util

PROPS = {}
for _f in sorted(glob.glob(os.path.join(os.path.dirname(os.path.abspath(__file__)), 'props.d', 'C*.py'))):
    _spec = importlib.util.spec_from_file_location('props_' + os.path.basename(_f)[:-3], _f)
    _m = importlib.util.module_from_spec(_spec)
    _spec.loader.exec_module(_m)
    PROPS[os.path.basename(_f)[:-3]] = _m.P
