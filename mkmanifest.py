#!/usr/bin/env python3
"""Regenerates MANIFEST.json from props.py (single source of truth for the per-property configuration)."""
import json, os, subprocess
from props import PROPS
V = os.path.dirname(os.path.abspath(__file__))
ALL = ['C%02d' % i for i in range(1, 21)]
NA = {}   # property -> reason, for properties that are deliberately not claimed
hooks = subprocess.run(['git', '-C', '/repo', 'log', '--format=%H %s'], stdout=subprocess.PIPE, text=True).stdout.splitlines()
hook_commits = [l.split()[0] for l in hooks if ' verif hook:' in ' ' + l.split(' ', 1)[1]]
m = dict(
    version=1,
    setup_cmd='python3 /verif/vcheck.py --setup',
    hooks=dict(
        guard='CPPUTEST_VERIF_HOOKS',
        enable='vcheck.py compiles /repo/src/CppUTest/*.cpp, src/CppUTestExt/*.cpp and src/Platforms/Gcc/UtestPlatform.cpp from the current working tree with -DCPPUTEST_VERIF_HOOKS (plus the sanitizer flags of the build variant); nothing is taken from /repo/_build',
        baseline_off_cmd='cd /repo && (cmake --build _build -- -k 0 || true) && ctest --test-dir _build -j8 --timeout 900',
        source_commits=list(reversed(hook_commits)),
        add_only=True,
    ),
    engines=[dict(name='vcheck', path='vcheck.py', serves_properties=sorted(p for p in PROPS if p in set(os.path.basename(f)[:-3] for f in subprocess.run(['git', '-C', V, 'ls-files', 'props.d'], stdout=subprocess.PIPE, text=True).stdout.split())),
                  kind_free_text='runtime monitoring driver: builds the current /repo tree under ASan+UBSan / TSan (and uninstrumented for valgrind memcheck), runs seeded workload harnesses (harness/*.cpp) in parallel processes, attributes sanitizer aborts to the generated case, applies reference-model / offline oracles, matches violations against known_findings.json, writes evidence and replay files')],
    checks=[],
    notes='All checks: `python3 /verif/vcheck.py <ID>`; VERIF_SEED / VERIF_TIER honoured; exit 2 = inconclusive (infrastructure, watchdog, monitors observed too little). See DESIGN.md.',
    not_applicable=[],
)
tracked = set(os.path.basename(f)[:-3] for f in subprocess.run(['git', '-C', V, 'ls-files', 'props.d'], stdout=subprocess.PIPE, text=True).stdout.split())
for pid in ALL:
    if pid in PROPS and pid in tracked:
        c = PROPS[pid]
        m['checks'].append(dict(
            property_id=pid,
            quick_cmd='python3 /verif/vcheck.py %s --tier quick' % pid,
            thorough_cmd='python3 /verif/vcheck.py %s --tier thorough' % pid,
            evidence_file='/verif/evidence/%s.json' % pid,
            replay_cmd_template='python3 /verif/vcheck.py %s --replay {path}' % pid,
            engine='vcheck',
            level_claimed=dict(category=c['level'], text=c.get('level_text', 'Held on the executions produced: every generated case is executed on the real code built from the current tree under sanitizers and judged by an independent oracle; the evidence file states how many cases, which sections were enumerated completely and what the monitors observed. This is exploration, not proof.'), design_ref=c.get('design_ref', 'DESIGN.md section 7, ' + pid)),
            level_note=c.get('level_note', '; '.join(c.get('assumptions', [])) or 'trusts the oracle in harness/' + c['harness']),
            technique=c['technique'],
        ))
    else:
        m['not_applicable'].append(dict(property_id=pid, reason=NA.get(pid, 'check under construction in this session; not claimed yet')))
json.dump(m, open(os.path.join(V, 'MANIFEST.json'), 'w'), indent=1)
print('MANIFEST.json: %d checks, %d not claimed' % (len(m['checks']), len(m['not_applicable'])))
