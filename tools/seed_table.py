#!/usr/bin/env python3
"""Regenerates the table of independently seeded changes in DESIGN.md (between the seeded-table markers)
from seeded/*/meta.json, and prints per-round totals.

  tools/seed_table.py            rewrite the table in DESIGN.md
  tools/seed_table.py --print    print it only
"""
import sys, os, json, glob, re

V = os.path.dirname(os.path.dirname(os.path.abspath(__file__)))
BEGIN, END = '<!-- seeded-table-begin -->', '<!-- seeded-table-end -->'


def round_of(name):
    m = re.match(r'C\d\d-r(\d)-', name)
    return int(m.group(1)) if m else 1


def main():
    rows = []
    totals = {}
    for d in sorted(glob.glob(os.path.join(V, 'seeded', 'C*'))):
        name = os.path.basename(d)
        try:
            m = json.load(open(os.path.join(d, 'meta.json')))
        except Exception:
            continue
        pid = m['property']
        ver = m.get('verification', {})
        checks = ver.get('checks', {})
        caught = [c for c, r in checks.items() if r.get('caught')]
        owner = pid in caught
        keys = []
        src = checks.get(pid) if owner else (checks.get(caught[0]) if caught else None)
        if src:
            keys = src.get('violation_keys', [])[:2]
        order = ([pid] if owner else []) + [c for c in caught if c != pid]
        needs = re.sub(r'\s+', ' ', str(m.get('needs', ''))).replace('|', '/')
        if len(needs) > 140:
            needs = needs[:140] + '…'
        keytxt = '; '.join(keys).replace('|', '/')
        if len(keytxt) > 130:
            keytxt = keytxt[:130]
        rnd = round_of(name)
        t = totals.setdefault(rnd, dict(n=0, owner=0, other=0, none=0))
        t['n'] += 1
        if owner: t['owner'] += 1
        elif caught: t['other'] += 1
        else: t['none'] += 1
        rows.append('| %s | %s | %d | %s | %s | `%s` |' % (name, pid, rnd, needs, ', '.join(order) if order else '— (see text)', keytxt))
    head = ['| seeded change | property | round | needs | caught by | first violation keys (owning check, else the catching one) |', '|---|---|---|---|---|---|']
    table = '\n'.join(head + rows)
    summ = '; '.join('round %d: %d changes, %d caught by the owning check, %d only by another check, %d by none' % (r, t['n'], t['owner'], t['other'], t['none']) for r, t in sorted(totals.items()))
    tot = dict(n=sum(t['n'] for t in totals.values()), owner=sum(t['owner'] for t in totals.values()), other=sum(t['other'] for t in totals.values()), none=sum(t['none'] for t in totals.values()))
    summ += '; all rounds: %(n)d changes, %(owner)d / %(other)d / %(none)d' % tot
    if '--print' in sys.argv:
        print(table); print(summ); return
    p = os.path.join(V, 'DESIGN.md')
    s = open(p).read()
    if BEGIN not in s or END not in s:
        print('markers not found in DESIGN.md'); print(summ); return 1
    a, rest = s.split(BEGIN, 1)
    _, b = rest.split(END, 1)
    open(p, 'w').write(a + BEGIN + '\n' + 'Totals (quick tier, `/repo` HEAD at the time each change was last verified): ' + summ + '.\n\n' + table + '\n' + END + b)
    print(summ)


if __name__ == '__main__':
    sys.exit(main() or 0)
