#!/usr/bin/env python3
"""Confirms an independently written breaking change ("seed") and runs the checks against it.

  tools/verify_seed.py <dir with patch.diff demo.cpp meta.json> <name> [--also C13,C03]

Steps (all in a scratch worktree of /repo, never /repo itself):
  1. demo on the unchanged tree must exit 0
  2. the patch must apply; the repository's own test suite must still build and pass with it
  3. demo on the changed tree must exit non-zero
  4. the property's check (and any --also checks) is run against the changed tree (VERIF_REPO)
Writes /verif/seeded/<name>/{patch.diff,demo.cpp,meta.json}; meta.json gets a "verification" record.
The helper scripts used in steps 1-3 are tools/seedkit/run_demo.sh and run_tests.sh.
"""
import sys, os, json, subprocess, shutil, re, time, tempfile

V = os.path.dirname(os.path.dirname(os.path.abspath(__file__)))
KIT = os.path.join(V, 'tools', 'seedkit')


def run(cmd, **kw):
    return subprocess.run(cmd, stdout=subprocess.PIPE, stderr=subprocess.STDOUT, text=True, **kw)


def main():
    src, name = sys.argv[1], sys.argv[2]
    also = []
    if '--also' in sys.argv:
        also = sys.argv[sys.argv.index('--also') + 1].split(',')
    meta = json.load(open(os.path.join(src, 'meta.json')))
    pid = meta['property']
    flags = (meta.get('demo_flags') or '').split()
    wt = tempfile.mkdtemp(prefix='wt-seedverify-', dir='/tmp'); os.rmdir(wt)
    r = run(['git', '-C', '/repo', 'worktree', 'add', '--detach', wt, 'HEAD'])
    assert r.returncode == 0, r.stdout
    rec = dict(repo_head=run(['git', '-C', '/repo', 'rev-parse', 'HEAD']).stdout.strip(), at=time.strftime('%Y-%m-%dT%H:%M:%S'))
    ok = True
    try:
        demo = os.path.join(src, 'demo.cpp')
        r = run([os.path.join(KIT, 'run_demo.sh'), wt, demo] + flags)
        rec['demo_on_unchanged_tree_exit'] = r.returncode
        ok &= r.returncode == 0
        r = run(['git', '-C', wt, 'apply', '-3', os.path.abspath(os.path.join(src, 'patch.diff'))])
        rec['patch_applies'] = r.returncode == 0
        if r.returncode != 0:
            print('PATCH DOES NOT APPLY', r.stdout); ok = False
        else:
            r = run([os.path.join(KIT, 'run_tests.sh'), wt])
            rec['existing_test_suite_exit_with_change'] = r.returncode
            rec['existing_test_suite_tail'] = r.stdout.strip().splitlines()[-3:]
            ok &= r.returncode == 0
            shutil.rmtree(os.path.join(wt, '_seedbuild'), ignore_errors=True)
            for f in ('_seedbuild.cmake.log', '_seedbuild.ninja.log'):
                try: os.unlink(os.path.join(wt, f))
                except OSError: pass
            r = run([os.path.join(KIT, 'run_demo.sh'), wt, demo] + flags)
            rec['demo_on_changed_tree_exit'] = r.returncode
            rec['demo_on_changed_tree_tail'] = r.stdout.strip().splitlines()[-6:]
            ok &= r.returncode != 0
            checks = {}
            for c in [pid] + [a for a in also if a != pid]:
                env = dict(os.environ, VERIF_REPO=wt, VERIF_TIER='quick')
                r = run(['python3', os.path.join(V, 'vcheck.py'), c], env=env, cwd=V)
                keys = re.findall(r'VIOLATION property=\S+ replay=\S+ key=(.*?) occurrences=', r.stdout)
                checks[c] = dict(cmd='VERIF_REPO=<tree with patch> python3 vcheck.py %s --tier quick' % c, exit=r.returncode, caught=(r.returncode == 1 and bool(keys)), violation_keys=keys[:12])
                print('%s: check %s exit %d %s' % (name, c, r.returncode, '; '.join(keys[:4])), flush=True)
            rec['checks'] = checks
        rec['confirmed'] = bool(ok)
        meta['verification'] = rec
        print('%s: confirmed=%s' % (name, ok), flush=True)
        if ok:
            out = os.path.join(V, 'seeded', name)
            os.makedirs(out, exist_ok=True)
            shutil.copy(os.path.join(src, 'patch.diff'), out)
            shutil.copy(demo, out)
            json.dump(meta, open(os.path.join(out, 'meta.json'), 'w'), indent=1)
        else:
            print(json.dumps(rec, indent=1))
    finally:
        run(['git', '-C', '/repo', 'worktree', 'remove', '--force', wt])
        shutil.rmtree(wt, ignore_errors=True)
    return 0 if ok else 1


if __name__ == '__main__':
    sys.exit(main())
