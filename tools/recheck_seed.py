#!/usr/bin/env python3
"""Re-runs only step 4 of tools/verify_seed.py (the checks against the changed tree) for seeds that are already confirmed,
after a harness was strengthened:  tools/recheck_seed.py <seed dir name> [<seed dir name> ...]
Uses a scratch worktree of /repo (never /repo itself) and rewrites meta.json's verification.checks[<property>]."""
import sys, os, json, subprocess, re, shutil, tempfile, time

V = os.path.dirname(os.path.dirname(os.path.abspath(__file__)))


def run(cmd, **kw):
    return subprocess.run(cmd, stdout=subprocess.PIPE, stderr=subprocess.STDOUT, text=True, **kw)


def main():
    for name in sys.argv[1:]:
        d = os.path.join(V, 'seeded', name)
        meta = json.load(open(os.path.join(d, 'meta.json')))
        pid = meta['property']
        wt = tempfile.mkdtemp(prefix='wt-seedrecheck-', dir='/tmp'); os.rmdir(wt)
        r = run(['git', '-C', '/repo', 'worktree', 'add', '--detach', wt, 'HEAD'])
        assert r.returncode == 0, r.stdout
        try:
            r = run(['git', '-C', wt, 'apply', '-3', os.path.join(d, 'patch.diff')])
            assert r.returncode == 0, r.stdout
            env = dict(os.environ, VERIF_REPO=wt, VERIF_TIER='quick')
            # evidence/replays of the real tree must not be overwritten by a run against a changed tree: keep a copy
            r = run(['python3', os.path.join(V, 'vcheck.py'), pid], env=env, cwd=V)
            keys = re.findall(r'VIOLATION property=\S+ replay=\S+ key=(.*?) occurrences=', r.stdout)
            rec = meta.setdefault('verification', {})
            rec.setdefault('checks', {})[pid] = dict(cmd='VERIF_REPO=<tree with patch> python3 vcheck.py %s --tier quick' % pid, exit=r.returncode,
                                                     caught=(r.returncode == 1 and bool(keys)), violation_keys=keys[:12],
                                                     rechecked_at=time.strftime('%Y-%m-%dT%H:%M:%S'), rechecked_after='harness strengthened after the first (missed) run')
            rec['repo_head'] = run(['git', '-C', '/repo', 'rev-parse', 'HEAD']).stdout.strip()
            json.dump(meta, open(os.path.join(d, 'meta.json'), 'w'), indent=1)
            print('%s: check %s exit %d %s' % (name, pid, r.returncode, '; '.join(keys[:4])), flush=True)
        finally:
            run(['git', '-C', '/repo', 'worktree', 'remove', '--force', wt])
            shutil.rmtree(wt, ignore_errors=True)


if __name__ == '__main__':
    main()
