#!/usr/bin/env python3
"""Mutation regression for the checks: applies each catalogued source mutation (mutants/<ID>.json:
list of {name, file, old, new} textual replacements, or {name, patch, reverse}) to a scratch
worktree of /repo (never /repo itself), runs the property's check against it and reports
caught / missed.

  tools/mutate.py C16 [C20 ...] [--scale PCT] [--only NAME] [--tier quick]
Results are appended to mutants/results/<ID>.json (what was caught, with which key).
"""
import sys, os, json, subprocess, re, shutil, tempfile

V = os.path.dirname(os.path.dirname(os.path.abspath(__file__)))


def run(cmd, **kw):
    return subprocess.run(cmd, stdout=subprocess.PIPE, stderr=subprocess.STDOUT, text=True, **kw)


def main():
    ids, scale, only, tier = [], '100', None, 'quick'
    a = sys.argv[1:]
    i = 0
    while i < len(a):
        if a[i] == '--scale': scale = a[i + 1]; i += 2
        elif a[i] == '--only': only = a[i + 1]; i += 2
        elif a[i] == '--tier': tier = a[i + 1]; i += 2
        else: ids.append(a[i]); i += 1
    wt = tempfile.mkdtemp(prefix='wt-mut-', dir='/tmp')
    os.rmdir(wt)
    r = run(['git', '-C', '/repo', 'worktree', 'add', '--detach', wt, 'HEAD'])
    if r.returncode != 0:
        print(r.stdout); return 2
    missed = 0
    try:
        for pid in ids:
            cat = json.load(open(os.path.join(V, 'mutants', pid + '.json')))
            results = []
            for m in cat:
                if only and m['name'] != only:
                    continue
                run(['git', '-C', wt, 'checkout', '--', '.'])
                if 'patch' in m:
                    p = m['patch'] if os.path.isabs(m['patch']) else os.path.join(V, m['patch'])
                    cmd = ['git', '-C', wt, 'apply'] + (['-R'] if m.get('reverse') else []) + [p]
                    r = run(cmd)
                    if r.returncode != 0:
                        print('%s %-40s CANNOT APPLY: %s' % (pid, m['name'], r.stdout.strip()[:200])); continue
                else:
                    path = os.path.join(wt, m['file'])
                    s = open(path).read()
                    cnt = s.count(m['old'])
                    if cnt != m.get('count', 1):
                        print('%s %-40s CANNOT APPLY: pattern occurs %d times' % (pid, m['name'], cnt)); continue
                    open(path, 'w').write(s.replace(m['old'], m['new']))
                env = dict(os.environ, VERIF_REPO=wt, VERIF_SCALE=scale, VERIF_TIER=tier)
                r = run(['python3', os.path.join(V, 'vcheck.py'), pid], env=env, cwd=V)
                keys = re.findall(r'VIOLATION property=\S+ replay=\S+ key=(.*?) occurrences=', r.stdout)
                if r.returncode == 1 and not keys:      # exit 1 without a VIOLATION line is not a verdict of the check
                    r.returncode = 2
                silent_ok = m.get('expect') == 'silent'
                if silent_ok:
                    status = 'SILENT-AS-EXPECTED' if r.returncode == 0 else ('BUILD/INCONCLUSIVE' if r.returncode == 2 else 'UNEXPECTED-ALARM')
                    if r.returncode == 1:
                        missed += 1
                else:
                    status = 'CAUGHT' if r.returncode == 1 else ('BUILD/INCONCLUSIVE' if r.returncode == 2 else 'MISSED')
                    if r.returncode == 0:
                        missed += 1
                print('%s %-40s %s %s' % (pid, m['name'], status, '; '.join(keys[:4])), flush=True)
                if r.returncode == 2:
                    print('    ' + '\n    '.join(r.stdout.strip().splitlines()[-6:]), flush=True)
                results.append(dict(name=m['name'], status=status, keys=keys[:6], scale=int(scale), tier=tier))
            os.makedirs(os.path.join(V, 'mutants', 'results'), exist_ok=True)
            if not only:
                json.dump(results, open(os.path.join(V, 'mutants', 'results', pid + '.json'), 'w'), indent=1)
    finally:
        run(['git', '-C', '/repo', 'worktree', 'remove', '--force', wt])
        shutil.rmtree(wt, ignore_errors=True)
    return 1 if missed else 0


if __name__ == '__main__':
    sys.exit(main())
