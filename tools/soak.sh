#!/bin/bash
# usage: tools/soak.sh "<seeds>" [ids...]   -- runs the quick tier of every (or the given) check for each seed; prints one line per run
seeds=${1:-"2 3 4 5"}; shift
ids=${@:-$(python3 -c "from props import PROPS; print(' '.join(sorted(PROPS)))")}
for s in $seeds; do for p in $ids; do VERIF_SEED=$s python3 vcheck.py $p 2>&1 | grep -E "VIOLATION|INCONCLUSIVE|-> exit" | cut -c1-260; done; done
