#!/bin/bash
# usage: run_tests.sh <cpputest source tree>
# Builds the tree with cmake/ninja in <tree>/_seedbuild and runs the repository's own test suite (ctest).
# Exit 0 iff everything builds and every test passes.
set -e
TREE=$(realpath "$1")
B=$TREE/_seedbuild
cmake -S "$TREE" -B "$B" -G Ninja -DCPPUTEST_TEST_GTEST=OFF -DCMAKE_BUILD_TYPE=RelWithDebInfo -DCMAKE_CXX_FLAGS=-Wno-error > $B.cmake.log 2>&1 || { tail -20 $B.cmake.log; exit 2; }
nice ninja -C "$B" -j 8 > $B.ninja.log 2>&1 || { tail -30 $B.ninja.log; exit 2; }
ctest --test-dir "$B" -j 8 --timeout 600 2>&1 | tail -8
rc=${PIPESTATUS[0]}
exit $rc
