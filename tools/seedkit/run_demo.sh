#!/bin/bash
# usage: run_demo.sh <cpputest source tree> <demo.cpp> [extra g++ flags...]
# Compiles cpputest (core + extensions + Gcc platform) from the given tree with plain g++ and links the
# demo program against it, then runs it. Exit status = exit status of the demo
# (convention: 0 = the property holds on this tree, non-zero = the property is broken).
set -e
TREE=$(realpath "$1"); DEMO=$(realpath "$2"); shift 2
OUT=$(mktemp -d /tmp/seeddemo.XXXXXX)
trap 'rm -rf "$OUT"' EXIT
CFG=/verif/cfg
FLAGS="-std=gnu++17 -O1 -g -w -DHAVE_CONFIG_H -I$TREE/include -I$CFG $*"
SRCS=$(ls $TREE/src/CppUTest/*.cpp $TREE/src/CppUTestExt/*.cpp $TREE/src/Platforms/Gcc/UtestPlatform.cpp | grep -v -e GTest.cpp -e IEEE754ExceptionsPlugin.cpp)
i=0
for s in $SRCS; do i=$((i+1)); echo "g++ $FLAGS -c $s -o $OUT/o$i.o"; done | xargs -P 8 -I{} sh -c "{}"
g++ $FLAGS "$DEMO" $OUT/*.o -o $OUT/demo -pthread
set +e
timeout 300 $OUT/demo
rc=$?
echo "demo exit status: $rc"
exit $rc
