#!/usr/bin/env python3
"""Workload-reach report: which executable lines of a property's anchored code does the quick tier of its
check execute?  (Evidence of reach and a tool for finding workload gaps; never a verdict.)

  tools/anchor_coverage.py C04 [C05 ...]      -> coverage/<ID>.json and a one-line summary per property

Builds cpputest with `-O0 --coverage` (variant `cov`), runs the check's quick tier against it, runs gcov on the
anchored .cpp files and intersects the per-line counts with the line ranges named in the property's
anchors (properties.jsonl; the ranges refer to the pinned snapshot and are mapped onto the current files
with difflib, since the repairs and hooks shifted lines).
"""
import sys, os, re, json, subprocess, glob, shutil, tempfile, difflib

V = os.path.dirname(os.path.dirname(os.path.abspath(__file__)))
sys.path.insert(0, V)
import vcheck

PINNED = subprocess.run(['git', '-C', '/repo', 'rev-list', '--max-parents=0', 'HEAD'], stdout=subprocess.PIPE, text=True).stdout.split()[0]


def run(cmd, **kw):
    return subprocess.run(cmd, stdout=subprocess.PIPE, stderr=subprocess.STDOUT, text=True, **kw)


def anchors_of(pid):
    for l in open(os.path.join(V, 'properties.jsonl')):
        p = json.loads(l)
        if p['id'] == pid:
            out = []
            for kind in ('state', 'mechanism'):
                for a in p['anchors'].get(kind, []):
                    cur_file = None
                    for part in re.split(r'[;,]', a['where']):
                        part = part.strip()
                        m = re.match(r'(\S+\.(?:cpp|h)):(\d+)(?:-(\d+))?', part)
                        if m:
                            cur_file = m.group(1); lo = int(m.group(2)); hi = int(m.group(3) or m.group(2))
                        else:
                            m = re.match(r'(\d+)(?:-(\d+))?', part)
                            if not m or not cur_file:
                                continue
                            lo = int(m.group(1)); hi = int(m.group(2) or m.group(1))
                        out.append(dict(name=a['name'], file=cur_file, lo=lo, hi=hi))
            return out
    raise SystemExit('unknown property ' + pid)


_linemap = {}


def map_lines(path):
    """old (pinned snapshot) line number -> current line number"""
    if path in _linemap:
        return _linemap[path]
    old = run(['git', '-C', '/repo', 'show', '%s:%s' % (PINNED, path)]).stdout.splitlines()
    new = open(os.path.join('/repo', path)).read().splitlines()
    mp = {}
    sm = difflib.SequenceMatcher(None, old, new, autojunk=False)
    for a, b, n in sm.get_matching_blocks():
        for i in range(n):
            mp[a + i + 1] = b + i + 1
    _linemap[path] = (mp, len(new))
    return _linemap[path]


def main():
    ids = sys.argv[1:]
    th = vcheck.tree_hash()
    lib, flags = vcheck.build_lib('cov', th)
    libdir = os.path.dirname(lib)
    os.makedirs(os.path.join(V, 'coverage'), exist_ok=True)
    for pid in ids:
        for f in glob.glob(os.path.join(libdir, '*.gcda')):
            os.unlink(f)
        env = dict(os.environ, VERIF_VARIANT='cov', VERIF_TIER='quick')
        r = run(['python3', os.path.join(V, 'vcheck.py'), pid], env=env, cwd=V)
        last = r.stdout.strip().splitlines()[-1] if r.stdout.strip() else ''
        anchors = anchors_of(pid)
        files = sorted(set(a['file'] for a in anchors if a['file'].endswith('.cpp')))
        percounts = {}
        tmp = tempfile.mkdtemp(prefix='gcov-')
        try:
            for f in files:
                obj = os.path.join(libdir, os.path.basename(os.path.dirname(f)) + '_' + os.path.basename(f)[:-4] + '.o')
                if not os.path.exists(obj[:-2] + '.gcda'):
                    percounts[f] = None
                    continue
                run(['gcov', '-o', obj, os.path.join('/repo', f)], cwd=tmp)
                g = os.path.join(tmp, os.path.basename(f) + '.gcov')
                cnt = {}
                if os.path.exists(g):
                    for line in open(g, errors='replace'):
                        m = re.match(r'\s*([^:]+):\s*(\d+):(.*)', line)
                        if not m:
                            continue
                        c, n, src = m.group(1).strip(), int(m.group(2)), m.group(3)
                        if n == 0 or c == '-':
                            continue
                        cnt[n] = (0 if c.startswith('#') or c.startswith('=') else int(re.sub(r'\D', '', c) or 0), src)
                percounts[f] = cnt
        finally:
            shutil.rmtree(tmp, ignore_errors=True)
        rep = dict(property=pid, check_summary=last, anchors=[])
        tot_exec = tot_cov = 0
        for a in anchors:
            if not a['file'].endswith('.cpp'):
                rep['anchors'].append(dict(a, note='header: not measured'))
                continue
            cnt = percounts.get(a['file'])
            if cnt is None:
                rep['anchors'].append(dict(a, note='no coverage data (translation unit not executed)'))
                continue
            mp, nlines = map_lines(a['file'])
            cur = sorted(set(mp[o] for o in range(a['lo'], a['hi'] + 1) if o in mp))
            if cur:      # close small gaps created by the repairs inside the range
                cur = list(range(cur[0], cur[-1] + 1))
            ex = [n for n in cur if n in cnt]
            cov = [n for n in ex if cnt[n][0] > 0]
            unc = [dict(line=n, src=cnt[n][1].strip()[:120]) for n in ex if cnt[n][0] == 0]
            tot_exec += len(ex); tot_cov += len(cov)
            rep['anchors'].append(dict(a, current_lines='%d-%d' % (cur[0], cur[-1]) if cur else '', executable=len(ex), covered=len(cov), uncovered=unc))
        rep['total_executable'] = tot_exec; rep['total_covered'] = tot_cov
        json.dump(rep, open(os.path.join(V, 'coverage', pid + '.json'), 'w'), indent=1)
        print('%s anchored executable lines %d, executed by the quick tier %d (%.1f%%)  [%s]' % (pid, tot_exec, tot_cov, 100.0 * tot_cov / max(1, tot_exec), last[-60:]), flush=True)


if __name__ == '__main__':
    main()
