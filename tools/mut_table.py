#!/usr/bin/env python3
"""Regenerates the mutation-regression table of DESIGN.md 10.4 (between the mutation-table markers) from
mutants/<ID>.json (the catalogs) and mutants/results/<ID>.json (the last recorded run of each entry)."""
import sys, os, json, glob

V = os.path.dirname(os.path.dirname(os.path.abspath(__file__)))
BEGIN, END = '<!-- mutation-table-begin -->', '<!-- mutation-table-end -->'


def main():
    rows = ['| check | entries | breaking: caught | expected silent: silent | not (yet) re-run / other |', '|---|---|---|---|---|']
    tot = 0
    bad = []
    for cat in sorted(glob.glob(os.path.join(V, 'mutants', 'C*.json'))):
        pid = os.path.basename(cat)[:-5]
        entries = json.load(open(cat))
        try:
            res = {r['name']: r for r in json.load(open(os.path.join(V, 'mutants', 'results', pid + '.json')))}
        except Exception:
            res = {}
        nb = ns = cb = cs = other = 0
        for e in entries:
            silent = e.get('expect') == 'silent'
            r = res.get(e['name'])
            st = r['status'] if r else None
            if silent:
                ns += 1
                if st and st.startswith('SILENT'): cs += 1
                else: other += 1; bad.append((pid, e['name'], st))
            else:
                nb += 1
                if st == 'CAUGHT': cb += 1
                else: other += 1; bad.append((pid, e['name'], st))
        tot += len(entries)
        rows.append('| %s | %d | %d/%d | %s | %s |' % (pid, len(entries), cb, nb, ('%d/%d' % (cs, ns)) if ns else '—', other or ''))
    table = '\n'.join(rows) + '\n\n(%d mutations in the catalogs.)' % tot
    for b in bad:
        print('not CAUGHT/SILENT-AS-EXPECTED in the recorded results:', b)
    if '--print' in sys.argv:
        print(table); return
    p = os.path.join(V, 'DESIGN.md')
    s = open(p).read()
    if BEGIN not in s:
        print('markers not found'); return 1
    a, rest = s.split(BEGIN, 1); _, b = rest.split(END, 1)
    open(p, 'w').write(a + BEGIN + '\n' + table + '\n' + END + b)
    print('table written,', tot, 'mutations')


if __name__ == '__main__':
    sys.exit(main() or 0)
