"""Offline oracles for C16 (JUnit XML judged by expat) and C20 (TeamCity stream judged by an
independent tokenizer + pairing automaton). Input: the `obs` records written by
harness/c16_c20_reports.cpp (ground truth of the generated run + captured bytes)."""
import json
import xml.parsers.expat

FORBIDDEN = '/\\?%*:|"<>'


def V(rec, key, detail, truth):
    return dict(key=key, case=rec['case'], variant=rec.get('variant'), detail=detail[:2000], desc=truth, section=rec.get('section'))


def passes_of(truth):
    """one entry per pass over the registry: is the run-ignored option in force during that pass?"""
    p = truth.get('run_ignored_in_pass')
    return list(p) if p is not None else [False] * truth['repeat']


def as_executed(t, run_ignored, r=0):
    """the test as one pass sees it: an IGNORE_TEST is an ignored test of the pass unless the pass runs ignored tests (option of the
    run, or setRunIgnored() on the shell itself); then it is executed and does what its body does. An ignored test does nothing."""
    skipped = bool(t['ignored']) and not (run_ignored or t.get('shell_run_ignored'))
    e = dict(t, ignored=skipped, declared_ignored=bool(t['ignored']), run_ignored_option=bool(run_ignored), renamed=False)
    names = t.get('name_in_pass')
    if names:
        # the tests may be renamed between two passes: each pass is reported under the names of that pass
        e['name'] = names[r]
        e['renamed'] = r > 0 and names[r] != names[r - 1]
    if skipped:
        e['failures'] = []
        e['prints'] = []
    return e


# ------------------------------------------------------------------ C16
def parse_xml(text):
    """returns a tree of (name, attrs, children, text) using expat (standards-conforming, non-validating)"""
    root = []
    stack = [dict(name=None, attrs={}, children=root, text='')]
    p = xml.parsers.expat.ParserCreate()
    p.buffer_text = True

    def start(name, attrs):
        node = dict(name=name, attrs=attrs, children=[], text='')
        stack[-1]['children'].append(node)
        stack.append(node)

    def end(name):
        stack.pop()

    def chars(data):
        stack[-1]['text'] += data

    p.StartElementHandler = start
    p.EndElementHandler = end
    p.CharacterDataHandler = chars
    p.Parse(text.encode('utf-8'), True)
    return root


def is_report_without_testcases(f):
    """what the code leaves behind for a group none of whose tests was started (not judged: the property speaks about the groups that have tests in the run)"""
    try:
        tree = parse_xml(f['content'])
    except xml.parsers.expat.ExpatError:
        return False
    return len(tree) == 1 and tree[0]['name'] == 'testsuite' and not [n for n in tree[0]['children'] if n['name'] == 'testcase']


def judge_junit(rec, counters):
    out = []
    obs = rec['obs']
    truth = obs['truth']
    pkg = truth['package']
    files = obs['files']
    ri_pass = passes_of(truth)
    rep = len(ri_pass)
    filtered = bool(truth.get('filtered'))
    # the run as the output object gets to see it: per repetition, per group, the tests the filters select (run order)
    plan = []
    for r in range(rep):
        for g in truth['groups']:
            plan.append((r, g, [as_executed(t, ri_pass[r], r) for t in g['tests'] if t.get('selected', True)]))
    if not filtered:
        if len(files) != len(plan):
            out.append(V(rec, 'junit:file-count', 'expected %d files (one per group per repetition), captured %d: %r' % (len(plan), len(files), [f['name'] for f in files]), truth))
            return out
    else:
        counters['junit_filtered_runs'] = counters.get('junit_filtered_runs', 0) + 1
    printed_all = obs.get('printed', [])
    # text printed (raw strings passed to print) - only known exactly in mode 0
    texts_so_far = []
    fi = 0
    for r, g, sel in plan:
        if filtered and not sel:
            # wholly filtered-out group: whether it leaves a report (without test cases) behind is not judged
            counters['junit_groups_wholly_filtered_out_not_judged'] = counters.get('junit_groups_wholly_filtered_out_not_judged', 0) + 1
            if fi < len(files) and is_report_without_testcases(files[fi]):
                fi += 1
            continue
        want_name = 'cpputest_' + (pkg + '_' if pkg else '') + g['name']
        want_name = ''.join('_' if ch in FORBIDDEN else ch for ch in want_name) + '.xml'
        if filtered:
            # every group with at least one selected test produces one file, in run order
            if fi >= len(files) or files[fi]['name'] != want_name:
                out.append(V(rec, 'junit:filtered-run:no-file-for-group', 'group %r (%d of its %d tests selected) should have produced %r; next captured file: %r (all: %r)' % (
                    g['name'], len(sel), len(g['tests']), want_name, files[fi]['name'] if fi < len(files) else None, [f['name'] for f in files]), truth))
                return out
            counters['junit_files_judged_in_filtered_runs'] = counters.get('junit_files_judged_in_filtered_runs', 0) + 1
        f = files[fi]
        fi += 1
        n_before = len(texts_so_far)
        texts_group = [ptxt for t in sel for ptxt in t['prints']]
        texts_so_far += texts_group
        counters['junit_files_parsed'] = counters.get('junit_files_parsed', 0) + 1
        if not g['name']:
            counters['junit_files_of_a_group_with_empty_name'] = counters.get('junit_files_of_a_group_with_empty_name', 0) + 1
        if f['name'] != want_name:
            out.append(V(rec, 'junit:file-name', 'file name %r, expected %r' % (f['name'], want_name), truth))
        if f['closes'] != 1 or f['writes_after_close']:
            out.append(V(rec, 'junit:file-not-closed-once', 'closes=%d writes_after_close=%d' % (f['closes'], f['writes_after_close']), truth))
        try:
            tree = parse_xml(f['content'])
        except xml.parsers.expat.ExpatError as e:
            out.append(V(rec, 'junit:not-well-formed', '%s in file %r: %r' % (e, f['name'], f['content'][:600]), truth))
            continue
        if len(tree) != 1 or tree[0]['name'] != 'testsuite':
            out.append(V(rec, 'junit:no-single-testsuite', repr([n['name'] for n in tree]), truth))
            continue
        suite = tree[0]
        a = suite['attrs']
        ntests = len(sel)
        nfailed = sum(1 for t in sel if t['failures'])
        if a.get('name') != g['name']:
            out.append(V(rec, 'junit:suite-name', 'suite name %r, group %r' % (a.get('name'), g['name']), truth))
        if a.get('tests') != str(ntests):
            out.append(V(rec, 'junit:suite-tests-count', 'tests=%r, true %d' % (a.get('tests'), ntests), truth))
        if a.get('failures') != str(nfailed):
            out.append(V(rec, 'junit:suite-failures-count', 'failures=%r, true number of failed tests %d' % (a.get('failures'), nfailed), truth))
        cases = [n for n in suite['children'] if n['name'] == 'testcase']
        if len(cases) != ntests:
            out.append(V(rec, 'junit:testcase-count', '%d testcase elements for %d tests' % (len(cases), ntests), truth))
            continue
        for t, cnode in zip(sel, cases):
            ca = cnode['attrs']
            counters['junit_testcases_checked'] = counters.get('junit_testcases_checked', 0) + 1
            if t['renamed']:
                counters['junit_renamed_tests_checked'] = counters.get('junit_renamed_tests_checked', 0) + 1
            if ca.get('name') != t['name']:
                out.append(V(rec, 'junit:testcase-name' + (':test-renamed-since-the-previous-pass' if t['renamed'] else ''), 'name %r, test %r' % (ca.get('name'), t['name']), truth))
            if ca.get('file') != t['file']:
                out.append(V(rec, 'junit:testcase-file', 'file %r, true %r' % (ca.get('file'), t['file']), truth))
            if ca.get('line') != str(t['line']):
                out.append(V(rec, 'junit:testcase-line', 'line %r, true %r' % (ca.get('line'), t['line']), truth))
            want_class = (pkg + '.' if pkg else '') + g['name']
            if ca.get('classname') != want_class:
                out.append(V(rec, 'junit:testcase-classname', 'classname %r, expected %r' % (ca.get('classname'), want_class), truth))
            skipped = [n for n in cnode['children'] if n['name'] == 'skipped']
            failure = [n for n in cnode['children'] if n['name'] == 'failure']
            if t['declared_ignored']:
                what = 'junit_ignore_tests_skipped_checked' if t['ignored'] else 'junit_ignore_tests_executed_failing_checked' if t['failures'] else 'junit_ignore_tests_executed_passing_checked'
                counters[what] = counters.get(what, 0) + 1
            if bool(skipped) != bool(t['ignored']):
                key, how = 'junit:skipped-marker', 'ignored' if t['ignored'] else 'not ignored'
                if t['declared_ignored'] and not t['ignored']:
                    # an IGNORE_TEST that this pass executed (run-ignored) is no ignored test of the run
                    key += ':ignore-test-executed-under-run-ignored'
                    how = 'an IGNORE_TEST executed in pass %d of %d (run-ignored %s)' % (r + 1, rep, 'option on' if t['run_ignored_option'] else 'set on the shell')
                out.append(V(rec, key, 'skipped marker %s for a test that is %s' % ('present' if skipped else 'absent', how), truth))
            if bool(failure) != bool(t['failures']) or len(failure) > 1:
                out.append(V(rec, 'junit:failure-element', '%d failure elements for a test with %d failures' % (len(failure), len(t['failures'])), truth))
            elif failure:
                msg = failure[0]['attrs'].get('message')
                if any(fl['text'] is None for fl in t['failures']):
                    # failure added by the parent of a separate-process run: its wording is not this property's business
                    counters['junit_parent_side_failures_seen'] = counters.get('junit_parent_side_failures_seen', 0) + 1
                else:
                    wants = ['%s:%d: %s' % (fl['file'], fl['line'], fl['text']) for fl in t['failures']]
                    if msg not in wants:
                        out.append(V(rec, 'junit:failure-message', 'message %r is none of the test\'s failures %r' % (msg, wants), truth))
        # captured output: everything printed so far, or only this group's
        so = [n for n in suite['children'] if n['name'] == 'system-out']
        if len(so) != 1:
            out.append(V(rec, 'junit:system-out-count', '%d system-out elements' % len(so), truth))
        else:
            got = so[0]['text']
            if truth['mode'] == 0:
                # exact: the raw strings handed to print() in order
                n_so_far = len(texts_so_far)
                all_so_far = ''.join(printed_all[:n_so_far])
                only_group = ''.join(printed_all[n_before:n_so_far])
                if got != all_so_far and got != only_group:
                    out.append(V(rec, 'junit:system-out-content', 'system-out %r is neither the output so far %r nor this group\'s %r' % (got, all_so_far, only_group), truth))
            else:
                pos = 0
                for ptxt in texts_group:
                    j = got.find(ptxt, pos) if rep == 1 else got.find(ptxt)
                    if j < 0:
                        out.append(V(rec, 'junit:system-out-content', 'printed text %r not found (in order) in system-out %r' % (ptxt, got), truth))
                        break
                    pos = j + len(ptxt)
    if filtered:
        extra = [f['name'] for f in files[fi:] if not is_report_without_testcases(f)]
        if extra:
            out.append(V(rec, 'junit:filtered-run:extra-file-with-testcases', 'files with test cases beyond those of the groups that ran: %r' % extra, truth))
    return out


# ------------------------------------------------------------------ C20
def tokenize_teamcity(stream):
    """independent tokenizer: returns (messages, error). A message is (name, {key: decoded value}).
    Service messages start with '##teamcity[' and must be closed by ']' followed by a line break."""
    msgs = []
    i = 0
    n = len(stream)
    while True:
        j = stream.find('##teamcity[', i)
        if j < 0:
            break
        k = j + len('##teamcity[')
        m = k
        while m < n and (stream[m].isalnum() or stream[m] == '_'):
            m += 1
        name = stream[k:m]
        if not name:
            return msgs, 'message without a name at offset %d' % j
        attrs = {}
        while True:
            if m >= n:
                return msgs, 'unterminated message %s at offset %d' % (name, j)
            if stream[m] == ']':
                m += 1
                break
            if stream[m] != ' ':
                return msgs, 'unexpected character %r after %s at offset %d' % (stream[m], name, m)
            m += 1
            e = m
            while e < n and (stream[e].isalnum() or stream[e] == '_'):
                e += 1
            key = stream[m:e]
            if not key or stream[e:e + 2] != "='":
                return msgs, "attribute syntax error in %s at offset %d: %r" % (name, m, stream[m:m + 30])
            m = e + 2
            val = []
            while True:
                if m >= n:
                    return msgs, 'unterminated value %s.%s' % (name, key)
                ch = stream[m]
                if ch == '|':
                    if m + 1 >= n:
                        return msgs, 'dangling escape in %s.%s' % (name, key)
                    nx = stream[m + 1]
                    mp = {"'": "'", '|': '|', '[': '[', ']': ']', 'n': '\n', 'r': '\r'}
                    if nx not in mp:
                        return msgs, 'invalid escape |%s in %s.%s' % (nx, name, key)
                    val.append(mp[nx])
                    m += 2
                elif ch == "'":
                    m += 1
                    break
                elif ch in '\n\r':
                    return msgs, 'raw line break inside value %s.%s' % (name, key)
                elif ch in '[]':
                    return msgs, 'unescaped %s inside value %s.%s' % (ch, name, key)
                else:
                    val.append(ch)
                    m += 1
            if key in attrs:
                return msgs, 'duplicate attribute %s in %s' % (key, name)
            attrs[key] = ''.join(val)
        if stream[m:m + 1] != '\n':
            return msgs, 'message %s not followed by a line break at offset %d: %r' % (name, m, stream[m:m + 20])
        msgs.append((name, attrs))
        i = m
    return msgs, None


def judge_teamcity(rec, counters):
    out = []
    obs = rec['obs']
    truth = obs['truth']
    msgs, err = tokenize_teamcity(obs['stream'])
    if err:
        out.append(V(rec, 'teamcity:cannot-tokenize', err + ' ; stream=%r' % obs['stream'][:1500], truth))
        return out
    counters['teamcity_messages_decoded'] = counters.get('teamcity_messages_decoded', 0) + len(msgs)
    # A suite whose name is the empty string and which is never finished is reported under a key of its own (the output object
    # using the empty group name as its "no group open" marker), once per run; the missing finish is then supplied so that the
    # rest of the run is still judged for everything else.
    patched = []
    open_empty = False
    n_missing = 0
    for name, attrs in msgs + [(None, None)]:
        if open_empty and name in ('testSuiteStarted', None):
            patched.append(('testSuiteFinished', {'name': ''}))
            n_missing += 1
            open_empty = False
        if name == 'testSuiteStarted':
            open_empty = attrs.get('name') == ''
        elif name == 'testSuiteFinished':
            open_empty = False
        if name is not None:
            patched.append((name, attrs))
    if any(not g['name'] for g in truth['groups']):
        counters['teamcity_runs_with_an_empty_group_name'] = counters.get('teamcity_runs_with_an_empty_group_name', 0) + 1
    if n_missing:
        out.append(V(rec, 'teamcity:suite-not-finished:empty-group-name', '%d suite(s) started with name=\'\' got no testSuiteFinished; stream=%r' % (n_missing, obs['stream'][:1200]), truth))
        msgs = patched
    filtered = bool(truth.get('filtered'))
    # expected event sequence
    exp = []
    ri_pass = passes_of(truth)
    for r in range(len(ri_pass)):
        for g in truth['groups']:
            exp.append(('testSuiteStarted', g['name'], None))
            for t in g['tests']:
                if not t.get('selected', True):
                    continue
                t = as_executed(t, ri_pass[r], r)
                if t['renamed']:
                    counters['teamcity_renamed_tests_expected'] = counters.get('teamcity_renamed_tests_expected', 0) + 1
                if t['declared_ignored']:
                    what = 'teamcity_ignore_tests_skipped_expected' if t['ignored'] else 'teamcity_ignore_tests_executed_expected'
                    counters[what] = counters.get(what, 0) + 1
                exp.append(('testStarted', t['name'], t))
                if t['ignored']:
                    exp.append(('testIgnored', t['name'], None))
                for fl in t['failures']:
                    exp.append(('testFailed', t['name'], (fl, t)))
                exp.append(('testFinished', t['name'], None))
            exp.append(('testSuiteFinished', g['name'], None))
    # pairing automaton (independent of the expected sequence)
    open_suite = None
    open_test = None
    for name, attrs in msgs:
        nm = attrs.get('name')
        if name == 'testSuiteStarted':
            if open_suite is not None:
                out.append(V(rec, 'teamcity:suite-start-inside-suite', 'suite %r started while %r is open' % (nm, open_suite), truth))
            open_suite = nm
        elif name == 'testSuiteFinished':
            if open_suite is None or open_suite != nm:
                out.append(V(rec, 'teamcity:suite-finish-mismatch', 'suite finish %r while open suite is %r' % (nm, open_suite), truth))
            if open_test is not None:
                out.append(V(rec, 'teamcity:suite-finish-with-open-test', 'test %r still open' % open_test, truth))
            open_suite = None
        elif name == 'testStarted':
            if open_suite is None:
                out.append(V(rec, 'teamcity:test-outside-suite', 'test %r started outside a suite' % nm, truth))
            if open_test is not None:
                out.append(V(rec, 'teamcity:test-start-inside-test', 'test %r started while %r is open' % (nm, open_test), truth))
            open_test = nm
        elif name == 'testFinished':
            if open_test is None or open_test != nm:
                out.append(V(rec, 'teamcity:test-finish-mismatch', 'test finish %r while open test is %r' % (nm, open_test), truth))
            open_test = None
        elif name in ('testFailed', 'testIgnored'):
            if open_test is None or open_test != nm:
                out.append(V(rec, 'teamcity:%s-not-open-test' % name, '%s names %r while open test is %r' % (name, nm, open_test), truth))
    if open_suite is not None or open_test is not None:
        out.append(V(rec, 'teamcity:unbalanced-at-end', 'open suite %r / open test %r at end of stream' % (open_suite, open_test), truth))
    # faithfulness: decoded messages equal the ground truth
    got = [(n, a.get('name')) for n, a in msgs]
    want = [(n, nm) for n, nm, _ in exp]
    if filtered:
        counters['teamcity_filtered_runs'] = counters.get('teamcity_filtered_runs', 0) + 1
        # filtered runs: whether a group without selected tests still gets an (empty) suite is not stated;
        # judge the balance (automaton above), the test events, and that each test sits in a suite of its own group
        got_tests = [x for x in got if not x[0].startswith('testSuite')]
        want_tests = [x for x in want if not x[0].startswith('testSuite')]
        if got_tests != want_tests:
            out.append(V(rec, 'teamcity:filtered-run:test-events-differ', 'got %r expected %r' % (got_tests[:12], want_tests[:12]), truth))
        cur = None
        gi = iter([g for r in range(len(ri_pass)) for g in truth['groups'] for t in g['tests'] if t.get('selected', True)])
        for name, attrs in msgs:
            if name == 'testSuiteStarted':
                cur = attrs.get('name')
            elif name == 'testSuiteFinished':
                cur = None
            elif name == 'testStarted':
                g = next(gi, None)
                if g is not None and cur != g['name']:
                    out.append(V(rec, 'teamcity:filtered-run:test-in-foreign-suite', 'test %r of group %r reported inside suite %r' % (attrs.get('name'), g['name'], cur), truth))
        return out
    if got != want:
        # find first difference
        k = 0
        while k < min(len(got), len(want)) and got[k] == want[k]:
            k += 1
        kind = 'missing-or-extra'
        if k < len(got) and k < len(want):
            kind = 'kind' if got[k][0] != want[k][0] else 'name-decoding'
            tt = exp[k][2] if want[k][0] == 'testStarted' else None
            if kind == 'name-decoding' and tt and tt['renamed']:
                kind += ':test-renamed-since-the-previous-pass'
            if want[k][0] == 'testIgnored' or got[k][0] == 'testIgnored':
                kind = 'ignored-marker'
                started = exp[k - 1][2] if k and exp[k - 1][0] == 'testStarted' else None
                if got[k][0] == 'testIgnored' and started and started['declared_ignored'] and not started['ignored']:
                    kind += ':ignore-test-executed-under-run-ignored'
        out.append(V(rec, 'teamcity:sequence-differs:' + kind, 'event %d: got %r expected %r' % (k, got[k] if k < len(got) else None, want[k] if k < len(want) else None), truth))
        return out
    for (name, attrs), (_, _, extra) in zip(msgs, exp):
        if name == 'testFailed':
            fl, t = extra
            counters['teamcity_failures_checked'] = counters.get('teamcity_failures_checked', 0) + 1
            if fl['text'] is None:
                # failure added by the parent of a separate-process run: it must name the open test (pairing automaton and
                # sequence comparison above); its wording and location are not this property's business
                counters['teamcity_parent_side_failures_checked'] = counters.get('teamcity_parent_side_failures_checked', 0) + 1
                continue
            msg = attrs.get('message', '')
            det = attrs.get('details')
            loc = '%s:%d' % (fl['file'], fl['line'])
            if not msg.endswith(loc):
                out.append(V(rec, 'teamcity:failure-location', 'decoded message %r does not end with the failure location %r' % (msg, loc), truth))
            outside = fl['file'] != t['file'] or fl['line'] < t['line']
            if outside and ('%s:%d' % (t['file'], t['line'])) not in msg:
                out.append(V(rec, 'teamcity:failure-test-location', 'decoded message %r lacks the test location %s:%d' % (msg, t['file'], t['line']), truth))
            if det != fl['text']:
                out.append(V(rec, 'teamcity:failure-details', 'decoded details %r, original %r' % (det, fl['text']), truth))
    return out


def judge(observations, cfg):
    violations = []
    counters = {}
    for rec in observations:
        kind = rec['obs'].get('kind')
        if kind == 'junit':
            violations += judge_junit(rec, counters)
        elif kind == 'teamcity':
            violations += judge_teamcity(rec, counters)
    return violations, counters
